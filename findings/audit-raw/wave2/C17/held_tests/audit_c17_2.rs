//! C17 audit: ephemeral range driven to wrap-around and exhaustion.

use std::collections::BTreeSet;
use std::future::Future;
use std::io::ErrorKind;
use std::net::IpAddr;
use std::pin::Pin;
use std::task::{Context, Poll, Waker};

use turmoil_net::shim::tokio::net::{TcpListener, TcpStream, UdpSocket};
use turmoil_net::Net;

fn now<T>(fut: impl Future<Output = T>) -> T {
    let mut fut: Pin<Box<dyn Future<Output = T> + '_>> = Box::pin(fut);
    match fut
        .as_mut()
        .poll(&mut Context::from_waker(Waker::noop()))
    {
        Poll::Ready(v) => v,
        Poll::Pending => panic!("pending"),
    }
}

fn ip(s: &str) -> IpAddr {
    s.parse().unwrap()
}

const N: usize = 65535 - 49152 + 1;

#[test]
fn udp_ephemeral_exhaustion_and_reuse() {
    let mut net = Net::new();
    let a = net.add_host(vec![ip("10.0.0.1"), ip("10.0.0.2"), ip("fd00::1")]);
    let guard = net.enter();
    turmoil_net::set_current(a);

    // Squat a few ephemeral ports on specific addresses.
    let squat1 = now(UdpSocket::bind("10.0.0.2:49160")).unwrap();
    let squat2 = now(UdpSocket::bind("127.0.0.1:65535")).unwrap();
    let squat3 = now(UdpSocket::bind("0.0.0.0:49152")).unwrap();
    // other protocol / family: must not matter
    let _t = now(TcpListener::bind("0.0.0.0:49170")).unwrap();
    let _s6 = now(UdpSocket::bind("[::]:49171")).unwrap();

    let addrs = ["10.0.0.1:0", "127.0.0.1:0", "0.0.0.0:0", "10.0.0.2:0"];
    let mut socks = Vec::new();
    let mut seen = BTreeSet::new();
    seen.extend([49160u16, 65535, 49152]);
    for i in 0..N - 3 {
        let s = now(UdpSocket::bind(addrs[i % 4]))
            .unwrap_or_else(|e| panic!("bind #{i} failed: {e}"));
        let p = s.local_addr().unwrap().port();
        assert!(p >= 49152);
        assert!(seen.insert(p), "port {p} handed out twice (#{i})");
        socks.push(s);
    }
    assert_eq!(seen.len(), N);
    // Exhausted.
    for a in addrs {
        let e = now(UdpSocket::bind(a)).unwrap_err();
        assert_eq!(e.kind(), ErrorKind::AddrInUse);
    }
    // v6 and TCP are unaffected.
    let s6 = now(UdpSocket::bind("[::1]:0")).unwrap();
    assert!(s6.local_addr().unwrap().port() >= 49152);
    let t = now(TcpListener::bind("127.0.0.1:0")).unwrap();
    assert!(t.local_addr().unwrap().port() >= 49152);

    // Free one in the middle, one squatted: those and only those come back.
    let freed = socks.remove(5000).local_addr().unwrap().port();
    let s = now(UdpSocket::bind("10.0.0.2:0")).unwrap();
    assert_eq!(s.local_addr().unwrap().port(), freed);
    assert_eq!(
        now(UdpSocket::bind("10.0.0.1:0")).unwrap_err().kind(),
        ErrorKind::AddrInUse
    );
    drop(squat2);
    let s2 = now(UdpSocket::bind("0.0.0.0:0")).unwrap();
    assert_eq!(s2.local_addr().unwrap().port(), 65535);
    drop(squat1);
    drop(squat3);
    let s3 = now(UdpSocket::bind("127.0.0.1:0")).unwrap();
    let s4 = now(UdpSocket::bind("127.0.0.1:0")).unwrap();
    let got: BTreeSet<u16> = [s3.local_addr().unwrap().port(), s4.local_addr().unwrap().port()]
        .into_iter()
        .collect();
    assert_eq!(got, BTreeSet::from([49152, 49160]));
    // an explicit bind inside the exhausted range still follows the matrix
    drop(s3);
    drop(s4);
    let x = now(UdpSocket::bind("10.0.0.1:49152")).unwrap();
    let y = now(UdpSocket::bind("10.0.0.2:49152")).unwrap();
    assert_eq!(
        now(UdpSocket::bind("0.0.0.0:49152")).unwrap_err().kind(),
        ErrorKind::AddrInUse
    );
    assert_eq!(
        now(UdpSocket::bind("127.0.0.1:0")).unwrap().local_addr().unwrap().port(),
        49160
    );
    drop((x, y));

    drop(socks);
    drop((s, s2, s6, t, _t, _s6));
    assert!(turmoil_net::netstat(ip("10.0.0.1")).entries.is_empty());
    drop(guard);
}

/// TCP clients draw from the same table: wrap-around after close, and a
/// connect with no port left fails instead of colliding.
#[test]
fn tcp_client_ports_wrap_and_exhaust() {
    let mut net = Net::new();
    let a = net.add_host(vec![ip("10.0.0.1")]);
    let guard = net.enter();
    turmoil_net::set_current(a);
    let pump = || {
        let mut out = Vec::new();
        for _ in 0..16 {
            out.clear();
            guard.egress_all(&mut out);
            assert!(out.is_empty(), "single host: nothing leaves");
        }
    };

    let l = now(TcpListener::bind("127.0.0.1:80")).unwrap();
    // Occupy all but 2 ports with listeners (cheap, no handshake).
    let mut ls = Vec::new();
    for p in 49152u32..=65535 {
        if p == 50000 || p == 60000 {
            continue;
        }
        ls.push(now(TcpListener::bind(("10.0.0.1".parse::<IpAddr>().unwrap(), p as u16))).unwrap());
    }
    let connect = || {
        let mut fut: Pin<Box<dyn Future<Output = std::io::Result<TcpStream>>>> =
            Box::pin(TcpStream::connect("127.0.0.1:80"));
        for _ in 0..50 {
            if let Poll::Ready(v) = fut.as_mut().poll(&mut Context::from_waker(Waker::noop())) {
                return v;
            }
            pump();
        }
        panic!("connect stuck");
    };
    let c1 = connect().unwrap();
    let c2 = connect().unwrap();
    let got: BTreeSet<u16> = [c1.local_addr().unwrap().port(), c2.local_addr().unwrap().port()]
        .into_iter()
        .collect();
    assert_eq!(got, BTreeSet::from([50000, 60000]));
    let e = connect().unwrap_err();
    assert!(
        matches!(e.kind(), ErrorKind::AddrInUse | ErrorKind::AddrNotAvailable),
        "{e:?}"
    );
    // Close c1 completely (both ends), its port comes back.
    let (s1, _) = now(l.accept()).unwrap();
    let (s2, _) = now(l.accept()).unwrap();
    let p1 = c1.local_addr().unwrap().port();
    drop(c1);
    drop(s1);
    pump();
    let c3 = connect().unwrap();
    assert_eq!(c3.local_addr().unwrap().port(), p1);
    let (s3, peer3) = now(l.accept()).unwrap();
    assert_eq!(peer3, c3.local_addr().unwrap());
    drop((c2, s2, c3, s3, l));
    drop(ls);
    pump();
    assert!(
        turmoil_net::netstat(ip("10.0.0.1")).entries.is_empty(),
        "{}",
        turmoil_net::netstat(ip("10.0.0.1"))
    );
    drop(guard);
}
