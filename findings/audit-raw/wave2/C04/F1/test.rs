//! audit C04 / F1: a host doing fs work is crashed (or bounced) at every step
//! of its workload. `Sim::crash` / `Sim::bounce` drop the host's tasks, i.e.
//! they run the host's destructors. Those destructors run on behalf of the
//! host (the network destructors are given the host's `World` context for
//! exactly that reason), so a destructor that touches the host's filesystem
//! must work like it does when the same value is dropped during a step.
//!
//! On the unmodified tree the destructors run with *no* filesystem entered:
//! every fs call made from a destructor panics with "turmoil-fs: no Fs is
//! current (call enter first)". tokio swallows one such panic per task (it is
//! only printed), a second one in the same task aborts the test process.
#![cfg(feature = "unstable-fs")]

use std::io::{BufWriter, Write};
use std::panic::catch_unwind;
use std::sync::{Arc, Mutex};
use std::time::Duration;

use turmoil::fs::shim::std::fs::{create_dir_all, remove_file, sync_dir, write, OpenOptions};
use turmoil::{Builder, Result, Sim};

/// What a destructor that ran during crash / bounce observed.
#[derive(Debug, Clone, PartialEq)]
enum Seen {
    Ok,
    IoError(String),
    Panicked(String),
}

type Log = Arc<Mutex<Vec<Seen>>>;

/// The classic pid / lock file guard: created on start, removed on drop.
struct LockFile {
    log: Log,
}

impl Drop for LockFile {
    fn drop(&mut self) {
        let seen = match catch_unwind(|| remove_file("/data/LOCK")) {
            Ok(Ok(())) => Seen::Ok,
            Ok(Err(e)) => Seen::IoError(e.to_string()),
            Err(p) => Seen::Panicked(
                p.downcast_ref::<String>()
                    .cloned()
                    .or_else(|| p.downcast_ref::<&str>().map(|s| s.to_string()))
                    .unwrap_or_default(),
            ),
        };
        self.log.lock().unwrap().push(seen);
    }
}

fn lock_file_workload<'a>(log: Log) -> Sim<'a> {
    let mut sim = Builder::new().build();
    sim.host("server", move || {
        let log = log.clone();
        async move {
            create_dir_all("/data")?;
            sync_dir("/")?;
            write("/data/LOCK", b"pid")?;
            let _lock = LockFile { log };
            loop {
                tokio::time::sleep(Duration::from_millis(1)).await;
            }
        }
    });
    sim
}

fn steps(sim: &mut Sim<'_>, n: usize) {
    for _ in 0..n {
        sim.step().unwrap();
    }
}

/// Control: the very same guard dropped while the host is running works.
#[test]
fn control_guard_dropped_during_a_step_can_use_the_fs() -> Result {
    let log: Log = Default::default();
    let l = log.clone();
    let mut sim = Builder::new().build();
    sim.client("server", async move {
        create_dir_all("/data")?;
        write("/data/LOCK", b"pid")?;
        drop(LockFile { log: l });
        Ok(())
    });
    sim.run()?;
    assert_eq!(*log.lock().unwrap(), vec![Seen::Ok]);
    Ok(())
}

#[test]
fn crash_runs_destructors_with_the_hosts_fs() -> Result {
    let mut bad = vec![];
    // step 0: the software was never polled, nothing to drop.
    for k in 1..6 {
        let log: Log = Default::default();
        let mut sim = lock_file_workload(log.clone());
        steps(&mut sim, k);
        sim.crash("server");
        let seen = log.lock().unwrap().clone();
        assert_eq!(seen.len(), 1, "the guard's destructor ran exactly once");
        if seen[0] != Seen::Ok {
            bad.push((k, seen[0].clone()));
        }
    }
    assert!(
        bad.is_empty(),
        "destructors run by Sim::crash could not use the host's fs: {bad:?}"
    );
    Ok(())
}

#[test]
fn bounce_runs_destructors_with_the_hosts_fs() -> Result {
    let mut bad = vec![];
    for k in 1..6 {
        let log: Log = Default::default();
        let mut sim = lock_file_workload(log.clone());
        steps(&mut sim, k);
        sim.bounce("server");
        let seen = log.lock().unwrap().clone();
        assert_eq!(seen.len(), 1, "the guard's destructor ran exactly once");
        if seen[0] != Seen::Ok {
            bad.push((k, seen[0].clone()));
        }
        // the new incarnation starts and takes the lock again
        steps(&mut sim, 2);
        assert!(sim.is_host_running("server"));
    }
    assert!(
        bad.is_empty(),
        "destructors run by Sim::bounce could not use the host's fs: {bad:?}"
    );
    Ok(())
}

/// Two buffered writers (data log + index) owned by one task, both holding
/// unflushed bytes when the host is crashed. `BufWriter` flushes on drop: the
/// first flush panics (no Fs entered), the second panics while unwinding from
/// the first, which aborts the whole test process (SIGABRT).
///
/// Ignored by default because it takes the test binary down with it:
///   cargo test -p turmoil --features unstable-fs --test audit_c04_1 -- --ignored
#[test]
#[ignore = "aborts the test process on the unmodified tree"]
fn crash_of_a_task_with_two_buffered_writers_aborts() -> Result {
    let mut sim = Builder::new().build();
    sim.host("server", || async {
        create_dir_all("/data")?;
        sync_dir("/")?;
        let open = |p: &str| OpenOptions::new().write(true).create(true).open(p);
        let mut data = BufWriter::new(open("/data/log")?);
        let mut index = BufWriter::new(open("/data/idx")?);
        for i in 0u32.. {
            data.write_all(&i.to_le_bytes())?;
            index.write_all(&[1])?;
            tokio::time::sleep(Duration::from_millis(1)).await;
        }
        Ok(())
    });
    steps(&mut sim, 3);
    sim.crash("server");
    assert!(!sim.is_host_running("server"));
    sim.bounce("server");
    steps(&mut sim, 3);
    // Stop the new incarnation before the Sim is dropped: dropping a Sim with
    // such a host still running has the same problem (outside this property).
    sim.crash("server");
    Ok(())
}
