//! audit C04 / harness 8: a connector host crashed at every step of its
//! connect / transfer leaves no entry in its own stream table.
use std::cell::RefCell;
use std::rc::Rc;
use std::time::Duration;
use tokio::io::{AsyncReadExt, AsyncWriteExt};
use turmoil::net::{TcpListener, TcpStream};
use turmoil::Builder;

#[test]
fn connector_table_is_empty_after_crash() {
    let only: Option<usize> = std::env::var("ONLY_K").ok().map(|v| v.parse().unwrap());
    if only.is_some() {
        tracing_subscriber::fmt()
            .with_env_filter("turmoil=trace")
            .with_test_writer()
            .without_time()
            .init();
    }
    let only_seed: Option<u64> = std::env::var("ONLY_SEED").ok().map(|v| v.parse().unwrap());
    for seed in 0..20u64 {
    for accept in [true, false] {
        for k in 0..25 {
            if only.is_some_and(|o| o != k) || only_seed.is_some_and(|o| o != seed) {
                continue;
            }
            let mut b = Builder::new();
            b.rng_seed(seed);
            b.min_message_latency(Duration::from_millis(1))
                .max_message_latency(Duration::from_millis(4));
            let mut sim = b.build();
            sim.host("server", move || async move {
                let l = TcpListener::bind(("0.0.0.0", 9000)).await?;
                if !accept {
                    std::future::pending::<()>().await;
                }
                loop {
                    let (mut s, _) = l.accept().await?;
                    tokio::spawn(async move {
                        let mut buf = [0u8; 8];
                        while let Ok(n) = s.read(&mut buf).await {
                            if n == 0 || s.write_all(&buf[..n]).await.is_err() {
                                break;
                            }
                        }
                    });
                }
            });
            sim.host("dialer", || async {
                let mut set = vec![];
                for i in 0..4u64 {
                    set.push(tokio::task::spawn_local(async move {
                        tokio::time::sleep(Duration::from_millis(3 * i)).await;
                        let mut c = TcpStream::connect(("server", 9000)).await.unwrap();
                        let mut buf = [0u8; 4];
                        loop {
                            c.write_all(b"ping").await.unwrap();
                            c.write_all(b"ping").await.unwrap();
                            c.read_exact(&mut buf).await.unwrap();
                        }
                    }));
                }
                for h in set {
                    let _ = h.await;
                }
                Ok(())
            });
            for _ in 0..k {
                sim.step().unwrap();
            }
            sim.crash("dialer");
            let seen = Rc::new(RefCell::new(None));
            let s = seen.clone();
            sim.client("probe", async move {
                *s.borrow_mut() = Some(turmoil::established_tcp_stream_count_on("dialer"));
                for _ in 0..15 {
                    tokio::time::sleep(Duration::from_millis(1)).await;
                    if std::env::var("ONLY_K").is_ok() {
                        eprintln!(
                            "PROBE t={:?} server streams={}",
                            turmoil::sim_elapsed(),
                            turmoil::established_tcp_stream_count_on("server")
                        );
                    }
                }
                // and the server forgets the dead peers too (when it accepts)
                let n = turmoil::established_tcp_stream_count_on("server");
                assert_eq!(n, 0, "seed={seed} k={k} accept={accept}: server keeps streams of a crashed peer");
                Ok(())
            });
            sim.run().unwrap();
            assert_eq!(*seen.borrow(), Some(0), "k={k} accept={accept}");
        }
    }
    }
}
