//! audit C04 / F3: a peer that is *sending* to a host (download / replication
//! stream, mid-transfer, receiver has read everything so far) when that host
//! is crashed must not hang: its writes have to fail (reset / broken pipe) or
//! it has to be unblocked some other way.
//!
//! Control: if the receiver closes its stream while it stays up, the sender's
//! next writes are answered with a RST and fail with BrokenPipe within a few
//! steps.
//!
//! Unmodified tree: the crashed receiver closes its (fully read) stream with a
//! FIN and takes the stream's flow-control credits with it. The sender never
//! reads, so it never sees the EOF; its data is parked on the link (a crashed
//! host takes no deliveries), so no RST comes back either; after `tcp_capacity`
//! more segments `write` blocks and is never woken again - not while the host
//! is down, and not after it has been bounced.

use std::cell::RefCell;
use std::rc::Rc;
use std::time::Duration;

use tokio::io::{AsyncReadExt, AsyncWriteExt};
use turmoil::net::{TcpListener, TcpStream};
use turmoil::{Builder, Sim};

#[derive(Default, Debug, Clone)]
struct St {
    /// segments the sender wrote
    written: usize,
    /// how the sender's write loop ended
    sender_end: Option<String>,
    received: usize,
}

#[derive(Clone, Copy, PartialEq, Debug)]
enum Mode {
    /// receiver reads forever (until crashed)
    ReadForever,
    /// control: receiver reads for 12ms, then drops the stream and stays up
    CloseAfter12ms,
}

fn build<'a>(st: Rc<RefCell<St>>, mode: Mode) -> Sim<'a> {
    let mut b = Builder::new();
    b.min_message_latency(Duration::from_millis(2))
        .max_message_latency(Duration::from_millis(2))
        .simulation_duration(Duration::from_secs(600));
    let mut sim = b.build();

    let s = st.clone();
    sim.host("sender", move || {
        let st = s.clone();
        async move {
            let l = TcpListener::bind(("0.0.0.0", 9000)).await?;
            loop {
                let (mut stream, _) = l.accept().await?;
                let st = st.clone();
                tokio::task::spawn_local(async move {
                    // push a chunk every millisecond, never read
                    loop {
                        if let Err(e) = stream.write_all(&[0xAB; 32]).await {
                            st.borrow_mut().sender_end = Some(format!("{:?}", e.kind()));
                            return;
                        }
                        st.borrow_mut().written += 1;
                        tokio::time::sleep(Duration::from_millis(1)).await;
                    }
                });
            }
        }
    });

    let s = st.clone();
    let first = Rc::new(RefCell::new(true));
    sim.host("rx", move || {
        let st = s.clone();
        let first = first.clone();
        async move {
            if !std::mem::replace(&mut *first.borrow_mut(), false) {
                // second incarnation: just be up
                std::future::pending::<()>().await;
            }
            let mut c = TcpStream::connect(("sender", 9000)).await?;
            let mut buf = [0u8; 32];
            let start = tokio::time::Instant::now();
            loop {
                c.read_exact(&mut buf).await?;
                st.borrow_mut().received += 1;
                if mode == Mode::CloseAfter12ms && start.elapsed() >= Duration::from_millis(12) {
                    break;
                }
            }
            drop(c);
            std::future::pending::<()>().await;
            Ok(())
        }
    });
    sim.client("keepalive", async {
        tokio::time::sleep(Duration::from_secs(500)).await;
        Ok(())
    });
    sim
}

fn steps(sim: &mut Sim<'_>, n: usize) {
    for _ in 0..n {
        sim.step().unwrap();
    }
}

#[test]
fn control_receiver_closes_while_up() {
    let st: Rc<RefCell<St>> = Default::default();
    let mut sim = build(st.clone(), Mode::CloseAfter12ms);
    steps(&mut sim, 40);
    let s = st.borrow().clone();
    assert_eq!(s.sender_end.as_deref(), Some("BrokenPipe"), "{s:?}");
}

#[test]
fn sender_is_not_left_hanging_by_a_crashed_receiver() {
    let mut hung = vec![];
    for k in [8usize, 9, 10, 13, 20, 35] {
        let st: Rc<RefCell<St>> = Default::default();
        let mut sim = build(st.clone(), Mode::ReadForever);
        steps(&mut sim, k);
        assert!(st.borrow().received > 0, "k={k}: transfer is under way");
        sim.crash("rx");
        // the link is 2ms; give it 1000x that
        steps(&mut sim, 2000);
        let down = st.borrow().clone();
        // a bounce does not help either
        sim.bounce("rx");
        steps(&mut sim, 2000);
        let up = st.borrow().clone();
        if up.sender_end.is_none() {
            hung.push(format!(
                "crash after {k} steps: sender wrote {} segments, blocked in write 2000 steps after the crash \
                 (written {}) and still 2000 steps after the bounce (written {})",
                down.written, down.written, up.written
            ));
            assert_eq!(down.written, up.written);
        }
    }
    assert!(hung.is_empty(), "{hung:#?}");
}
