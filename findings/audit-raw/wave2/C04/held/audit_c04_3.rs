//! audit C04 / harness 3: connector crash, UDP + multicast, regex groups.

use std::cell::RefCell;
use std::net::{IpAddr, Ipv4Addr};
use std::rc::Rc;
use std::time::Duration;

use tokio::io::{AsyncReadExt, AsyncWriteExt};
use turmoil::net::{TcpListener, TcpStream, UdpSocket};
use turmoil::{Builder, Sim};

const PORT: u16 = 9000;
const GROUP: Ipv4Addr = Ipv4Addr::new(239, 1, 1, 1);

fn builder() -> Builder {
    let mut b = Builder::new();
    b.min_message_latency(Duration::from_millis(2))
        .max_message_latency(Duration::from_millis(2))
        .simulation_duration(Duration::from_secs(60));
    b
}

fn steps(sim: &mut Sim<'_>, n: usize) {
    for _ in 0..n {
        sim.step().unwrap();
    }
}

// ---------------------------------------------------------------- N2 ----

#[derive(Default)]
struct N2 {
    handlers_started: usize,
    handlers_done: usize,
    dial_starts: usize,
    pongs: usize,
}

fn n2_build<'a>(sh: &Rc<RefCell<N2>>, slow_accept: bool) -> Sim<'a> {
    let mut sim = builder().build();
    let s = sh.clone();
    sim.host("server", move || {
        let sh = s.clone();
        async move {
            let l = TcpListener::bind(("0.0.0.0", PORT)).await?;
            loop {
                if slow_accept {
                    tokio::time::sleep(Duration::from_millis(4)).await;
                }
                let (mut stream, _) = l.accept().await?;
                let sh = sh.clone();
                sh.borrow_mut().handlers_started += 1;
                tokio::task::spawn_local(async move {
                    let mut buf = [0u8; 16];
                    loop {
                        match stream.read(&mut buf).await {
                            Ok(0) | Err(_) => break,
                            Ok(n) => {
                                if stream.write_all(&buf[..n]).await.is_err() {
                                    break;
                                }
                            }
                        }
                    }
                    sh.borrow_mut().handlers_done += 1;
                });
            }
        }
    });
    let s = sh.clone();
    sim.host("dialer", move || {
        let sh = s.clone();
        async move {
            sh.borrow_mut().dial_starts += 1;
            // three concurrent connections
            let mut set = vec![];
            for _ in 0..3 {
                let sh = sh.clone();
                set.push(tokio::task::spawn_local(async move {
                    let mut c = TcpStream::connect(("server", PORT)).await.unwrap();
                    let mut buf = [0u8; 4];
                    loop {
                        c.write_all(b"ping").await.unwrap();
                        c.read_exact(&mut buf).await.unwrap();
                        sh.borrow_mut().pongs += 1;
                        tokio::time::sleep(Duration::from_millis(1)).await;
                    }
                }));
            }
            for h in set {
                let _ = h.await;
            }
            Ok(())
        }
    });
    // keeps the simulation alive and probes the server's stream table
    sim.client("probe", async move {
        tokio::time::sleep(Duration::from_secs(50)).await;
        Ok(())
    });
    sim
}

fn n2_sweep(slow_accept: bool) {
    for k in 0..40 {
        for down in [0usize, 1, 7] {
            let sh: Rc<RefCell<N2>> = Default::default();
            let mut sim = n2_build(&sh, slow_accept);
            steps(&mut sim, k);
            sim.crash("dialer");
            let pongs = sh.borrow().pongs;
            // 2ms link + slack: every server handler must see EOF / reset
            steps(&mut sim, 12);
            {
                let s = sh.borrow();
                assert_eq!(s.pongs, pongs, "k={k}: dialer ran after crash");
                assert_eq!(
                    s.handlers_started, s.handlers_done,
                    "k={k} slow={slow_accept}: server handlers still blocked on a crashed peer"
                );
            }
            steps(&mut sim, down);
            sim.bounce("dialer");
            steps(&mut sim, 40);
            let s = sh.borrow();
            assert_eq!(s.dial_starts, if k == 0 { 1 } else { 2 }, "k={k}");
            assert!(s.pongs > pongs, "k={k}: new incarnation makes progress");
            assert_eq!(s.handlers_started - s.handlers_done, 3, "k={k}");
        }
    }
}

#[test]
fn connector_crash_fast_accept() {
    n2_sweep(false);
}

#[test]
fn connector_crash_slow_accept_queued_syns() {
    n2_sweep(true);
}

// ---------------------------------------------------------------- N3 ----

#[derive(Default)]
struct N3 {
    /// (incarnation, seq, recv elapsed)
    got: Vec<(usize, u32, Duration)>,
    /// seq -> send sim time
    sent: Vec<(u32, Duration)>,
    rx_starts: usize,
}

fn n3_build<'a>(sh: &Rc<RefCell<N3>>) -> Sim<'a> {
    let mut sim = builder().build();
    let s = sh.clone();
    sim.host("rx", move || {
        let sh = s.clone();
        async move {
            let inc = {
                let mut s = sh.borrow_mut();
                s.rx_starts += 1;
                s.rx_starts
            };
            let sock = Rc::new(UdpSocket::bind((IpAddr::from(Ipv4Addr::UNSPECIFIED), PORT)).await?);
            sock.join_multicast_v4(GROUP, Ipv4Addr::UNSPECIFIED)?;
            let extra = UdpSocket::bind((IpAddr::from(Ipv4Addr::UNSPECIFIED), PORT + 1)).await?;
            extra.join_multicast_v4(GROUP, Ipv4Addr::UNSPECIFIED)?;
            let s2 = sock.clone();
            let sh2 = sh.clone();
            tokio::task::spawn_local(async move {
                let _keep = extra;
                let mut buf = [0u8; 8];
                loop {
                    let (n, _) = s2.recv_from(&mut buf).await.unwrap();
                    assert_eq!(n, 4);
                    let seq = u32::from_le_bytes(buf[..4].try_into().unwrap());
                    sh2.borrow_mut()
                        .got
                        .push((inc, seq, turmoil::sim_elapsed().unwrap()));
                }
            });
            std::future::pending::<()>().await;
            Ok(())
        }
    });
    let s = sh.clone();
    sim.client("tx", async move {
        let sock = UdpSocket::bind((IpAddr::from(Ipv4Addr::UNSPECIFIED), 7000)).await?;
        for seq in 0..120u32 {
            let t = turmoil::sim_elapsed().unwrap();
            s.borrow_mut().sent.push((seq, t));
            if seq % 2 == 0 {
                sock.send_to(&seq.to_le_bytes(), ("rx", PORT)).await?;
            } else {
                sock.send_to(&seq.to_le_bytes(), (IpAddr::from(GROUP), PORT)).await?;
            }
            tokio::time::sleep(Duration::from_millis(1)).await;
        }
        Ok(())
    });
    sim
}

fn inflight_to(sim: &Sim<'_>, host: IpAddr) -> usize {
    let mut n = 0;
    sim.links(|links| {
        for link in links {
            for sent in link {
                if sent.pair().1.ip() == host {
                    n += 1;
                }
            }
        }
    });
    n
}

#[test]
fn udp_and_multicast_receiver_crash() {
    for k in 0..30 {
        for down in [0usize, 1, 2, 3, 9] {
            let sh: Rc<RefCell<N3>> = Default::default();
            let mut sim = n3_build(&sh);
            let rx = sim.lookup("rx");
            steps(&mut sim, k);
            sim.crash("rx");
            let crash_t = sim.elapsed();
            let got_before = sh.borrow().got.len();

            // multicast membership released: while down only the unicast
            // datagrams (even seq) pile up on the link.
            let mut before = inflight_to(&sim, rx);
            for _ in 0..down {
                let sent_before = sh.borrow().sent.len();
                sim.step().unwrap();
                let after = inflight_to(&sim, rx);
                let new: Vec<u32> = sh.borrow().sent[sent_before..].iter().map(|x| x.0).collect();
                let unicast = new.iter().filter(|s| *s % 2 == 0).count();
                assert_eq!(
                    after - before,
                    unicast,
                    "k={k}: datagrams queued for a crashed host {new:?}"
                );
                before = after;
            }
            assert_eq!(sh.borrow().got.len(), got_before, "k={k}: rx ran while down");

            sim.bounce("rx");
            let bounce_t = sim.elapsed();
            sim.run().unwrap();

            let s = sh.borrow();
            let new_inc = if k == 0 { 1 } else { 2 };
            assert_eq!(s.rx_starts, new_inc, "k={k}");
            // no datagram that arrived (send + 2ms) while the host was down may
            // be seen by the new incarnation
            for (inc, seq, at) in &s.got {
                let sent_at = s.sent.iter().find(|x| x.0 == *seq).unwrap().1;
                let arrive = sent_at + Duration::from_millis(2);
                if *inc == new_inc {
                    assert!(
                        arrive >= bounce_t,
                        "k={k} down={down}: seq {seq} sent at {sent_at:?} (arrives {arrive:?}) \
                         while rx was down ({crash_t:?}..{bounce_t:?}) handed to new incarnation at {at:?}"
                    );
                }
            }
            // and the new incarnation does receive both kinds again
            let late: Vec<u32> = s.got.iter().filter(|g| g.0 == new_inc).map(|g| g.1).collect();
            assert!(late.iter().any(|s| s % 2 == 0), "k={k}: unicast after bounce");
            assert!(late.iter().any(|s| s % 2 == 1), "k={k}: multicast after bounce");
        }
    }
}

// ---------------------------------------------------------------- N4 ----

#[cfg(feature = "regex")]
#[test]
fn regex_crash_and_bounce_groups() {
    // three peers in a ring, each listens and dials its successor
    for k in 0..25 {
        let starts: Rc<RefCell<Vec<usize>>> = Rc::new(RefCell::new(vec![0; 4]));
        let pongs: Rc<RefCell<Vec<usize>>> = Rc::new(RefCell::new(vec![0; 4]));
        let mut sim = builder().build();
        for i in 0..4usize {
            let st = starts.clone();
            let pg = pongs.clone();
            sim.host(format!("node-{i}"), move || {
                let st = st.clone();
                let pg = pg.clone();
                async move {
                    st.borrow_mut()[i] += 1;
                    let l = TcpListener::bind(("0.0.0.0", PORT)).await?;
                    tokio::task::spawn_local(async move {
                        loop {
                            let (mut s, _) = l.accept().await.unwrap();
                            tokio::task::spawn_local(async move {
                                let mut buf = [0u8; 4];
                                while let Ok(n) = s.read(&mut buf).await {
                                    if n == 0 || s.write_all(&buf[..n]).await.is_err() {
                                        break;
                                    }
                                }
                            });
                        }
                    });
                    let next = format!("node-{}", (i + 1) % 4);
                    loop {
                        let Ok(mut c) = TcpStream::connect((next.as_str(), PORT)).await else {
                            tokio::time::sleep(Duration::from_millis(2)).await;
                            continue;
                        };
                        let mut buf = [0u8; 4];
                        loop {
                            if c.write_all(b"ping").await.is_err() {
                                break;
                            }
                            if c.read_exact(&mut buf).await.is_err() {
                                break;
                            }
                            pg.borrow_mut()[i] += 1;
                            tokio::time::sleep(Duration::from_millis(1)).await;
                        }
                    }
                }
            });
        }
        sim.client("keepalive", async {
            tokio::time::sleep(Duration::from_secs(50)).await;
            Ok(())
        });
        steps(&mut sim, k);
        sim.crash(regex::Regex::new("node-[12]").unwrap());
        assert!(sim.is_host_running("node-0"));
        assert!(!sim.is_host_running("node-1"));
        assert!(!sim.is_host_running("node-2"));
        assert!(sim.is_host_running("node-3"));
        let p = pongs.borrow().clone();
        steps(&mut sim, 15);
        {
            let q = pongs.borrow();
            assert_eq!(q[1], p[1], "k={k}");
            assert_eq!(q[2], p[2], "k={k}");
            // node-3 -> node-0 is untouched by the crash and keeps going
            assert!(q[3] > p[3] || k < 6, "k={k}: {q:?} {p:?}");
        }
        sim.bounce(regex::Regex::new("node-[12]").unwrap());
        steps(&mut sim, 60);
        let st = starts.borrow();
        let expect = if k == 0 { 1 } else { 2 };
        assert_eq!(*st, vec![1, expect, expect, 1], "k={k}");
        let q = pongs.borrow();
        for i in 0..4 {
            assert!(q[i] > p[i], "k={k}: node-{i} stuck after bounce: {q:?} vs {p:?}");
        }
        // a second cycle on everything at once
        drop(st);
        drop(q);
        sim.bounce(regex::Regex::new("node-.*").unwrap());
        let p = pongs.borrow().clone();
        steps(&mut sim, 60);
        let q = pongs.borrow();
        for i in 0..4 {
            assert!(q[i] > p[i], "k={k}: node-{i} stuck after 2nd bounce: {q:?} vs {p:?}");
        }
    }
}
