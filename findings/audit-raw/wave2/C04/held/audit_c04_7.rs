//! audit C04 / harness 7: queued SYNs at the crash instant are refused
//! promptly; SYNs that reach the host while it is down are refused at bounce,
//! never accepted by the new incarnation.

use std::cell::RefCell;
use std::rc::Rc;
use std::time::Duration;

use turmoil::net::{TcpListener, TcpStream};
use turmoil::{Builder, Sim};

fn steps(sim: &mut Sim<'_>, n: usize) {
    for _ in 0..n {
        sim.step().unwrap();
    }
}

type Log = Rc<RefCell<Vec<(usize, Duration, Duration, Result<(), std::io::ErrorKind>)>>>;

fn build<'a>(log: Log, accepted: Rc<RefCell<Vec<(usize, Duration)>>>, start_at: Vec<u64>) -> Sim<'a> {
    let mut b = Builder::new();
    b.min_message_latency(Duration::from_millis(2))
        .max_message_latency(Duration::from_millis(2));
    let mut sim = b.build();
    let starts = Rc::new(RefCell::new(0usize));
    sim.host("server", move || {
        let accepted = accepted.clone();
        let starts = starts.clone();
        async move {
            *starts.borrow_mut() += 1;
            let inc = *starts.borrow();
            let l = TcpListener::bind(("0.0.0.0", 9000)).await?;
            if inc == 1 {
                // first incarnation: busy, never accepts
                std::future::pending::<()>().await;
            }
            loop {
                let (s, _) = l.accept().await?;
                accepted.borrow_mut().push((inc, turmoil::sim_elapsed().unwrap()));
                drop(s);
            }
        }
    });
    for (i, at) in start_at.into_iter().enumerate() {
        let log = log.clone();
        sim.client(format!("c{i}"), async move {
            tokio::time::sleep(Duration::from_millis(at)).await;
            let t0 = turmoil::sim_elapsed().unwrap();
            let r = TcpStream::connect(("server", 9000)).await;
            let t1 = turmoil::sim_elapsed().unwrap();
            log.borrow_mut().push((i, t0, t1, r.map(|_| ()).map_err(|e| e.kind())));
            Ok(())
        });
    }
    sim
}

#[test]
fn queued_syns_refused_at_crash_and_down_syns_refused_at_bounce() {
    for crash_at in 1..12usize {
        for down in 0..8usize {
            let log: Log = Default::default();
            let accepted = Rc::new(RefCell::new(vec![]));
            // clients start connecting at 0..=20 ms
            let start_at: Vec<u64> = (0..=20).collect();
            let mut sim = build(log.clone(), accepted.clone(), start_at);
            steps(&mut sim, crash_at);
            sim.crash("server");
            let crash_t = sim.elapsed();
            steps(&mut sim, 1);
            // every SYN that was in the backlog at the crash instant (sent at
            // least 2ms + 1 step before) is refused within one step
            for i in 0..=20usize {
                let sent = Duration::from_millis(i as u64);
                // delivered to the server in a step that ended before the crash
                let queued = sent + Duration::from_millis(3) <= crash_t;
                if queued {
                    let l = log.borrow();
                    let e = l.iter().find(|e| e.0 == i);
                    assert!(
                        matches!(e, Some((_, _, _, Err(std::io::ErrorKind::ConnectionRefused)))),
                        "crash_at={crash_at}: client {i} (SYN queued) not refused promptly: {e:?}"
                    );
                }
            }
            steps(&mut sim, down);
            sim.bounce("server");
            let bounce_t = sim.elapsed();
            sim.run().unwrap();
            let l = log.borrow();
            assert_eq!(l.len(), 21);
            for (i, t0, t1, r) in l.iter() {
                let arrive = *t0 + Duration::from_millis(2);
                if arrive < bounce_t {
                    assert_eq!(
                        *r,
                        Err(std::io::ErrorKind::ConnectionRefused),
                        "crash_at={crash_at} down={down}: client {i} connect sent {t0:?} \
                         (arrives {arrive:?}, crash {crash_t:?}, bounce {bounce_t:?}) finished {t1:?}"
                    );
                }
            }
            for (inc, _) in accepted.borrow().iter() {
                assert_eq!(*inc, 2);
            }
        }
    }
}
