//! audit C04 / harness 2: TCP echo workload, crash injected at every step.

use std::cell::RefCell;
use std::rc::Rc;
use std::time::Duration;

use tokio::io::{AsyncReadExt, AsyncWriteExt};
use turmoil::net::{TcpListener, TcpStream};
use turmoil::{Builder, Sim};

const PORT: u16 = 9000;

#[derive(Debug, Clone, PartialEq)]
enum Ev {
    Connecting(u32),
    Connected(u32),
    Refused(u32),
    Pong(u32, u32),
    Broken(u32, String),
}

#[derive(Default)]
struct Shared {
    client: Vec<(Duration, Ev)>,
    by: Vec<(Duration, u32)>,
    guards_made: usize,
    guards_dropped: usize,
    starts: usize,
}

type Sh = Rc<RefCell<Shared>>;

struct Guard(Sh);
impl Guard {
    fn new(sh: &Sh) -> Self {
        sh.borrow_mut().guards_made += 1;
        Guard(sh.clone())
    }
}
impl Drop for Guard {
    fn drop(&mut self) {
        self.0.borrow_mut().guards_dropped += 1;
    }
}

async fn echo(mut s: TcpStream, sh: Sh, slow: bool) {
    let _g = Guard::new(&sh);
    let mut buf = [0u8; 64];
    loop {
        if slow {
            tokio::time::sleep(Duration::from_millis(3)).await;
        }
        match s.read(&mut buf).await {
            Ok(0) | Err(_) => return,
            Ok(n) => {
                if s.write_all(&buf[..n]).await.is_err() {
                    return;
                }
            }
        }
    }
}

#[derive(Clone, Copy)]
struct Cfg {
    /// server handles connections in tokio::spawn tasks (else spawn_local)
    spawn_send: bool,
    /// echo handler sleeps before each read (so data sits unread)
    slow: bool,
    /// the client sends this many bytes per ping
    ping_len: usize,
    /// number of pings the client pipelines before reading
    pipeline: usize,
    /// fixed 2ms latency (bystander trace comparable) or 0..30ms random
    fixed: bool,
}

fn build<'a>(sh: &Sh, cfg: Cfg) -> Sim<'a> {
    let mut b = Builder::new();
    if cfg.fixed {
        b.min_message_latency(Duration::from_millis(2))
            .max_message_latency(Duration::from_millis(2));
    } else {
        b.min_message_latency(Duration::from_millis(0))
            .max_message_latency(Duration::from_millis(30));
    }
    b.simulation_duration(Duration::from_secs(120));
    let mut sim = b.build();

    let s = sh.clone();
    sim.host("server", move || {
        let sh = s.clone();
        async move {
            sh.borrow_mut().starts += 1;
            let _g = Guard::new(&sh);
            let l = TcpListener::bind(("0.0.0.0", PORT)).await?;
            loop {
                let (stream, _) = l.accept().await?;
                let sh = sh.clone();
                if cfg.spawn_send {
                    // TcpStream is Send; Rc is not: wrap in a local task instead
                    tokio::task::spawn_local(echo(stream, sh, cfg.slow));
                } else {
                    tokio::task::spawn_local(echo(stream, sh, cfg.slow));
                }
            }
        }
    });

    // bystanders
    sim.host("by-server", || async {
        let l = TcpListener::bind(("0.0.0.0", PORT)).await?;
        loop {
            let (mut s, _) = l.accept().await?;
            tokio::spawn(async move {
                let mut buf = [0u8; 8];
                while let Ok(n) = s.read(&mut buf).await {
                    if n == 0 || s.write_all(&buf[..n]).await.is_err() {
                        break;
                    }
                }
            });
        }
    });
    let s = sh.clone();
    sim.client("by-client", async move {
        let mut c = TcpStream::connect(("by-server", PORT)).await?;
        let mut buf = [0u8; 4];
        for i in 0..40u32 {
            c.write_all(&i.to_le_bytes()).await?;
            c.read_exact(&mut buf).await?;
            assert_eq!(buf, i.to_le_bytes());
            s.borrow_mut().by.push((turmoil::elapsed(), i));
            tokio::time::sleep(Duration::from_millis(1)).await;
        }
        Ok(())
    });

    let s = sh.clone();
    sim.client("client", async move {
        let log = |e: Ev| s.borrow_mut().client.push((turmoil::elapsed(), e));
        let mut conn = 0u32;
        let mut total = 0u32;
        'outer: loop {
            conn += 1;
            log(Ev::Connecting(conn));
            let mut c = match TcpStream::connect(("server", PORT)).await {
                Ok(c) => c,
                Err(_) => {
                    log(Ev::Refused(conn));
                    tokio::time::sleep(Duration::from_millis(3)).await;
                    continue;
                }
            };
            log(Ev::Connected(conn));
            let ping = vec![7u8; cfg.ping_len];
            let mut buf = vec![0u8; cfg.ping_len];
            loop {
                for _ in 0..cfg.pipeline {
                    if let Err(e) = c.write_all(&ping).await {
                        log(Ev::Broken(conn, format!("write {e}")));
                        continue 'outer;
                    }
                }
                for _ in 0..cfg.pipeline {
                    match c.read_exact(&mut buf).await {
                        Ok(_) => {
                            total += 1;
                            log(Ev::Pong(conn, total));
                        }
                        Err(e) => {
                            log(Ev::Broken(conn, format!("read {e}")));
                            continue 'outer;
                        }
                    }
                }
                if total >= 200 {
                    return Ok(());
                }
                tokio::time::sleep(Duration::from_millis(1)).await;
            }
        }
    });
    sim
}

fn steps(sim: &mut Sim<'_>, n: usize) {
    for _ in 0..n {
        sim.step().unwrap();
    }
}

fn run_case(cfg: Cfg, k: usize, down: Option<usize>, baseline_by: &[(Duration, u32)]) {
    let sh: Sh = Default::default();
    let mut sim = build(&sh, cfg);
    steps(&mut sim, k);

    let before = sh.borrow().client.clone();
    let last_conn_state = before.iter().rev().find_map(|(_, e)| match e {
        Ev::Connected(c) => Some((*c, true)),
        Ev::Broken(c, _) | Ev::Refused(c) => Some((*c, false)),
        _ => None,
    });

    match down {
        Some(_) => sim.crash("server"),
        None => sim.bounce("server"),
    }
    {
        let s = sh.borrow();
        let expect_alive = if down.is_some() { 0 } else { 0 };
        assert_eq!(
            s.guards_made - s.guards_dropped,
            expect_alive,
            "k={k}: guards made {} dropped {} right after crash/bounce",
            s.guards_made,
            s.guards_dropped
        );
    }
    if down.is_some() {
        assert!(!sim.is_host_running("server"));
    }

    // While the host is down: the client must get off an established
    // connection promptly (2ms link + a few steps).
    let down_steps = down.unwrap_or(0);
    let starts_before = sh.borrow().starts;
    steps(&mut sim, down_steps);
    assert_eq!(sh.borrow().starts, starts_before, "k={k}: software ran while down");
    {
        let s = sh.borrow();
        assert_eq!(s.guards_made, s.guards_dropped, "k={k}: server code ran while down");
    }
    let need = if cfg.fixed { 10 } else { 40 };
    if let (Some((c, true)), true) = (last_conn_state, down_steps >= need) {
        let s = sh.borrow();
        let broken = s
            .client
            .iter()
            .any(|(_, e)| matches!(e, Ev::Broken(cc, _) if *cc == c));
        assert!(
            broken,
            "k={k}: client still blocked on established connection {c} {down_steps} steps after the crash: {:?}",
            &s.client[s.client.len().saturating_sub(4)..]
        );
    }

    if down.is_some() {
        sim.bounce("server");
    }
    assert!(sim.is_host_running("server"));
    assert_eq!(sh.borrow().starts, starts_before, "bounce must not poll the software");
    steps(&mut sim, 1);
    assert_eq!(sh.borrow().starts, starts_before + 1, "k={k}: software started exactly once");

    // run to completion
    let mut n = 0;
    loop {
        if sim.step().unwrap_or_else(|e| panic!("k={k} down={down:?}: {e}")) {
            break;
        }
        n += 1;
        assert!(n < 20_000, "k={k}: client never finished: {:?}", {
            let s = sh.borrow();
            s.client[s.client.len().saturating_sub(6)..].to_vec()
        });
    }
    let s = sh.borrow();
    assert_eq!(s.starts, starts_before + 1);
    if cfg.fixed {
        assert_eq!(
            s.by, baseline_by,
            "k={k} down={down:?}: bystander trace changed by crash of another host"
        );
    } else {
        assert_eq!(s.by.len(), 40);
    }
}

fn baseline(cfg: Cfg) -> Vec<(Duration, u32)> {
    let sh: Sh = Default::default();
    let mut sim = build(&sh, cfg);
    sim.run().unwrap();
    let s = sh.borrow();
    s.by.clone()
}

fn sweep(cfg: Cfg) {
    let base = baseline(cfg);
    assert_eq!(base.len(), 40);
    for k in 0..60 {
        for down in [Some(0), Some(1), Some(if cfg.fixed { 12 } else { 45 }), None] {
            run_case(cfg, k, down, &base);
        }
    }
}

#[test]
fn echo_pingpong() {
    sweep(Cfg {
        spawn_send: false,
        slow: false,
        ping_len: 4,
        pipeline: 1,
        fixed: true,
    });
}

#[test]
fn echo_pipelined_slow_server_unread_data() {
    sweep(Cfg {
        spawn_send: false,
        slow: true,
        ping_len: 16,
        pipeline: 4,
        fixed: true,
    });
}

#[test]
fn echo_random_latency() {
    sweep(Cfg {
        spawn_send: false,
        slow: true,
        ping_len: 16,
        pipeline: 3,
        fixed: false,
    });
}
