//! audit C04 / harness 5: bounce count, repeated cycles, clocks.

use std::cell::RefCell;
use std::rc::Rc;
use std::time::Duration;

use turmoil::{Builder, Sim};

fn steps(sim: &mut Sim<'_>, n: usize) {
    for _ in 0..n {
        sim.step().unwrap();
    }
}

#[derive(Default)]
struct St {
    factory: usize,
    polled: usize,
    dropped: usize,
    drop_elapsed: Vec<Duration>,
    ticks: Vec<(usize, Duration, Duration)>,
}

struct G(Rc<RefCell<St>>);
impl Drop for G {
    fn drop(&mut self) {
        let e = turmoil::elapsed();
        let mut s = self.0.borrow_mut();
        s.dropped += 1;
        s.drop_elapsed.push(e);
    }
}

fn build<'a>(st: Rc<RefCell<St>>) -> Sim<'a> {
    let mut sim = Builder::new().build();
    let s = st.clone();
    sim.host("h", move || {
        s.borrow_mut().factory += 1;
        let st = s.clone();
        async move {
            let inc = {
                let mut s = st.borrow_mut();
                s.polled += 1;
                s.polled
            };
            let _g = G(st.clone());
            // everything runs on one thread; lets the guard live in a runtime task
            struct SendG(#[allow(dead_code)] G);
            unsafe impl Send for SendG {}
            let g2 = SendG(G(st.clone()));
            tokio::spawn(async move {
                let _g = g2;
                std::future::pending::<()>().await;
            });
            let start = tokio::time::Instant::now();
            loop {
                st.borrow_mut()
                    .ticks
                    .push((inc, turmoil::elapsed(), start.elapsed()));
                tokio::time::sleep(Duration::from_millis(1)).await;
            }
        }
    });
    // a second, untouched host with its own clock log
    sim.client("keep", async {
        tokio::time::sleep(Duration::from_secs(5)).await;
        Ok(())
    });
    sim
}

#[test]
fn bounce_calls_the_factory_once_per_call_and_cycles_are_clean() {
    let st: Rc<RefCell<St>> = Default::default();
    let mut sim = build(st.clone());
    assert_eq!(st.borrow().factory, 1);
    // crash before the first poll
    sim.crash("h");
    assert!(!sim.is_host_running("h"));
    assert_eq!((st.borrow().polled, st.borrow().dropped), (0, 0));
    sim.crash("h"); // idempotent
    steps(&mut sim, 2);
    assert_eq!(st.borrow().polled, 0);
    sim.bounce("h");
    assert_eq!(st.borrow().factory, 2);
    sim.bounce("h");
    assert_eq!(st.borrow().factory, 3);
    assert_eq!(st.borrow().polled, 0, "bounce itself runs no host code");
    steps(&mut sim, 3);
    assert_eq!(st.borrow().polled, 1);
    let mut expect_dropped = 0;
    for cycle in 0..10 {
        let f = st.borrow().factory;
        let p = st.borrow().polled;
        if cycle % 2 == 0 {
            sim.crash("h");
            expect_dropped += 2;
            assert_eq!(st.borrow().dropped, expect_dropped);
            assert_eq!(
                *st.borrow().drop_elapsed.last().unwrap(),
                sim.elapsed(),
                "destructors see the host clock at the crash instant"
            );
            steps(&mut sim, cycle);
            assert_eq!(st.borrow().polled, p);
            sim.bounce("h");
        } else {
            sim.bounce("h");
            expect_dropped += 2;
            assert_eq!(st.borrow().dropped, expect_dropped);
        }
        assert_eq!(st.borrow().factory, f + 1);
        assert_eq!(st.borrow().polled, p);
        steps(&mut sim, 3);
        assert_eq!(st.borrow().polled, p + 1);
        assert_eq!(st.borrow().factory, f + 1);
    }
    // host clock == sim clock at every tick of every incarnation, tokio clock
    // advances 1ms per tick within an incarnation
    let s = st.borrow();
    let mut last: Option<(usize, Duration, Duration)> = None;
    for t in &s.ticks {
        if let Some(l) = last {
            if l.0 == t.0 {
                assert_eq!(t.1 - l.1, Duration::from_millis(1), "{l:?} {t:?}");
                assert_eq!(t.2 - l.2, Duration::from_millis(1), "{l:?} {t:?}");
            } else {
                assert!(t.1 > l.1);
            }
        }
        last = Some(*t);
    }
}
