//! audit C04 / harness 4: loopback streams + sockets inside the crashed host,
//! stream table / port release observed through the public counters.

use std::cell::RefCell;
use std::net::{IpAddr, Ipv4Addr, Ipv6Addr};
use std::rc::Rc;
use std::time::Duration;

use tokio::io::{AsyncReadExt, AsyncWriteExt};
use turmoil::net::{TcpListener, TcpStream, UdpSocket};
use turmoil::{Builder, IpVersion, Sim};

fn steps(sim: &mut Sim<'_>, n: usize) {
    for _ in 0..n {
        sim.step().unwrap();
    }
}

fn build<'a>(v6: bool, progress: Rc<RefCell<(usize, usize)>>) -> Sim<'a> {
    let mut b = Builder::new();
    b.min_message_latency(Duration::from_millis(1))
        .max_message_latency(Duration::from_millis(3))
        .simulation_duration(Duration::from_secs(60));
    if v6 {
        b.ip_version(IpVersion::V6);
    }
    let mut sim = b.build();
    let lo: IpAddr = if v6 {
        Ipv6Addr::LOCALHOST.into()
    } else {
        Ipv4Addr::LOCALHOST.into()
    };
    let any: IpAddr = if v6 {
        Ipv6Addr::UNSPECIFIED.into()
    } else {
        Ipv4Addr::UNSPECIFIED.into()
    };
    sim.host("node", move || {
        let progress = progress.clone();
        async move {
            // external listener, never accepted from: SYNs queue up
            let _ext = TcpListener::bind((any, 9001)).await?;
            // loopback echo server in a runtime task
            let l = TcpListener::bind((lo, 9000)).await?;
            tokio::spawn(async move {
                loop {
                    let (mut s, _) = l.accept().await.unwrap();
                    tokio::spawn(async move {
                        let mut buf = [0u8; 8];
                        // deliberately slow: leaves unread data around
                        loop {
                            tokio::time::sleep(Duration::from_millis(2)).await;
                            match s.read(&mut buf).await {
                                Ok(0) | Err(_) => break,
                                Ok(n) => {
                                    if s.write_all(&buf[..n]).await.is_err() {
                                        break;
                                    }
                                }
                            }
                        }
                    });
                }
            });
            // loopback udp pair
            let ua = UdpSocket::bind((lo, 7000)).await?;
            let ub = UdpSocket::bind((lo, 7001)).await?;
            let p2 = progress.clone();
            tokio::task::spawn_local(async move {
                let mut buf = [0u8; 4];
                loop {
                    ua.send_to(b"ping", (lo, 7001)).await.unwrap();
                    ub.recv_from(&mut buf).await.unwrap();
                    p2.borrow_mut().1 += 1;
                    tokio::time::sleep(Duration::from_millis(1)).await;
                }
            });
            // loopback tcp clients in the main (local) task
            let mut c1 = TcpStream::connect((lo, 9000)).await?;
            let mut c2 = TcpStream::connect((lo, 9000)).await?;
            let mut buf = [0u8; 4];
            loop {
                c1.write_all(b"ping").await?;
                c2.write_all(b"ping").await?;
                c2.write_all(b"ping").await?;
                c1.read_exact(&mut buf).await?;
                progress.borrow_mut().0 += 1;
            }
        }
    });
    // an outside dialer whose SYNs sit in node's backlog
    sim.host("dialer", || async {
        loop {
            match TcpStream::connect(("node", 9001)).await {
                Ok(_s) => std::future::pending::<()>().await,
                Err(_) => tokio::time::sleep(Duration::from_millis(2)).await,
            }
        }
    });
    sim
}

fn sweep(v6: bool) {
    for k in 0..30 {
        for down in [0usize, 3] {
            let progress = Rc::new(RefCell::new((0usize, 0usize)));
            let mut sim = build(v6, progress.clone());
            steps(&mut sim, k);
            sim.crash("node");
            let open = Rc::new(RefCell::new(None));
            let o = open.clone();
            sim.client(format!("probe-{k}"), async move {
                *o.borrow_mut() = Some(turmoil::established_tcp_stream_count_on("node"));
                Ok(())
            });
            steps(&mut sim, 1);
            assert_eq!(
                *open.borrow(),
                Some(0),
                "k={k} v6={v6}: stream table entries left behind by the crashed host"
            );
            steps(&mut sim, down);
            let before = *progress.borrow();
            sim.bounce("node");
            // the new incarnation must be able to bind everything again and
            // make progress on all three loopback conversations
            for _ in 0..80 {
                sim.step().unwrap_or_else(|e| panic!("k={k} v6={v6}: {e}"));
            }
            let after = *progress.borrow();
            assert!(after.0 > before.0, "k={k} v6={v6}: tcp loopback stuck {before:?} {after:?}");
            assert!(after.1 > before.1, "k={k} v6={v6}: udp loopback stuck {before:?} {after:?}");
            assert!(sim.is_host_running("node"));
        }
    }
}

#[test]
fn loopback_v4() {
    sweep(false);
}

#[test]
fn loopback_v6() {
    sweep(true);
}
