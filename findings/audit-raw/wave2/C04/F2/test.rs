//! audit C04 / observation: the simulated page cache (RAM) of a host survives
//! Sim::crash, although crash discards everything else that lived in RAM
//! (unsynced writes). First read of the new incarnation is a cache hit.
#![cfg(feature = "unstable-fs")]

use std::sync::{Arc, Mutex};
use std::time::Duration;
use turmoil::fs::shim::tokio::fs as tokio_fs;
use turmoil::{Builder, Result};

#[test]
fn page_cache_is_cold_after_crash() -> Result {
    let mut builder = Builder::new();
    builder
        .fs()
        .io_latency()
        .min_latency(Duration::from_millis(10))
        .max_latency(Duration::from_millis(10));
    builder.fs().page_cache();
    let mut sim = builder.build();

    let seen: Arc<Mutex<Vec<Duration>>> = Default::default();
    let s = seen.clone();
    sim.host("db", move || {
        let seen = s.clone();
        async move {
            if tokio_fs::metadata("/data/file").await.is_err() {
                tokio_fs::create_dir("/data").await?;
                turmoil::fs::shim::std::fs::sync_dir("/")?;
                let f = tokio_fs::OpenOptions::new()
                    .read(true)
                    .write(true)
                    .create(true)
                    .open("/data/file")
                    .await?;
                f.write_at(b"hello world", 0).await?;
                f.sync_all().await?;
                turmoil::fs::shim::std::fs::sync_dir("/data")?;
            } else {
                let f = tokio_fs::OpenOptions::new().read(true).open("/data/file").await?;
                let start = tokio::time::Instant::now();
                let mut buf = [0u8; 11];
                f.read_at(&mut buf, 0).await?;
                assert_eq!(&buf, b"hello world");
                seen.lock().unwrap().push(start.elapsed());
            }
            std::future::pending::<()>().await;
            Ok(())
        }
    });
    for _ in 0..200 {
        sim.step()?;
    }
    sim.crash("db");
    sim.bounce("db");
    for _ in 0..200 {
        sim.step()?;
    }
    let seen = seen.lock().unwrap();
    assert_eq!(seen.len(), 1);
    assert!(
        seen[0] >= Duration::from_millis(10),
        "first read after a crash was served from the page cache of the dead incarnation: {:?}",
        seen[0]
    );
    Ok(())
}
