//! Audit C18 - latency configured at the extreme of its range.
//!
//! `IoLatency::{min,max}_latency(Duration::MAX)` is accepted by the builder
//! and by the tokio file shim (the operation simply never finishes). Through
//! the ring the same configuration must give an operation that never
//! completes, stays cancellable, and does not take the simulation down.
#![cfg(feature = "unstable-io_uring")]

use std::os::fd::AsRawFd;
use std::time::Duration;
use turmoil::fs::shim::std::fs::{create_dir_all, OpenOptions};
use turmoil::io_uring::{opcode, types, AsyncFd, IoUring};
use turmoil::{Builder, Result};

struct RingFdHandle(std::os::fd::RawFd);
impl AsRawFd for RingFdHandle {
    fn as_raw_fd(&self) -> std::os::fd::RawFd {
        self.0
    }
}

fn builder() -> Builder {
    let mut b = Builder::new();
    b.fs()
        .io_latency()
        .min_latency(Duration::MAX)
        .max_latency(Duration::MAX);
    b
}

/// Reference: the tokio shim under the same configuration just waits.
#[test]
fn tokio_shim_never_finishes() -> Result {
    let mut sim = builder().build();
    sim.client("c", async {
        create_dir_all("/d")?;
        let f = turmoil::fs::shim::tokio::fs::OpenOptions::new()
            .read(true)
            .write(true)
            .create(true)
            .open("/d/t")
            .await?;
        let r = tokio::time::timeout(Duration::from_secs(5), f.write_at(b"x", 0)).await;
        assert!(r.is_err(), "write must still be waiting for its latency");
        Ok(())
    });
    sim.run()
}

#[test]
fn ring_op_never_completes_and_stays_cancellable() -> Result {
    let mut sim = builder().build();
    sim.client("c", async {
        create_dir_all("/d")?;
        let file = OpenOptions::new()
            .read(true)
            .write(true)
            .create(true)
            .open("/d/f")?;
        let fd = types::Fd(file.as_raw_fd());
        let mut ring = IoUring::new(4).unwrap();
        let afd = AsyncFd::new(RingFdHandle(ring.as_raw_fd())).unwrap();
        let payload = vec![1u8; 8];
        let w = opcode::Write::new(fd, payload.as_ptr(), 8).build().user_data(1);
        unsafe {
            ring.submission().push(&w).unwrap();
        }
        ring.submit().expect("submit must not fail");

        let r = tokio::time::timeout(Duration::from_secs(5), afd.readable()).await;
        assert!(r.is_err(), "ring readable before the latency elapsed");
        {
            let mut cq = ring.completion();
            cq.sync();
            assert!(cq.next().is_none(), "completion visible before its latency");
        }

        let c = opcode::AsyncCancel::new(1).build().user_data(2);
        unsafe {
            ring.submission().push(&c).unwrap();
        }
        ring.submit().unwrap();
        let _ = tokio::time::timeout(Duration::from_secs(1), afd.readable())
            .await
            .expect("cancel completions are immediate")
            .unwrap();
        let mut cq = ring.completion();
        cq.sync();
        let mut got: Vec<(u64, i32)> = cq.by_ref().map(|c| (c.user_data(), c.result())).collect();
        got.sort();
        assert_eq!(got, vec![(1, -125), (2, 0)]);
        Ok(())
    });
    sim.run()
}
