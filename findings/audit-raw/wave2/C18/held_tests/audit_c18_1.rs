//! Audit C18 - model based random test of the simulated io_uring ring.
#![cfg(feature = "unstable-io_uring")]

use rand::rngs::SmallRng;
use rand::{Rng, SeedableRng};
use std::collections::HashMap;
use std::os::fd::AsRawFd;
use std::os::unix::fs::FileExt;
use std::time::Duration;
use tokio::time::Instant;
use turmoil::fs::shim::std::fs::{create_dir_all, File, OpenOptions};
use turmoil::io_uring::{opcode, squeue, types, AsyncFd, IoUring};
use turmoil::Builder;

struct RingFdHandle(std::os::fd::RawFd);
impl AsRawFd for RingFdHandle {
    fn as_raw_fd(&self) -> std::os::fd::RawFd {
        self.0
    }
}

#[derive(Debug, Clone, Copy, PartialEq, Eq)]
enum Kind {
    Read { file: usize, off: u64, len: usize },
    Write { file: usize, off: u64, len: usize },
    Fsync { file: usize },
    Cancel { target: u64 },
    BadFlag,
}

#[derive(Debug, Clone, Copy, PartialEq, Eq)]
enum St {
    Pushed,
    InFlight,
    Cancelled,
    Done,
}

struct Op {
    ring: usize,
    kind: Kind,
    st: St,
    submitted: Option<Instant>,
    buf: Box<[u8]>,
    /// expected result fixed at submit time (cancel / badflag)
    fixed: Option<i32>,
    closed_at_submit: bool,
}

const SENTINEL: u8 = 0xEE;

fn open_rw(path: &str) -> File {
    OpenOptions::new()
        .read(true)
        .write(true)
        .create(true)
        .open(path)
        .unwrap()
}

fn run(seed: u64, fixed_latency: Option<Duration>, page_cache: bool) {
    let mut b = Builder::new();
    b.rng_seed(seed);
    b.simulation_duration(Duration::from_secs(600));
    let (minl, maxl) = match fixed_latency {
        Some(l) => (l, l),
        None => (Duration::from_micros(200), Duration::from_millis(4)),
    };
    b.fs().io_latency().min_latency(minl).max_latency(maxl);
    if page_cache {
        b.fs().page_cache().max_pages(2);
    }
    let mut sim = b.build();
    sim.client("c", async move {
        let mut rng = SmallRng::seed_from_u64(seed ^ 0xabcdef);
        create_dir_all("/d").unwrap();
        let mut files: Vec<Option<File>> = vec![
            Some(open_rw("/d/f0")),
            Some(open_rw("/d/f1")),
            Some(open_rw("/d/f2")),
        ];
        let fds: Vec<i32> = files.iter().map(|f| f.as_ref().unwrap().as_raw_fd()).collect();
        // verification handles, never closed
        let vfiles: Vec<File> = vec![open_rw("/d/f0"), open_rw("/d/f1"), open_rw("/d/f2")];
        let mut model: Vec<Vec<u8>> = vec![vec![], vec![], vec![]];
        let depths = [1u32, 2, 8];
        let mut rings: Vec<IoUring> = vec![
            IoUring::new(depths[rng.random_range(0..3)]).unwrap(),
            IoUring::new(depths[rng.random_range(0..3)]).unwrap(),
        ];
        let afds: Vec<AsyncFd<RingFdHandle>> = rings
            .iter()
            .map(|r| AsyncFd::new(RingFdHandle(r.as_raw_fd())).unwrap())
            .collect();

        let mut ops: HashMap<u64, Op> = HashMap::new();
        let mut pushed: Vec<Vec<u64>> = vec![vec![], vec![]];
        let mut next_ud = 1u64;
        let min_lat = minl;

        // submit helper as closure is awkward with borrows; use macro-ish fns
        fn do_submit(
            r: usize,
            rings: &mut [IoUring],
            pushed: &mut [Vec<u64>],
            ops: &mut HashMap<u64, Op>,
            files: &[Option<File>],
        ) {
            let n = rings[r].submit().unwrap();
            assert_eq!(n, pushed[r].len(), "submit() accepted count");
            let now = Instant::now();
            let batch: Vec<u64> = pushed[r].drain(..).collect();
            for ud in batch {
                let kind = ops[&ud].kind;
                match kind {
                    Kind::Cancel { target } => {
                        let found = match ops.get(&target) {
                            Some(t) => {
                                t.ring == r
                                    && t.st == St::InFlight
                                    && !matches!(t.kind, Kind::Cancel { .. } | Kind::BadFlag)
                            }
                            None => false,
                        };
                        if found {
                            let t = ops.get_mut(&target).unwrap();
                            t.st = St::Cancelled;
                            t.fixed = Some(-125);
                        }
                        let o = ops.get_mut(&ud).unwrap();
                        o.fixed = Some(if found { 0 } else { -2 });
                        o.st = St::InFlight;
                        o.submitted = Some(now);
                    }
                    Kind::BadFlag => {
                        let o = ops.get_mut(&ud).unwrap();
                        o.fixed = Some(-22);
                        o.st = St::InFlight;
                        o.submitted = Some(now);
                    }
                    Kind::Read { file, .. } | Kind::Write { file, .. } | Kind::Fsync { file } => {
                        let o = ops.get_mut(&ud).unwrap();
                        o.st = St::InFlight;
                        o.submitted = Some(now);
                        o.closed_at_submit = files[file].is_none();
                    }
                }
            }
        }

        #[allow(clippy::too_many_arguments)]
        fn reap(
            r: usize,
            limit: usize,
            rings: &mut [IoUring],
            ops: &mut HashMap<u64, Op>,
            model: &mut [Vec<u8>],
            files: &[Option<File>],
            vfiles: &[File],
            min_lat: Duration,
            page_cache: bool,
        ) -> usize {
            let mut cq = rings[r].completion();
            cq.sync();
            let vis = cq.len();
            let mut got = 0;
            while got < limit {
                let Some(cqe) = cq.next() else { break };
                got += 1;
                let ud = cqe.user_data();
                let now = Instant::now();
                let o = ops
                    .get_mut(&ud)
                    .unwrap_or_else(|| panic!("CQE with unknown user_data {ud}"));
                assert_eq!(o.ring, r, "CQE on wrong ring ud={ud}");
                assert!(
                    matches!(o.st, St::InFlight | St::Cancelled),
                    "ud={ud} completed in state {:?} (duplicate or unsubmitted) kind={:?}",
                    o.st,
                    o.kind
                );
                let was = o.st;
                o.st = St::Done;
                if let Some(exp) = o.fixed {
                    assert_eq!(cqe.result(), exp, "ud={ud} kind={:?}", o.kind);
                    if was == St::Cancelled {
                        if let Kind::Read { .. } = o.kind {
                            assert!(o.buf.iter().all(|b| *b == SENTINEL), "cancelled read touched");
                        }
                    }
                    continue;
                }
                // real op executed: latency must have elapsed
                let el = now - o.submitted.unwrap();
                let is_read = matches!(o.kind, Kind::Read { .. });
                let need = if page_cache && is_read {
                    Duration::from_nanos(100)
                } else {
                    min_lat
                };
                assert!(el >= need, "ud={ud} {:?} visible after {el:?} < {need:?}", o.kind);
                match o.kind {
                    Kind::Write { file, off, len } => {
                        if files[file].is_none() {
                            assert_eq!(cqe.result(), -9, "write on closed file");
                        } else {
                            assert_eq!(cqe.result(), len as i32);
                            let end = off as usize + len;
                            if len > 0 {
                                if model[file].len() < end {
                                    model[file].resize(end, 0);
                                }
                                model[file][off as usize..end].copy_from_slice(&o.buf);
                            }
                        }
                        // sync API view equals the model
                        let mut v = vec![0u8; model[file].len() + 8];
                        let n = vfiles[file].read_at(&mut v, 0).unwrap();
                        assert_eq!(&v[..n], &model[file][..], "file content after write ud={ud}");
                    }
                    Kind::Read { file, off, len } => {
                        if files[file].is_none() {
                            assert_eq!(cqe.result(), -9, "read on closed file");
                            assert!(o.buf.iter().all(|b| *b == SENTINEL));
                        } else {
                            let mut v = vec![SENTINEL; len];
                            let n = vfiles[file].read_at(&mut v, off).unwrap();
                            assert_eq!(cqe.result(), n as i32, "read result ud={ud}");
                            assert_eq!(&o.buf[..], &v[..], "read buffer ud={ud}");
                            let m = &model[file];
                            let exp_n = m.len().saturating_sub(off as usize).min(len);
                            assert_eq!(n, exp_n);
                            if exp_n > 0 {
                                assert_eq!(&v[..n], &m[off as usize..off as usize + n]);
                            }
                        }
                    }
                    Kind::Fsync { file } => {
                        if files[file].is_none() {
                            assert_eq!(cqe.result(), -9, "fsync on closed file");
                        } else {
                            assert_eq!(cqe.result(), 0);
                        }
                    }
                    _ => unreachable!(),
                }
            }
            assert!(got <= vis);
            if got < limit {
                assert_eq!(got, vis, "iterator ended before the synced count");
            }
            got
        }

        for _step in 0..400 {
            let a = rng.random_range(0..100);
            let r = rng.random_range(0..2usize);
            if a < 55 {
                // push an op
                let file = rng.random_range(0..3usize);
                let k = rng.random_range(0..100);
                let ud = next_ud;
                next_ud += 1;
                let (kind, buf): (Kind, Box<[u8]>) = if k < 35 {
                    let len = rng.random_range(0..40usize);
                    let off = rng.random_range(0..60u64);
                    let mut v = vec![0u8; len];
                    rng.fill(&mut v[..]);
                    (Kind::Write { file, off, len }, v.into_boxed_slice())
                } else if k < 65 {
                    let len = rng.random_range(1..50usize);
                    let off = rng.random_range(0..70u64);
                    (Kind::Read { file, off, len }, vec![SENTINEL; len].into_boxed_slice())
                } else if k < 75 {
                    (Kind::Fsync { file }, Box::new([]))
                } else if k < 93 {
                    let target = if next_ud > 2 && rng.random_range(0..10) < 9 {
                        let lo = next_ud.saturating_sub(8).max(1);
                        rng.random_range(lo..next_ud)
                    } else {
                        999_999
                    };
                    (Kind::Cancel { target }, Box::new([]))
                } else {
                    (Kind::BadFlag, vec![SENTINEL; 4].into_boxed_slice())
                };
                let mut op = Op {
                    ring: r,
                    kind,
                    st: St::Pushed,
                    submitted: None,
                    buf,
                    fixed: None,
                    closed_at_submit: false,
                };
                let entry = match kind {
                    Kind::Write { file, off, len } => {
                        opcode::Write::new(types::Fd(fds[file]), op.buf.as_ptr(), len as u32)
                            .offset(off)
                            .build()
                    }
                    Kind::Read { file, off, len } => {
                        opcode::Read::new(types::Fd(fds[file]), op.buf.as_mut_ptr(), len as u32)
                            .offset(off)
                            .build()
                    }
                    Kind::Fsync { file } => opcode::Fsync::new(types::Fd(fds[file])).build(),
                    Kind::Cancel { target } => opcode::AsyncCancel::new(target).build(),
                    Kind::BadFlag => {
                        let flags = [
                            squeue::Flags::IO_LINK,
                            squeue::Flags::IO_DRAIN,
                            squeue::Flags::FIXED_FILE,
                            squeue::Flags::BUFFER_SELECT | squeue::Flags::ASYNC,
                        ];
                        opcode::Read::new(types::Fd(fds[file]), op.buf.as_mut_ptr(), 4)
                            .build()
                            .flags(flags[rng.random_range(0..4)])
                    }
                }
                .user_data(ud);
                let full = rings[r].submission().is_full();
                let res = unsafe { rings[r].submission().push(&entry) };
                if full {
                    assert!(res.is_err(), "push on a full queue must fail");
                    do_submit(r, &mut rings, &mut pushed, &mut ops, &files);
                    unsafe { rings[r].submission().push(&entry).expect("push after submit") };
                } else {
                    res.expect("push on non-full queue");
                }
                pushed[r].push(ud);
                ops.insert(ud, op);
            } else if a < 70 {
                do_submit(r, &mut rings, &mut pushed, &mut ops, &files);
            } else if a < 80 {
                let ms = rng.random_range(0..4u64);
                tokio::time::sleep(Duration::from_millis(ms)).await;
            } else if a < 92 {
                let limit = if rng.random_bool(0.5) { usize::MAX } else { rng.random_range(1..3) };
                reap(r, limit, &mut rings, &mut ops, &mut model, &files, &vfiles, min_lat, page_cache);
            } else if a < 97 {
                // readable loop, bounded
                let any_inflight = ops
                    .values()
                    .any(|o| o.ring == r && matches!(o.st, St::InFlight | St::Cancelled));
                if any_inflight {
                    let _g = tokio::time::timeout(Duration::from_secs(5), afds[r].readable())
                        .await
                        .expect("readable must resolve when ops are in flight")
                        .unwrap();
                    let got = reap(r, 1, &mut rings, &mut ops, &mut model, &files, &vfiles, min_lat, page_cache);
                    assert_eq!(got, 1, "readable resolved but no CQE");
                }
            } else if files[2].is_some() && rng.random_bool(0.3) {
                // close file 2
                files[2] = None;
            }
        }

        // final: submit everything and drain everything
        for r in 0..2 {
            do_submit(r, &mut rings, &mut pushed, &mut ops, &files);
        }
        for r in 0..2 {
            loop {
                let outstanding = ops
                    .values()
                    .filter(|o| o.ring == r && matches!(o.st, St::InFlight | St::Cancelled))
                    .count();
                if outstanding == 0 {
                    break;
                }
                let _g = tokio::time::timeout(Duration::from_secs(5), afds[r].readable())
                    .await
                    .unwrap_or_else(|_| panic!("{outstanding} ops never completed on ring {r}"))
                    .unwrap();
                reap(r, usize::MAX, &mut rings, &mut ops, &mut model, &files, &vfiles, min_lat, page_cache);
            }
        }
        tokio::time::sleep(Duration::from_millis(50)).await;
        for r in 0..2 {
            let got = reap(r, usize::MAX, &mut rings, &mut ops, &mut model, &files, &vfiles, min_lat, page_cache);
            assert_eq!(got, 0, "extra completions");
        }
        for (ud, o) in &ops {
            assert_eq!(o.st, St::Done, "ud={ud}");
        }
        if std::env::var("C18_STATS").is_ok() {
            let total = ops.len();
            let cancelled = ops.values().filter(|o| o.fixed == Some(-125)).count();
            let c_ok = ops.values().filter(|o| matches!(o.kind, Kind::Cancel{..}) && o.fixed == Some(0)).count();
            let c_no = ops.values().filter(|o| matches!(o.kind, Kind::Cancel{..}) && o.fixed == Some(-2)).count();
            eprintln!("seed {seed}: ops {total} cancelled {cancelled} cancel_ok {c_ok} cancel_enoent {c_no} closed {} flen {:?}", files[2].is_none(), model.iter().map(|m| m.len()).collect::<Vec<_>>());
        }
        Ok(())
    });
    sim.run().unwrap();
}

#[test]
fn model_random_latency() {
    for seed in 0..150 {
        run(seed, None, false);
    }
}

#[test]
fn model_fixed_latency() {
    for seed in 0..100 {
        run(seed, Some(Duration::from_millis(2)), false);
    }
}

#[test]
fn model_zero_latency() {
    for seed in 0..60 {
        run(seed, Some(Duration::ZERO), false);
    }
}

#[test]
fn model_page_cache() {
    for seed in 0..60 {
        run(seed, None, true);
    }
}
