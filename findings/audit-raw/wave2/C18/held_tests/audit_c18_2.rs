//! Audit C18 - targeted io_uring scenarios (crash, extremes, ticks).
#![cfg(feature = "unstable-io_uring")]

use std::os::fd::AsRawFd;
use std::os::unix::fs::FileExt;
use std::sync::atomic::{AtomicU32, Ordering};
use std::sync::Arc;
use std::time::Duration;
use tokio::sync::Notify;
use tokio::time::Instant;
use turmoil::fs::shim::std::fs::{create_dir_all, sync_dir, File, OpenOptions};
use turmoil::io_uring::{opcode, types, AsyncFd, IoUring};
use turmoil::{Builder, Result};

struct RingFdHandle(std::os::fd::RawFd);
impl AsRawFd for RingFdHandle {
    fn as_raw_fd(&self) -> std::os::fd::RawFd {
        self.0
    }
}

fn open_rw(path: &str) -> File {
    OpenOptions::new()
        .read(true)
        .write(true)
        .create(true)
        .open(path)
        .unwrap()
}

/// mode 0: crash while in flight; 1: crash after maturing, undrained;
/// 2: crash after draining the write but before fsync is drained.
fn crash_case(mode: u32, block_size: Option<u64>) -> Result {
    let mut b = Builder::new();
    b.fs()
        .io_latency()
        .min_latency(Duration::from_millis(20))
        .max_latency(Duration::from_millis(20));
    if let Some(bs) = block_size {
        b.fs().block_size(bs);
    }
    let mut sim = b.build();
    let phase = Arc::new(AtomicU32::new(0));
    let notify = Arc::new(Notify::new());
    let (p, n) = (phase.clone(), notify.clone());
    sim.host("server", move || {
        let (phase, notify) = (p.clone(), n.clone());
        async move {
            if phase.load(Ordering::SeqCst) == 0 {
                create_dir_all("/d")?;
                sync_dir("/")?;
                let file = open_rw("/d/f");
                file.write_all_at(b"oldoldoldold", 0)?;
                file.sync_all()?;
                sync_dir("/d")?;
                let fd = types::Fd(file.as_raw_fd());
                let mut ring = IoUring::new(4).unwrap();
                let payload = vec![b'N'; 12];
                let w = opcode::Write::new(fd, payload.as_ptr(), 12).build().user_data(1);
                let f = opcode::Fsync::new(fd).build().user_data(2);
                unsafe {
                    ring.submission().push(&w).unwrap();
                }
                ring.submit().unwrap();
                if mode == 1 {
                    tokio::time::sleep(Duration::from_millis(100)).await;
                    unsafe {
                        ring.submission().push(&f).unwrap();
                    }
                    ring.submit().unwrap();
                    tokio::time::sleep(Duration::from_millis(100)).await;
                }
                if mode == 2 {
                    tokio::time::sleep(Duration::from_millis(30)).await;
                    let mut cq = ring.completion();
                    cq.sync();
                    let c = cq.next().expect("write cqe");
                    assert_eq!(c.result(), 12);
                    drop(cq);
                    unsafe {
                        ring.submission().push(&f).unwrap();
                    }
                    ring.submit().unwrap();
                    // fsync in flight at crash
                }
                notify.notify_one();
                std::future::pending::<()>().await;
                drop((ring, payload, file));
            } else {
                let file = OpenOptions::new().read(true).open("/d/f")?;
                let mut buf = [0u8; 12];
                let n = file.read_at(&mut buf, 0)?;
                if block_size.is_none() || mode != 2 {
                    assert_eq!(&buf[..n], b"oldoldoldold", "mode {mode}");
                }
                let mut ring = IoUring::new(4).unwrap();
                tokio::time::sleep(Duration::from_millis(300)).await;
                let mut cq = ring.completion();
                cq.sync();
                assert!(cq.next().is_none(), "stale CQE after bounce");
                drop(cq);
                let n = file.read_at(&mut buf, 0)?;
                if block_size.is_none() || mode != 2 {
                    assert_eq!(&buf[..n], b"oldoldoldold", "late effect, mode {mode}");
                }
                notify.notify_one();
                std::future::pending::<()>().await;
            }
            Ok(())
        }
    });
    let n1 = notify.clone();
    sim.client("p0", async move {
        n1.notified().await;
        Ok(())
    });
    sim.run()?;
    sim.crash("server");
    phase.store(1, Ordering::SeqCst);
    // let some time pass while crashed
    for _ in 0..50 {
        sim.step()?;
    }
    sim.bounce("server");
    let n2 = notify.clone();
    sim.client("p1", async move {
        n2.notified().await;
        Ok(())
    });
    sim.run()
}

#[test]
fn crash_inflight() -> Result {
    crash_case(0, None)?;
    crash_case(0, Some(4))
}
#[test]
fn crash_matured_undrained() -> Result {
    crash_case(1, None)?;
    crash_case(1, Some(4))
}
#[test]
fn crash_drained_unsynced() -> Result {
    crash_case(2, None)?;
    crash_case(2, Some(4))
}

/// Large (but representable) latency together with AsyncFd::readable.
#[test]
fn latency_huge_readable() -> Result {
    let mut b = Builder::new();
    let big = Duration::from_secs(3600 * 24 * 365 * 1000);
    b.fs().io_latency().min_latency(big).max_latency(big);
    let mut sim = b.build();
    sim.client("c", async {
        create_dir_all("/d")?;
        let file = open_rw("/d/f");
        let fd = types::Fd(file.as_raw_fd());
        let mut ring = IoUring::new(4).unwrap();
        let afd = AsyncFd::new(RingFdHandle(ring.as_raw_fd())).unwrap();
        let payload = vec![1u8; 8];
        let w = opcode::Write::new(fd, payload.as_ptr(), 8).build().user_data(1);
        unsafe {
            ring.submission().push(&w).unwrap();
        }
        ring.submit().unwrap();
        let r = tokio::time::timeout(Duration::from_secs(2), afd.readable()).await;
        assert!(r.is_err(), "must still be waiting");
        Ok(())
    });
    sim.run()
}

/// Tick larger than the latency: submitted at the step start, the op must
/// not be visible before its latency.
#[test]
fn big_tick_no_early_completion() -> Result {
    for tick_ms in [3u64, 10, 25] {
        let mut b = Builder::new();
        b.tick_duration(Duration::from_millis(tick_ms));
        b.fs()
            .io_latency()
            .min_latency(Duration::from_millis(7))
            .max_latency(Duration::from_millis(7));
        let mut sim = b.build();
        sim.client("c", async move {
            create_dir_all("/d")?;
            let file = open_rw("/d/f");
            let fd = types::Fd(file.as_raw_fd());
            let mut ring = IoUring::new(4).unwrap();
            let afd = AsyncFd::new(RingFdHandle(ring.as_raw_fd())).unwrap();
            for i in 0..5u64 {
                let payload = vec![1u8; 8];
                let w = opcode::Write::new(fd, payload.as_ptr(), 8).build().user_data(i);
                unsafe {
                    ring.submission().push(&w).unwrap();
                }
                let t0 = Instant::now();
                let e0 = turmoil::elapsed();
                ring.submit().unwrap();
                let _ = afd.readable().await.unwrap();
                let mut cq = ring.completion();
                cq.sync();
                let c = cq.next().expect("cqe");
                assert_eq!(c.user_data(), i);
                assert!(
                    t0.elapsed() >= Duration::from_millis(7),
                    "tick {tick_ms}: tokio elapsed {:?}",
                    t0.elapsed()
                );
                assert!(
                    turmoil::elapsed() - e0 >= Duration::from_millis(7),
                    "tick {tick_ms}: virtual elapsed {:?}",
                    turmoil::elapsed() - e0
                );
            }
            Ok(())
        });
        sim.run()?;
    }
    Ok(())
}
