//! Audit C18 - further hypotheses (fault knobs, fd reuse, duplicates, depth).
#![cfg(feature = "unstable-io_uring")]

use std::os::fd::AsRawFd;
use std::os::unix::fs::FileExt;
use std::time::Duration;
use turmoil::fs::shim::std::fs::{create_dir_all, File, OpenOptions};
use turmoil::io_uring::{cqueue, opcode, types, AsyncFd, IoUring};
use turmoil::{Builder, Result};

struct RingFdHandle(std::os::fd::RawFd);
impl AsRawFd for RingFdHandle {
    fn as_raw_fd(&self) -> std::os::fd::RawFd {
        self.0
    }
}

fn open_rw(path: &str) -> File {
    OpenOptions::new()
        .read(true)
        .write(true)
        .create(true)
        .open(path)
        .unwrap()
}

fn lat(b: &mut Builder, ms: u64) {
    b.fs()
        .io_latency()
        .min_latency(Duration::from_millis(ms))
        .max_latency(Duration::from_millis(ms));
}

async fn drain_n(ring: &mut IoUring, n: usize) -> Vec<cqueue::Entry> {
    let afd = AsyncFd::new(RingFdHandle(ring.as_raw_fd())).unwrap();
    let mut out = vec![];
    while out.len() < n {
        {
            let mut cq = ring.completion();
            cq.sync();
            out.extend(cq.by_ref());
        }
        if out.len() < n {
            let _ = tokio::time::timeout(Duration::from_secs(10), afd.readable())
                .await
                .expect("completions outstanding")
                .unwrap();
        }
    }
    // nothing more shows up later
    tokio::time::sleep(Duration::from_millis(50)).await;
    let mut cq = ring.completion();
    cq.sync();
    assert!(cq.next().is_none(), "extra completion");
    out
}

/// An op on a closed fd must not land in a file opened afterwards.
#[test]
fn closed_fd_is_not_reused_by_a_later_open() -> Result {
    let mut b = Builder::new();
    lat(&mut b, 5);
    let mut sim = b.build();
    sim.client("c", async {
        create_dir_all("/d")?;
        let a = open_rw("/d/a");
        let fd = a.as_raw_fd();
        let mut ring = IoUring::new(4).unwrap();
        let payload = *b"AAAA";
        let w = opcode::Write::new(types::Fd(fd), payload.as_ptr(), 4)
            .build()
            .user_data(1);
        unsafe { ring.submission().push(&w).unwrap() };
        ring.submit().unwrap();
        drop(a);
        let bfile = open_rw("/d/b");
        assert_ne!(bfile.as_raw_fd(), fd);
        let c = drain_n(&mut ring, 1).await;
        assert_eq!(c[0].result(), -9);
        let mut buf = [0u8; 8];
        assert_eq!(bfile.read_at(&mut buf, 0)?, 0);
        Ok(())
    });
    sim.run()
}

/// Two in-flight ops share a user_data; one cancel cancels exactly one.
#[test]
fn duplicate_user_data_cancel_hits_one() -> Result {
    let mut b = Builder::new();
    lat(&mut b, 5);
    let mut sim = b.build();
    sim.client("c", async {
        create_dir_all("/d")?;
        let a = open_rw("/d/a");
        a.write_all_at(b"0123456789", 0)?;
        let fd = types::Fd(a.as_raw_fd());
        let mut ring = IoUring::new(8).unwrap();
        let mut b1 = [0u8; 4];
        let mut b2 = [0u8; 4];
        let r1 = opcode::Read::new(fd, b1.as_mut_ptr(), 4).build().user_data(5);
        let r2 = opcode::Read::new(fd, b2.as_mut_ptr(), 4)
            .offset(4)
            .build()
            .user_data(5);
        let c = opcode::AsyncCancel::new(5).build().user_data(6);
        unsafe {
            ring.submission().push(&r1).unwrap();
            ring.submission().push(&r2).unwrap();
            ring.submission().push(&c).unwrap();
        }
        assert_eq!(ring.submit().unwrap(), 3);
        let cs = drain_n(&mut ring, 3).await;
        let mut res: Vec<(u64, i32)> = cs.iter().map(|c| (c.user_data(), c.result())).collect();
        res.sort();
        assert_eq!(res, vec![(5, -125), (5, 4), (6, 0)]);
        // exactly one buffer was filled
        let filled = [&b1, &b2].iter().filter(|b| **b != &[0u8; 4]).count();
        assert_eq!(filled, 1);
        Ok(())
    });
    sim.run()
}

/// A cancel whose user_data equals its target's.
#[test]
fn cancel_with_same_user_data_as_target() -> Result {
    let mut b = Builder::new();
    lat(&mut b, 5);
    let mut sim = b.build();
    sim.client("c", async {
        create_dir_all("/d")?;
        let a = open_rw("/d/a");
        let fd = types::Fd(a.as_raw_fd());
        let mut ring = IoUring::new(8).unwrap();
        let p = *b"zz";
        let w = opcode::Write::new(fd, p.as_ptr(), 2).build().user_data(9);
        let c = opcode::AsyncCancel::new(9).build().user_data(9);
        unsafe {
            ring.submission().push(&w).unwrap();
            ring.submission().push(&c).unwrap();
        }
        ring.submit().unwrap();
        let cs = drain_n(&mut ring, 2).await;
        let mut res: Vec<(u64, i32)> = cs.iter().map(|c| (c.user_data(), c.result())).collect();
        res.sort();
        assert_eq!(res, vec![(9, -125), (9, 0)]);
        let mut buf = [0u8; 4];
        assert_eq!(a.read_at(&mut buf, 0)?, 0, "cancelled write has no effect");
        Ok(())
    });
    sim.run()
}

/// io_error_probability = 1: one completion each, -EIO, no effect, buffer untouched.
#[test]
fn io_error_everywhere() -> Result {
    let mut b = Builder::new();
    lat(&mut b, 2);
    b.fs().io_error_probability(1.0);
    let mut sim = b.build();
    sim.client("c", async {
        create_dir_all("/d")?;
        let a = open_rw("/d/a");
        let fd = types::Fd(a.as_raw_fd());
        let mut ring = IoUring::new(8).unwrap();
        let p = *b"zz";
        let mut rb = [7u8; 4];
        let w = opcode::Write::new(fd, p.as_ptr(), 2).build().user_data(1);
        let r = opcode::Read::new(fd, rb.as_mut_ptr(), 4).build().user_data(2);
        let f = opcode::Fsync::new(fd).build().user_data(3);
        unsafe {
            ring.submission().push(&w).unwrap();
            ring.submission().push(&r).unwrap();
            ring.submission().push(&f).unwrap();
        }
        ring.submit().unwrap();
        let cs = drain_n(&mut ring, 3).await;
        let mut res: Vec<(u64, i32)> = cs.iter().map(|c| (c.user_data(), c.result())).collect();
        res.sort();
        assert_eq!(res, vec![(1, -5), (2, -5), (3, -5)]);
        assert_eq!(rb, [7u8; 4]);
        assert_eq!(a.metadata()?.len(), 0);
        Ok(())
    });
    sim.run()
}

/// Capacity: the ring write fails exactly where the synchronous write fails.
#[test]
fn capacity_parity() -> Result {
    let mut b = Builder::new();
    b.fs().capacity(10);
    let mut sim = b.build();
    sim.client("c", async {
        create_dir_all("/d")?;
        let a = open_rw("/d/a");
        let s = open_rw("/d/s");
        let fd = types::Fd(a.as_raw_fd());
        let mut ring = IoUring::new(8).unwrap();
        let p = [1u8; 6];
        // ring: 6 bytes fit, next 6 do not, 4 do.
        for (i, (len, exp)) in [(6u32, 6i32), (6, -28), (4, 4)].into_iter().enumerate() {
            let off = a.metadata()?.len();
            let w = opcode::Write::new(fd, p.as_ptr(), len)
                .offset(off)
                .build()
                .user_data(i as u64);
            unsafe { ring.submission().push(&w).unwrap() };
            ring.submit().unwrap();
            let cs = drain_n(&mut ring, 1).await;
            assert_eq!(cs[0].result(), exp, "write {i}");
        }
        assert_eq!(a.metadata()?.len(), 10);
        // the synchronous API agrees that the disk is full now
        assert!(s.write_at(&p[..1], 0).is_err());
        Ok(())
    });
    sim.run()
}

/// Short reads: result in 1..n, tail zeroed, same as the shim.
#[test]
fn short_read_parity() -> Result {
    let mut b = Builder::new();
    b.fs().short_read_probability(1.0);
    let mut sim = b.build();
    sim.client("c", async {
        create_dir_all("/d")?;
        let a = open_rw("/d/a");
        a.write_all_at(b"abcdefgh", 0)?;
        let fd = types::Fd(a.as_raw_fd());
        let mut ring = IoUring::new(8).unwrap();
        for i in 0..20u64 {
            let mut rb = [9u8; 8];
            let r = opcode::Read::new(fd, rb.as_mut_ptr(), 8).build().user_data(i);
            unsafe { ring.submission().push(&r).unwrap() };
            ring.submit().unwrap();
            let cs = drain_n(&mut ring, 1).await;
            let n = cs[0].result();
            assert!((1..8).contains(&n), "short read {n}");
            assert_eq!(&rb[..n as usize], &b"abcdefgh"[..n as usize]);
            assert!(rb[n as usize..].iter().all(|b| *b == 0));
        }
        // single byte reads are never shortened
        let mut one = [0u8; 1];
        let r = opcode::Read::new(fd, one.as_mut_ptr(), 1).build().user_data(99);
        unsafe { ring.submission().push(&r).unwrap() };
        ring.submit().unwrap();
        let cs = drain_n(&mut ring, 1).await;
        assert_eq!(cs[0].result(), 1);
        Ok(())
    });
    sim.run()
}

/// Depth rounding and full-queue pushes for depths 1..=9.
#[test]
fn depth_and_full_queue() -> Result {
    let mut b = Builder::new();
    lat(&mut b, 1);
    let mut sim = b.build();
    sim.client("c", async {
        create_dir_all("/d")?;
        let a = open_rw("/d/a");
        let fd = types::Fd(a.as_raw_fd());
        for entries in 1u32..=9 {
            let mut ring = IoUring::new(entries).unwrap();
            let cap = ring.submission().capacity();
            assert_eq!(cap as u32, entries.next_power_of_two());
            assert_eq!(ring.params().sq_entries(), cap as u32);
            let mut total = 0u64;
            for _round in 0..3 {
                for _ in 0..cap {
                    let e = opcode::Fsync::new(fd).build().user_data(total);
                    unsafe { ring.submission().push(&e).expect("room") };
                    total += 1;
                }
                let e = opcode::Fsync::new(fd).build().user_data(12345);
                assert!(unsafe { ring.submission().push(&e) }.is_err());
                assert!(ring.submission().is_full());
                assert_eq!(ring.submit().unwrap(), cap);
                assert!(ring.submission().is_empty());
            }
            let cs = drain_n(&mut ring, total as usize).await;
            let mut uds: Vec<u64> = cs.iter().map(|c| c.user_data()).collect();
            uds.sort();
            assert_eq!(uds, (0..total).collect::<Vec<_>>());
        }
        Ok(())
    });
    sim.run()
}

/// Rings on different hosts are independent; random host order.
#[test]
fn multi_host_independent() -> Result {
    let mut b = Builder::new();
    lat(&mut b, 3);
    b.enable_random_order();
    let mut sim = b.build();
    for h in 0..3u64 {
        sim.client(format!("c{h}"), async move {
            create_dir_all("/d")?;
            let a = open_rw("/d/a");
            let fd = types::Fd(a.as_raw_fd());
            let mut ring = IoUring::new(4).unwrap();
            let p = [h as u8 + 1; 4];
            for i in 0..10u64 {
                let w = opcode::Write::new(fd, p.as_ptr(), 4)
                    .offset(i * 4)
                    .build()
                    .user_data(h * 100 + i);
                unsafe { ring.submission().push(&w).unwrap() };
                ring.submit().unwrap();
                let cs = drain_n(&mut ring, 1).await;
                assert_eq!(cs[0].user_data(), h * 100 + i);
                assert_eq!(cs[0].result(), 4);
            }
            let mut all = [0u8; 64];
            let n = a.read_at(&mut all, 0)?;
            assert_eq!(n, 40);
            assert!(all[..40].iter().all(|b| *b == h as u8 + 1));
            Ok(())
        });
    }
    sim.run()
}

/// Ring fsync then crash semantics equal sync_all (through a second handle).
#[test]
fn zero_length_ops() -> Result {
    let mut sim = Builder::new().build();
    sim.client("c", async {
        create_dir_all("/d")?;
        let a = open_rw("/d/a");
        a.write_all_at(b"abc", 0)?;
        let fd = types::Fd(a.as_raw_fd());
        let mut ring = IoUring::new(4).unwrap();
        let mut e: Vec<u8> = Vec::new();
        let r = opcode::Read::new(fd, e.as_mut_ptr(), 0).build().user_data(1);
        let w = opcode::Write::new(fd, e.as_ptr(), 0).offset(10).build().user_data(2);
        unsafe {
            ring.submission().push(&r).unwrap();
            ring.submission().push(&w).unwrap();
        }
        ring.submit().unwrap();
        let cs = drain_n(&mut ring, 2).await;
        assert!(cs.iter().all(|c| c.result() == 0));
        assert_eq!(a.metadata()?.len(), 3);
        Ok(())
    });
    sim.run()
}
