//! Audit C18 - a corrupted read through the ring reports the same
//! FsCorruption event as the same read through the synchronous file API.
#![cfg(all(feature = "unstable-io_uring", feature = "unstable-barriers"))]

use std::os::fd::AsRawFd;
use std::os::unix::fs::FileExt;
use std::time::Duration;
use turmoil::barriers::Barrier;
use turmoil::fs::shim::std::fs::{create_dir_all, OpenOptions};
use turmoil::fs::FsCorruption;
use turmoil::io_uring::{opcode, types, IoUring};
use turmoil::{Builder, Result};

#[test]
fn ring_read_corruption_fires_the_corruption_event() -> Result {
    let mut b = Builder::new();
    b.fs().corruption_probability(1.0);
    let mut sim = b.build();
    sim.client("c", async {
        create_dir_all("/d")?;
        let file = OpenOptions::new()
            .read(true)
            .write(true)
            .create(true)
            .open("/d/f")?;
        let payload = b"the quick brown fox".to_vec();
        file.write_all_at(&payload, 0)?;

        let mut barrier = Barrier::new(|c: &FsCorruption| c.path.ends_with("f"));

        // 1. synchronous API: read is corrupted and the event is reported.
        let mut buf = vec![0u8; payload.len()];
        let n = file.read_at(&mut buf, 0)?;
        assert_eq!(n, payload.len());
        assert_ne!(buf, payload, "sync read must be corrupted at p=1.0");
        let ev = tokio::time::timeout(Duration::from_millis(5), barrier.wait())
            .await
            .expect("sync read reports FsCorruption");
        assert!(ev.is_some());
        drop(ev);

        // 2. the same read through the ring.
        let mut ring = IoUring::new(4).unwrap();
        let mut buf2 = vec![0u8; payload.len()];
        let r = opcode::Read::new(
            types::Fd(file.as_raw_fd()),
            buf2.as_mut_ptr(),
            buf2.len() as u32,
        )
        .build()
        .user_data(1);
        unsafe {
            ring.submission().push(&r).unwrap();
        }
        ring.submit().unwrap();
        let mut cq = ring.completion();
        cq.sync();
        let cqe = cq.next().expect("zero latency: cqe ready");
        assert_eq!(cqe.result(), payload.len() as i32);
        assert_ne!(buf2, payload, "ring read must be corrupted at p=1.0");
        let ev = tokio::time::timeout(Duration::from_millis(5), barrier.wait()).await;
        assert!(
            ev.is_ok(),
            "ring read was silently corrupted but no FsCorruption event was reported"
        );
        Ok(())
    });
    sim.run()
}
