#![cfg(feature = "unstable-io_uring")]
use std::os::fd::AsRawFd;
use std::os::unix::fs::FileExt;
use turmoil::fs::shim::std::fs::{create_dir_all, OpenOptions};
use turmoil::io_uring::{opcode, types, IoUring};
use turmoil::{Builder, Result};

/// aside: page cache without io_latency - FsConfig::page_cache docs say
/// "Without I/O latency, all operations are instant regardless of cache state".
#[test]
fn page_cache_without_latency_is_instant() -> Result {
    let mut b = Builder::new();
    b.fs().page_cache();
    let mut sim = b.build();
    sim.client("c", async {
        create_dir_all("/d")?;
        let a = OpenOptions::new().read(true).write(true).create(true).open("/d/a")?;
        a.write_all_at(&[1u8; 64], 0)?;
        let fd = types::Fd(a.as_raw_fd());
        let mut ring = IoUring::new(4).unwrap();
        for i in 0..2u64 {
            let mut rb = [0u8; 8];
            let r = opcode::Read::new(fd, rb.as_mut_ptr(), 8).build().user_data(i);
            unsafe { ring.submission().push(&r).unwrap() };
            ring.submit().unwrap();
            let mut cq = ring.completion();
            cq.sync();
            let c = cq.next();
            assert!(c.is_some(), "read {i} (cache {}) not instant", if i == 0 { "miss" } else { "hit" });
        }
        Ok(())
    });
    sim.run()
}
