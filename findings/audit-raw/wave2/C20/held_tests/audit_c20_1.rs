//! Audit C20: model-based check of the barriers contract over random
//! interleavings of triggers (several hosts, several tasks), barrier
//! creation / wait / handle drop / barrier drop, host crash and bounce.
#![cfg(feature = "unstable-barriers")]

use std::cell::{Cell, RefCell};
use std::collections::{HashMap, VecDeque};
use std::future::Future;
use std::pin::pin;
use std::rc::Rc;
use std::task::{Context, Poll, Waker};
use std::time::Duration;

use turmoil::barriers::{trigger, trigger_noop, Barrier, Reaction, Triggered};
use turmoil::Builder;

#[derive(Debug, Clone, PartialEq, Eq)]
struct Ev {
    host: usize,
    seq: u64,
    val: u32,
    sync: bool,
}

#[derive(Debug, Clone, Copy, PartialEq, Eq)]
enum Rx {
    Noop,
    Suspend,
    Panic,
}

#[derive(Debug, Clone, Copy)]
struct Cond {
    m: u32,
    r: u32,
}
impl Cond {
    fn matches(&self, v: u32) -> bool {
        v % self.m == self.r
    }
}

#[derive(Debug, Clone)]
enum Log {
    Create(usize, Rx, Cond),
    DropBarrier(usize),
    Pre(Ev),
    Post(u64),
    Panicked(u64),
    Recv(usize, Ev),
    DropHandle(#[allow(dead_code)] usize, u64),
    Step,
    Crash(usize),
}

struct Rng(u64);
impl Rng {
    fn next(&mut self) -> u64 {
        self.0 ^= self.0 << 13;
        self.0 ^= self.0 >> 7;
        self.0 ^= self.0 << 17;
        self.0
    }
    fn below(&mut self, n: u64) -> u64 {
        self.next() % n
    }
}

struct Live {
    id: usize,
    barrier: Barrier<Ev>,
}

struct State {
    log: RefCell<Vec<Log>>,
    rng: RefCell<Rng>,
    seq: Cell<u64>,
    next_bid: Cell<usize>,
    barriers: RefCell<Vec<Live>>,
    handles: RefCell<Vec<(usize, u64, Triggered<Ev>)>>,
    allow_sync_suspend: bool,
}

impl State {
    fn log(&self, l: Log) {
        self.log.borrow_mut().push(l);
    }
    fn r(&self, n: u64) -> u64 {
        self.rng.borrow_mut().below(n)
    }

    /// One random controller operation. Callable from test code between
    /// steps and from tasks running inside hosts.
    fn ctl_op(&self) {
        match self.r(10) {
            0..=2 => {
                if self.barriers.borrow().len() >= 4 {
                    return;
                }
                let rx = match self.r(6) {
                    0..=2 => Rx::Noop,
                    3..=4 => Rx::Suspend,
                    _ => Rx::Panic,
                };
                let m = 1 + self.r(3) as u32;
                let cond = Cond {
                    m,
                    r: self.r(m as u64) as u32,
                };
                let id = self.next_bid.get();
                self.next_bid.set(id + 1);
                let reaction = match rx {
                    Rx::Noop => Reaction::Noop,
                    Rx::Suspend => Reaction::Suspend,
                    Rx::Panic => Reaction::Panic,
                };
                self.log(Log::Create(id, rx, cond));
                let barrier = Barrier::build(reaction, move |e: &Ev| cond.matches(e.val));
                self.barriers.borrow_mut().push(Live { id, barrier });
            }
            3 => {
                let n = self.barriers.borrow().len();
                if n == 0 {
                    return;
                }
                let i = self.r(n as u64) as usize;
                let live = self.barriers.borrow_mut().remove(i);
                self.log(Log::DropBarrier(live.id));
                drop(live);
            }
            4..=6 => {
                // poll wait() on a random barrier
                let n = self.barriers.borrow().len();
                if n == 0 {
                    return;
                }
                let i = self.r(n as u64) as usize;
                self.poll_wait(i);
            }
            _ => {
                let n = self.handles.borrow().len();
                if n == 0 {
                    return;
                }
                let i = self.r(n as u64) as usize;
                let (bid, seq, h) = self.handles.borrow_mut().remove(i);
                self.log(Log::DropHandle(bid, seq));
                drop(h);
            }
        }
    }

    fn poll_wait(&self, i: usize) -> bool {
        let mut barriers = self.barriers.borrow_mut();
        let live = &mut barriers[i];
        let mut cx = Context::from_waker(Waker::noop());
        let got = {
            let fut = pin!(live.barrier.wait());
            match fut.poll(&mut cx) {
                Poll::Ready(Some(t)) => Some(t),
                Poll::Ready(None) => panic!("wait() returned None on a live barrier"),
                Poll::Pending => None,
            }
        };
        match got {
            Some(t) => {
                let ev: Ev = (*t).clone();
                self.log(Log::Recv(live.id, ev.clone()));
                let id = live.id;
                drop(barriers);
                self.handles.borrow_mut().push((id, ev.seq, t));
                true
            }
            None => false,
        }
    }
}

async fn worker(st: Rc<State>, host: usize, rounds: usize) {
    for _ in 0..rounds {
        let ms = st.r(4);
        if ms > 0 {
            tokio::time::sleep(Duration::from_millis(ms)).await;
        }
        if st.r(5) == 0 {
            st.ctl_op();
        }
        let seq = st.seq.get();
        st.seq.set(seq + 1);
        let sync = st.r(4) == 0;
        let ev = Ev {
            host,
            seq,
            val: st.r(6) as u32,
            sync,
        };
        let st2 = st.clone();
        let r = CatchUnwind(Box::pin(async move {
            st2.log(Log::Pre(ev.clone()));
            if ev.sync {
                trigger_noop(ev);
            } else {
                trigger(ev).await;
            }
            st2.log(Log::Post(seq));
        }))
        .await;
        if r.is_err() {
            st.log(Log::Panicked(seq));
        }
    }
}

struct CatchUnwind(std::pin::Pin<Box<dyn Future<Output = ()>>>);
impl Future for CatchUnwind {
    type Output = Result<(), ()>;
    fn poll(mut self: std::pin::Pin<&mut Self>, cx: &mut Context<'_>) -> Poll<Self::Output> {
        let fut = self.0.as_mut();
        match std::panic::catch_unwind(std::panic::AssertUnwindSafe(|| fut.poll(cx))) {
            Ok(Poll::Ready(())) => Poll::Ready(Ok(())),
            Ok(Poll::Pending) => Poll::Pending,
            Err(_) => Poll::Ready(Err(())),
        }
    }
}

#[derive(Debug)]
struct MBarrier {
    id: usize,
    rx: Rx,
    cond: Cond,
    expected: VecDeque<Ev>,
}

#[derive(Debug, Clone, Copy, PartialEq)]
enum Fate {
    Free,            // no barrier / Noop: must post immediately
    Suspended(usize), // by barrier id
    Panic,
    SyncSuspendPanic,
}

/// Replay the log against the statement.
fn check(log: &[Log], seed: u64) {
    let mut live: Vec<MBarrier> = vec![];
    let mut dead: HashMap<usize, MBarrier> = HashMap::new();
    let mut fate: HashMap<u64, (Fate, usize, Ev)> = HashMap::new(); // seq -> fate, log index
    let mut released: HashMap<u64, usize> = HashMap::new(); // seq -> step count at release
    let mut received: HashMap<u64, usize> = HashMap::new(); // seq -> times reported
    let mut done: HashMap<u64, usize> = HashMap::new();
    let mut steps = 0usize;
    let ctx = |i: usize| {
        let lo = i.saturating_sub(12);
        let hi = (i + 4).min(log.len());
        format!("seed {seed} at log[{i}]:\n{:#?}", &log[lo..hi])
    };
    for (i, l) in log.iter().enumerate() {
        match l {
            Log::Create(id, rx, cond) => live.push(MBarrier {
                id: *id,
                rx: *rx,
                cond: *cond,
                expected: VecDeque::new(),
            }),
            Log::DropBarrier(id) => {
                let pos = live.iter().position(|b| b.id == *id).unwrap();
                let b = live.remove(pos);
                // unreported suspended triggers are released by the drop
                for ev in &b.expected {
                    if let Some((Fate::Suspended(_), _, _)) = fate.get(&ev.seq) {
                        released.entry(ev.seq).or_insert(steps);
                    }
                }
                dead.insert(*id, b);
            }
            Log::Pre(ev) => {
                let target = live.iter_mut().find(|b| b.cond.matches(ev.val));
                let f = match target {
                    None => Fate::Free,
                    Some(b) => match (b.rx, ev.sync) {
                        (Rx::Suspend, true) => Fate::SyncSuspendPanic,
                        (rx, _) => {
                            b.expected.push_back(ev.clone());
                            match rx {
                                Rx::Noop => Fate::Free,
                                Rx::Suspend => Fate::Suspended(b.id),
                                Rx::Panic => Fate::Panic,
                            }
                        }
                    },
                };
                fate.insert(ev.seq, (f, i, ev.clone()));
            }
            Log::Post(seq) => {
                let (f, pre_idx, _) = fate.get(seq).unwrap().clone();
                done.insert(*seq, i);
                match f {
                    Fate::Free => assert_eq!(
                        i,
                        pre_idx + 1,
                        "trigger with no Suspend barrier did not return immediately; {}",
                        ctx(i)
                    ),
                    Fate::Suspended(_) => {
                        let at = released.get(seq).unwrap_or_else(|| {
                            panic!("suspended trigger proceeded before release; {}", ctx(i))
                        });
                        assert!(
                            steps <= *at + 1,
                            "released trigger proceeded late (released at step {at}, now {steps}); {}",
                            ctx(i)
                        );
                    }
                    Fate::Panic | Fate::SyncSuspendPanic => {
                        panic!("trigger should have panicked; {}", ctx(i))
                    }
                }
            }
            Log::Panicked(seq) => {
                let (f, _, _) = fate.get(seq).unwrap().clone();
                done.insert(*seq, i);
                assert!(
                    matches!(f, Fate::Panic | Fate::SyncSuspendPanic),
                    "unexpected panic, fate {f:?}; {}",
                    ctx(i)
                );
            }
            Log::Recv(id, ev) => {
                *received.entry(ev.seq).or_insert(0) += 1;
                let b = live
                    .iter_mut()
                    .find(|b| b.id == *id)
                    .unwrap_or_else(|| panic!("recv on dead barrier; {}", ctx(i)));
                let front = b.expected.pop_front();
                assert_eq!(
                    front.as_ref(),
                    Some(ev),
                    "barrier {id} got a report out of order / not expected; {}",
                    ctx(i)
                );
            }
            Log::DropHandle(_, seq) => {
                if let Some((Fate::Suspended(_), _, _)) = fate.get(seq) {
                    released.entry(*seq).or_insert(steps);
                }
            }
            Log::Step => {
                steps += 1;
                // every released trigger of a live host must have proceeded
                // by the end of the step after the one it was released in
                for (seq, at) in &released {
                    if steps >= *at + 2 && !done.contains_key(seq) {
                        let (_, pre, ev) = &fate[seq];
                        if ev.host != usize::MAX {
                            panic!(
                                "released trigger {seq} (pre at {pre}) has not proceeded after {} steps; {}",
                                steps - at,
                                ctx(i)
                            );
                        }
                    }
                }
            }
            Log::Crash(host) => {
                // cancelled: nothing more is expected from those triggers
                for (seq, (_, _, ev)) in fate.iter_mut() {
                    if ev.host == *host && !done.contains_key(seq) {
                        ev.host = usize::MAX;
                    }
                }
            }
        }
    }
    if std::env::var("C20_STATS").is_ok() {
        let cnt = |f: &dyn Fn(&Fate) -> bool| fate.values().filter(|(x, _, _)| f(x)).count();
        eprintln!(
            "seed {seed}: triggers {} free {} susp {} panic {} syncsusp {} recv {} released {} done {}",
            fate.len(),
            cnt(&|x| *x == Fate::Free),
            cnt(&|x| matches!(x, Fate::Suspended(_))),
            cnt(&|x| *x == Fate::Panic),
            cnt(&|x| *x == Fate::SyncSuspendPanic),
            received.len(),
            released.len(),
            done.len()
        );
    }
    for (seq, n) in &received {
        assert_eq!(*n, 1, "trigger {seq} reported {n} times (seed {seed})");
    }
    // after the final drain every live barrier must have been told everything
    for b in &live {
        assert!(
            b.expected.is_empty(),
            "seed {seed}: barrier {} was never told about {:?}",
            b.id,
            b.expected
        );
    }
}

fn run_seed(seed: u64, with_crash: bool) {
    let st = Rc::new(State {
        log: RefCell::new(vec![]),
        rng: RefCell::new(Rng(seed.wrapping_mul(0x9E3779B97F4A7C15) | 1)),
        seq: Cell::new(0),
        next_bid: Cell::new(0),
        barriers: RefCell::new(vec![]),
        handles: RefCell::new(vec![]),
        allow_sync_suspend: true,
    });
    let _ = st.allow_sync_suspend;

    let mut sim = Builder::new()
        .simulation_duration(Duration::from_secs(600))
        .build();
    let names = ["h0", "h1", "h2"];
    for (hi, name) in names.iter().enumerate() {
        let st = st.clone();
        sim.host(*name, move || {
            let st = st.clone();
            async move {
                let a = tokio::task::spawn_local(worker(st.clone(), hi, 12));
                let b = tokio::task::spawn_local(worker(st.clone(), hi, 12));
                let _ = a.await;
                let _ = b.await;
                Ok(())
            }
        });
    }

    for step in 0..200 {
        for _ in 0..st.r(3) {
            st.ctl_op();
        }
        if with_crash && step > 0 && st.r(25) == 0 {
            let h = st.r(3) as usize;
            st.log(Log::Crash(h));
            if st.r(2) == 0 {
                sim.crash(names[h]);
            } else {
                sim.bounce(names[h]);
            }
        }
        sim.step().unwrap();
        st.log(Log::Step);
    }
    // Drain: release everything, receive everything.
    for _ in 0..50 {
        loop {
            let n = st.barriers.borrow().len();
            let mut any = false;
            for i in 0..n {
                while st.poll_wait(i) {
                    any = true;
                }
            }
            if !any {
                break;
            }
        }
        let hs: Vec<_> = st.handles.borrow_mut().drain(..).collect();
        for (bid, seq, h) in hs {
            st.log(Log::DropHandle(bid, seq));
            drop(h);
        }
        sim.step().unwrap();
        st.log(Log::Step);
    }
    let log = st.log.borrow().clone();
    st.barriers.borrow_mut().clear();
    drop(sim);
    check(&log, seed);
}

fn quiet_panics() {
    let prev = std::panic::take_hook();
    std::panic::set_hook(Box::new(move |info| {
        let msg = info.to_string();
        if msg.contains("Injected panic from barrier") || msg.contains("trigger_noop() cannot") {
            return;
        }
        prev(info);
    }));
}

#[test]
fn random_interleavings_no_crash() {
    quiet_panics();
    for seed in 1..=300 {
        run_seed(seed, false);
    }
}

#[test]
fn random_interleavings_with_crash() {
    quiet_panics();
    for seed in 1001..=1300 {
        run_seed(seed, true);
    }
}
