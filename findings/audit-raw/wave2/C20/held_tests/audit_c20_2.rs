//! Audit C20: synchronous triggers from the filesystem corruption hook.
#![cfg(all(
    feature = "unstable-barriers",
    feature = "unstable-fs",
    feature = "unstable-io_uring"
))]

use std::cell::RefCell;
use std::future::Future;
use std::os::fd::AsRawFd;
use std::os::unix::fs::FileExt;
use std::path::PathBuf;
use std::pin::pin;
use std::rc::Rc;
use std::task::{Context, Poll, Waker};

use turmoil::barriers::{Barrier, Reaction, Triggered};
use turmoil::fs::shim::std::fs::{self as sfs, OpenOptions};
use turmoil::fs::shim::tokio::fs as tfs;
use turmoil::fs::FsCorruption;
use turmoil::io_uring::{cqueue, opcode, types, AsyncFd, IoUring};
use turmoil::{Builder, Result};

fn try_wait<T: std::any::Any + Send>(b: &mut Barrier<T>) -> Option<Triggered<T>> {
    let mut cx = Context::from_waker(Waker::noop());
    let fut = pin!(b.wait());
    match fut.poll(&mut cx) {
        Poll::Ready(Some(t)) => Some(t),
        Poll::Ready(None) => panic!("wait() -> None"),
        Poll::Pending => None,
    }
}

fn drain(b: &mut Barrier<FsCorruption>) -> Vec<(PathBuf, u64)> {
    let mut v = vec![];
    while let Some(t) = try_wait(b) {
        assert_eq!(t.len, 1);
        v.push((t.path.clone(), t.offset));
    }
    v
}

const LEN: usize = 64;
fn pattern() -> Vec<u8> {
    (0..LEN as u8).map(|i| i.wrapping_mul(7).wrapping_add(3)).collect()
}

/// Absolute offset of the single flipped byte of a read of `buf` at `off`.
fn flipped(buf: &[u8], off: usize) -> u64 {
    let p = pattern();
    let d: Vec<usize> = (0..buf.len()).filter(|i| buf[*i] != p[off + *i]).collect();
    assert_eq!(d.len(), 1, "exactly one byte must be corrupted: {d:?}");
    (off + d[0]) as u64
}

type Seen = Rc<RefCell<Vec<(PathBuf, u64)>>>;

async fn reader(path: &'static str, seen: Seen) -> Result {
    let file = OpenOptions::new()
        .read(true)
        .write(true)
        .create(true)
        .open(path)?;
    file.write_all_at(&pattern(), 0)?;
    for round in 0..6usize {
        // sync positioned read
        let off = round * 5;
        let mut buf = [0u8; 9];
        let n = file.read_at(&mut buf, off as u64)?;
        seen.borrow_mut()
            .push((path.into(), flipped(&buf[..n], off)));
        tokio::time::sleep(std::time::Duration::from_millis(1)).await;

        // whole-file read
        let all = sfs::read(path)?;
        seen.borrow_mut().push((path.into(), flipped(&all, 0)));

        // async positioned read
        let tf = tfs::File::open(path).await?;
        let mut buf = [0u8; 7];
        let n = tf.read_at(&mut buf, (off + 2) as u64).await?;
        seen.borrow_mut()
            .push((path.into(), flipped(&buf[..n], off + 2)));

        // async cursor read
        use tokio::io::AsyncReadExt;
        let mut tf = tfs::File::open(path).await?;
        let mut buf = [0u8; 11];
        let n = tf.read(&mut buf).await?;
        seen.borrow_mut().push((path.into(), flipped(&buf[..n], 0)));

        // async whole-file
        let all = tfs::read(path).await?;
        seen.borrow_mut().push((path.into(), flipped(&all, 0)));
    }
    Ok(())
}

/// Every injected corruption is reported exactly once, in order, with the
/// offset of the byte that was really flipped; two hosts interleaved.
#[test]
fn corruption_reports_once_in_order() -> Result {
    let mut builder = Builder::new();
    builder.fs().corruption_probability(1.0);
    let mut sim = builder.build();
    let seen: Seen = Rc::new(RefCell::new(vec![]));
    let mut all = Barrier::new(|_: &FsCorruption| true);

    let s = seen.clone();
    sim.client("a", reader("/a.dat", s));
    let s = seen.clone();
    sim.client("b", reader("/b.dat", s));
    sim.run()?;

    let got = drain(&mut all);
    assert_eq!(got.len(), 60);
    assert_eq!(got, *seen.borrow());
    Ok(())
}

/// Overlapping conditions: the earliest-created live barrier gets the
/// event and only that one; after it is dropped the next one does.
#[test]
fn corruption_overlapping_barriers() -> Result {
    let mut builder = Builder::new();
    builder.fs().corruption_probability(1.0);
    let mut sim = builder.build();
    let seen: Seen = Rc::new(RefCell::new(vec![]));
    let mut all = Barrier::new(|_: &FsCorruption| true);
    let mut only_a = Barrier::new(|c: &FsCorruption| c.path == PathBuf::from("/a.dat"));
    let mut never = Barrier::new(|c: &FsCorruption| c.path == PathBuf::from("/zzz"));

    sim.client("a", reader("/a.dat", seen.clone()));
    sim.client("b", reader("/b.dat", seen.clone()));
    for _ in 0..3 {
        sim.step()?;
    }
    let first = drain(&mut all);
    assert!(!first.is_empty());
    assert_eq!(first, *seen.borrow());
    assert!(drain(&mut only_a).is_empty());
    drop(all);
    let mark = seen.borrow().len();
    sim.run()?;
    let rest = drain(&mut only_a);
    let want: Vec<_> = seen.borrow()[mark..]
        .iter()
        .filter(|(p, _)| p == &PathBuf::from("/a.dat"))
        .cloned()
        .collect();
    assert!(!want.is_empty());
    assert_eq!(rest, want);
    assert!(drain(&mut never).is_empty());
    Ok(())
}

struct RingFdHandle(std::os::fd::RawFd);
impl AsRawFd for RingFdHandle {
    fn as_raw_fd(&self) -> std::os::fd::RawFd {
        self.0
    }
}

async fn drain_one(ring: &mut IoUring) -> cqueue::Entry {
    let async_fd = AsyncFd::new(RingFdHandle(<IoUring as AsRawFd>::as_raw_fd(ring))).expect("AsyncFd");
    loop {
        let cqe = {
            let mut cq = ring.completion();
            cq.sync();
            cq.next()
        };
        if let Some(cqe) = cqe {
            return cqe;
        }
        let _ = async_fd.readable().await.expect("readable");
    }
}

/// Ring-driven reads report exactly once with the right offset too.
#[test]
fn ring_corruption_reports_once_in_order() -> Result {
    let mut builder = Builder::new();
    builder.fs().corruption_probability(1.0);
    let mut sim = builder.build();
    let seen: Seen = Rc::new(RefCell::new(vec![]));
    let mut all = Barrier::new(|_: &FsCorruption| true);
    let s = seen.clone();
    sim.client("a", async move {
        let file = OpenOptions::new()
            .read(true)
            .write(true)
            .create(true)
            .open("/r.dat")?;
        file.write_all_at(&pattern(), 0)?;
        let fd = types::Fd(file.as_raw_fd());
        let mut ring = IoUring::new(8).expect("ring");
        for round in 0..5usize {
            let off = round * 7;
            let mut buf = vec![0u8; 10];
            let r = opcode::Read::new(fd, buf.as_mut_ptr(), buf.len() as u32)
                .offset(off as u64)
                .build()
                .user_data(round as u64);
            unsafe { ring.submission().push(&r).expect("push") };
            ring.submit().expect("submit");
            let cqe = drain_one(&mut ring).await;
            assert_eq!(cqe.result(), 10);
            s.borrow_mut().push(("/r.dat".into(), flipped(&buf, off)));
        }
        drop(file);
        Ok(())
    });
    sim.run()?;
    assert_eq!(drain(&mut all), *seen.borrow());
    assert_eq!(seen.borrow().len(), 5);
    Ok(())
}

