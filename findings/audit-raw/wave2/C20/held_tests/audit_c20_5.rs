//! Audit C20: smaller hypotheses that held.
#![cfg(feature = "unstable-barriers")]

use std::cell::RefCell;
use std::future::Future;
use std::pin::pin;
use std::rc::Rc;
use std::task::{Context, Poll, Waker};
use std::time::Duration;

use turmoil::barriers::{trigger, Barrier, Reaction};
use turmoil::{Builder, Result};

#[derive(Debug, Clone, PartialEq)]
struct Ev(u32);

/// wait() awaited inside one host with a real waker, trigger in another
/// host: Suspend holds exactly until the handle is dropped, and the
/// triggering host proceeds within one tick of the release.
#[test]
fn cross_host_wait_and_release() -> Result {
    let mut sim = Builder::new().tick_duration(Duration::from_millis(1)).build();
    let log: Rc<RefCell<Vec<(&'static str, Duration)>>> = Rc::new(RefCell::new(vec![]));

    let mut b = Barrier::build(Reaction::Suspend, |e: &Ev| e.0 == 2);
    let l = log.clone();
    sim.client("waiter", async move {
        let t = b.wait().await.unwrap();
        assert_eq!(*t, Ev(2));
        l.borrow_mut().push(("reported", turmoil::sim_elapsed().unwrap()));
        tokio::time::sleep(Duration::from_millis(20)).await;
        l.borrow_mut().push(("release", turmoil::sim_elapsed().unwrap()));
        drop(t);
        // nothing else is ever reported
        let r = tokio::time::timeout(Duration::from_millis(30), b.wait()).await;
        assert!(r.is_err());
        Ok(())
    });
    let l = log.clone();
    sim.client("trig", async move {
        tokio::time::sleep(Duration::from_millis(3)).await;
        trigger(Ev(1)).await; // no match
        l.borrow_mut().push(("before", turmoil::sim_elapsed().unwrap()));
        trigger(Ev(2)).await;
        l.borrow_mut().push(("after", turmoil::sim_elapsed().unwrap()));
        Ok(())
    });
    sim.run()?;
    let log = log.borrow();
    let at = |k: &str| log.iter().find(|(n, _)| *n == k).unwrap().1;
    let order: Vec<_> = log.iter().map(|(n, _)| *n).collect();
    assert_eq!(order, ["before", "reported", "release", "after"]);
    assert!(at("reported") - at("before") <= Duration::from_millis(1));
    assert!(at("after") - at("release") <= Duration::from_millis(1), "{log:?}");
    Ok(())
}

/// With the cooperative budget of the calling task used up, a trigger that
/// matches a Noop barrier / no barrier still completes in its first poll.
#[tokio::test]
async fn noop_and_unmatched_do_not_yield_with_exhausted_budget() {
    let mut b = Barrier::new(|e: &Ev| e.0 == 1);
    tokio::spawn(async move {
        let (tx, mut rx) = tokio::sync::mpsc::unbounded_channel::<u32>();
        for i in 0..10_000 {
            tx.send(i).unwrap();
        }
        // burn the budget without yielding
        let mut cx = Context::from_waker(Waker::noop());
        while tokio::task::coop::has_budget_remaining() {
            let _ = rx.poll_recv(&mut cx);
        }
        assert!(!tokio::task::coop::has_budget_remaining());
        for v in [1u32, 5] {
            let fut = pin!(trigger(Ev(v)));
            assert!(matches!(fut.poll(&mut cx), Poll::Ready(())), "trigger({v}) yielded");
        }
    })
    .await
    .unwrap();
    let t = b.wait().await.unwrap();
    assert_eq!(*t, Ev(1));
}
