//! Audit C20 observation (outside the quantifier: OS worker threads):
//! corruption injected into a read done on an `FsHandle` worker thread is
//! not reported to any barrier.
#![cfg(all(feature = "unstable-barriers", feature = "unstable-fs"))]
use std::future::Future;
use std::os::unix::fs::FileExt;
use std::pin::pin;
use std::task::{Context, Poll, Waker};
use turmoil::barriers::Barrier;
use turmoil::fs::shim::std::fs::OpenOptions;
use turmoil::fs::{FsCorruption, FsHandle};
use turmoil::{Builder, Result};

#[test]
fn worker_thread_corruption_is_reported() -> Result {
    let mut builder = Builder::new();
    builder.fs().corruption_probability(1.0);
    let mut sim = builder.build();
    let mut b = Barrier::new(|_: &FsCorruption| true);
    sim.client("a", async {
        let file = OpenOptions::new().read(true).write(true).create(true).open("/w.dat")?;
        file.write_all_at(b"0123456789abcdef", 0)?;
        let handle = FsHandle::current();
        std::thread::spawn(move || {
            let _g = handle.enter();
            let mut buf = [0u8; 8];
            file.read_at(&mut buf, 0).unwrap();
            assert_ne!(&buf, b"01234567");
            drop(file);
        })
        .join()
        .unwrap();
        Ok(())
    });
    sim.run()?;
    let mut cx = Context::from_waker(Waker::noop());
    let fut = pin!(b.wait());
    assert!(matches!(fut.poll(&mut cx), Poll::Ready(Some(_))), "corruption not reported");
    Ok(())
}
