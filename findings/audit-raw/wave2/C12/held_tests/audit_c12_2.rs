//! C12 audit, randomized exploration of the connect / accept pairing property.
//!
//! Several connectors on two remote hosts and on the listener's own host
//! (through its address and through loopback) race against a listener that is
//! bound, accepts a few requests at random times, is dropped and re-bound.
//! Connectors are optionally cancelled by a timeout; a controller injects
//! holds / partitions around the handshakes and heals everything before the
//! listener goes away for good.
//!
//! Checked:
//!  * every successful connect is matched by exactly one accepted stream with
//!    mirrored addresses, and no accepted pair shows up twice;
//!  * a connector whose request was accepted ends Ok (or was a cancelled one),
//!    never refused;
//!  * connects only fail with ConnectionRefused;
//!  * no connector hangs once the network is healed and the listener dropped;
//!  * after every stream is dropped no host counts an established stream.
use std::{
    cell::RefCell,
    collections::HashMap,
    io,
    net::{IpAddr, Ipv4Addr, Ipv6Addr, SocketAddr},
    rc::Rc,
    time::Duration,
};

use rand::{rngs::SmallRng, Rng, SeedableRng};
use tokio::{
    io::{AsyncReadExt, AsyncWriteExt},
    time::{sleep, timeout},
};
use turmoil::{
    net::{TcpListener, TcpStream},
    Builder, IpVersion, Result,
};

const PORT: u16 = 1738;
const EPH_START: u16 = 49152;
const SCENARIO_END: Duration = Duration::from_millis(400);
const HEAL_AT: Duration = Duration::from_millis(420);
const LISTENER_GONE_AT: Duration = Duration::from_millis(520);
const LONG: Duration = Duration::from_millis(2000);
const CHECK_AT: Duration = Duration::from_millis(3500);

#[derive(Debug, Clone, PartialEq)]
enum Outcome {
    Pending,
    Ok { local: SocketAddr, peer: SocketAddr },
    Refused,
    OtherErr(io::ErrorKind),
    Cancelled,
    Hung,
}

#[derive(Debug)]
struct Connector {
    host: &'static str,
    /// index of the connect call on its host => ephemeral port
    nth_on_host: u16,
    loopback: bool,
    outcome: Outcome,
}

#[derive(Default, Debug)]
struct Log {
    connectors: Vec<Connector>,
    per_host_calls: HashMap<&'static str, u16>,
    accepted: Vec<(SocketAddr, SocketAddr, Option<u8>)>,
    counts: Vec<(&'static str, usize)>,
}

type Shared = Rc<RefCell<Log>>;

#[derive(Clone, Copy, Debug)]
enum Target {
    Name,
    Loopback,
}

async fn connector(
    log: Shared,
    host: &'static str,
    target: Target,
    v6: bool,
    mut rng: SmallRng,
) {
    sleep(Duration::from_millis(rng.random_range(0..350))).await;

    let use_timeout = rng.random_bool(0.35);
    let patience = Duration::from_millis(rng.random_range(0..40));
    let linger = Duration::from_millis(rng.random_range(0..25));

    let id = {
        let mut l = log.borrow_mut();
        let n = l.per_host_calls.entry(host).or_insert(0);
        let nth = *n;
        *n += 1;
        l.connectors.push(Connector {
            host,
            nth_on_host: nth,
            loopback: matches!(target, Target::Loopback),
            outcome: Outcome::Pending,
        });
        l.connectors.len() - 1
    };

    let dst: SocketAddr = match target {
        Target::Name => (turmoil::lookup("server"), PORT).into(),
        Target::Loopback if v6 => (IpAddr::from(Ipv6Addr::LOCALHOST), PORT).into(),
        Target::Loopback => (IpAddr::from(Ipv4Addr::LOCALHOST), PORT).into(),
    };

    let fut = TcpStream::connect(dst);
    let res = if use_timeout {
        match timeout(patience, fut).await {
            Ok(r) => r,
            Err(_) => {
                log.borrow_mut().connectors[id].outcome = Outcome::Cancelled;
                return;
            }
        }
    } else {
        match timeout(LONG, fut).await {
            Ok(r) => r,
            Err(_) => {
                log.borrow_mut().connectors[id].outcome = Outcome::Hung;
                return;
            }
        }
    };

    match res {
        Ok(mut s) => {
            log.borrow_mut().connectors[id].outcome = Outcome::Ok {
                local: s.local_addr().unwrap(),
                peer: s.peer_addr().unwrap(),
            };
            let _ = s.write_u8(id as u8).await;
            sleep(linger).await;
            drop(s);
        }
        Err(e) if e.kind() == io::ErrorKind::ConnectionRefused => {
            log.borrow_mut().connectors[id].outcome = Outcome::Refused;
        }
        Err(e) => {
            log.borrow_mut().connectors[id].outcome = Outcome::OtherErr(e.kind());
        }
    }
}

fn run_seed(seed: u64) -> std::result::Result<[usize; 5], String> {
    let mut rng = SmallRng::seed_from_u64(seed);

    let v6 = rng.random_bool(0.5);
    let min = [0u64, 1, 3][rng.random_range(0..3)];
    let max = min + [0u64, 5, 20][rng.random_range(0..3)];
    let localhost_bind = rng.random_bool(0.2);
    let fault_mode = rng.random_range(0..4); // 0 none, 1 hold, 2 partition, 3 oneway (connector -> server)

    let tick = [1u64, 1, 4][rng.random_range(0..3)];
    let random_order = rng.random_bool(0.5);
    let mut builder = Builder::new();
    if random_order {
        builder.enable_random_order();
    }
    let mut sim = builder
        .tick_duration(Duration::from_millis(tick))
        .ip_version(if v6 { IpVersion::V6 } else { IpVersion::V4 })
        .min_message_latency(Duration::from_millis(min))
        .max_message_latency(Duration::from_millis(max))
        .simulation_duration(Duration::from_secs(20))
        .rng_seed(seed)
        .build();

    let log: Shared = Rc::new(RefCell::new(Log::default()));

    let n_local = rng.random_range(0..4usize);
    let n_local_lo = rng.random_range(0..4usize);
    let n_a = rng.random_range(1..5usize);
    let n_b = rng.random_range(0..5usize);

    // -- server -----------------------------------------------------------
    {
        let log = log.clone();
        let srv_seed: u64 = rng.random();
        sim.host("server", move || {
            let log = log.clone();
            async move {
                let mut rng = SmallRng::seed_from_u64(srv_seed);

                for _ in 0..n_local {
                    let r = SmallRng::seed_from_u64(rng.random());
                    tokio::task::spawn_local(connector(log.clone(), "server", Target::Name, v6, r));
                }
                for _ in 0..n_local_lo {
                    let r = SmallRng::seed_from_u64(rng.random());
                    tokio::task::spawn_local(connector(
                        log.clone(),
                        "server",
                        Target::Loopback,
                        v6,
                        r,
                    ));
                }

                let bind_ip: IpAddr = match (v6, localhost_bind) {
                    (false, false) => Ipv4Addr::UNSPECIFIED.into(),
                    (false, true) => Ipv4Addr::LOCALHOST.into(),
                    (true, false) => Ipv6Addr::UNSPECIFIED.into(),
                    (true, true) => Ipv6Addr::LOCALHOST.into(),
                };

                'outer: loop {
                    let listener = TcpListener::bind((bind_ip, PORT)).await?;
                    let n = rng.random_range(0..5);
                    for _ in 0..n {
                        sleep(Duration::from_millis(rng.random_range(0..15))).await;
                        if turmoil::elapsed() >= LISTENER_GONE_AT {
                            break 'outer;
                        }
                        let patience = Duration::from_millis(rng.random_range(1..30));
                        if let Ok(res) = timeout(patience, listener.accept()).await {
                            let (mut s, peer) = res?;
                            assert_eq!(peer, s.peer_addr().unwrap());
                            let local = s.local_addr().unwrap();
                            let idx = {
                                let mut l = log.borrow_mut();
                                l.accepted.push((local, peer, None));
                                l.accepted.len() - 1
                            };
                            let linger = Duration::from_millis(rng.random_range(0..25));
                            let log = log.clone();
                            tokio::task::spawn_local(async move {
                                if let Ok(Ok(id)) =
                                    timeout(Duration::from_millis(60), s.read_u8()).await
                                {
                                    log.borrow_mut().accepted[idx].2 = Some(id);
                                }
                                sleep(linger).await;
                                drop(s);
                            });
                        }
                    }
                    drop(listener);
                    if turmoil::elapsed() >= LISTENER_GONE_AT {
                        break;
                    }
                    sleep(Duration::from_millis(rng.random_range(0..10))).await;
                }

                std::future::pending::<()>().await;
                Ok(())
            }
        });
    }

    // -- remote connectors --------------------------------------------------
    for (name, n) in [("a", n_a), ("b", n_b)] {
        let log = log.clone();
        let host_seed: u64 = rng.random();
        sim.client(name, async move {
            let mut rng = SmallRng::seed_from_u64(host_seed);
            let mut tasks = vec![];
            for _ in 0..n {
                let r = SmallRng::seed_from_u64(rng.random());
                tasks.push(tokio::task::spawn_local(connector(
                    log.clone(),
                    name,
                    Target::Name,
                    v6,
                    r,
                )));
            }
            for t in tasks {
                t.await?;
            }
            Ok(())
        });
    }

    // -- fault controller ----------------------------------------------------
    {
        let log = log.clone();
        let ctl_seed: u64 = rng.random();
        sim.client("ctl", async move {
            let mut rng = SmallRng::seed_from_u64(ctl_seed);
            while turmoil::elapsed() < SCENARIO_END {
                sleep(Duration::from_millis(rng.random_range(5..60))).await;
                let who = ["a", "b"][rng.random_range(0..2)];
                match (fault_mode, rng.random_bool(0.5)) {
                    (1, true) => turmoil::hold(who, "server"),
                    (1, false) => turmoil::release(who, "server"),
                    (2, true) => turmoil::partition(who, "server"),
                    (2, false) => turmoil::repair(who, "server"),
                    (3, true) => turmoil::partition_oneway(who, "server"),
                    (3, false) => turmoil::repair_oneway(who, "server"),
                    _ => {}
                }
            }
            // heal
            let now = turmoil::elapsed();
            if now < HEAL_AT {
                sleep(HEAL_AT - now).await;
            }
            for who in ["a", "b"] {
                match fault_mode {
                    1 => turmoil::release(who, "server"),
                    2 => turmoil::repair(who, "server"),
                    3 => turmoil::repair_oneway(who, "server"),
                    _ => {}
                }
            }

            let now = turmoil::elapsed();
            sleep(CHECK_AT - now).await;
            for h in ["server", "a", "b", "ctl"] {
                let n = turmoil::established_tcp_stream_count_on(h);
                log.borrow_mut().counts.push((h, n));
            }
            Ok(())
        });
    }

    sim.run().map_err(|e| format!("seed {seed}: sim error {e}"))?;

    // -- checks ---------------------------------------------------------------
    let log = log.borrow();
    let ctx = || format!("seed {seed} tick={tick} random_order={random_order} v6={v6} lat={min}..{max} lo_bind={localhost_bind} fault={fault_mode}\n{log:#?}");

    let server_ip = sim.lookup("server");
    let ip_of = |h: &str| sim.lookup(h);

    // no duplicate accepted pairs
    for (i, a) in log.accepted.iter().enumerate() {
        for b in &log.accepted[i + 1..] {
            if a.0 == b.0 && a.1 == b.1 {
                return Err(format!("duplicate accepted pair {a:?}\n{}", ctx()));
            }
        }
        if a.0.port() != PORT {
            return Err(format!("accepted local port {a:?}\n{}", ctx()));
        }
    }

    for (id, c) in log.connectors.iter().enumerate() {
        // predicted local address
        let predicted_ip = if c.loopback {
            if v6 {
                IpAddr::from(Ipv6Addr::LOCALHOST)
            } else {
                IpAddr::from(Ipv4Addr::LOCALHOST)
            }
        } else {
            ip_of(c.host)
        };
        let predicted = SocketAddr::new(predicted_ip, EPH_START + c.nth_on_host);
        let matching: Vec<_> = log.accepted.iter().filter(|a| a.1 == predicted).collect();

        match &c.outcome {
            Outcome::Ok { local, peer } => {
                if *local != predicted {
                    return Err(format!(
                        "connector {id}: local {local} != predicted {predicted}\n{}",
                        ctx()
                    ));
                }
                let want_peer_ip = if c.loopback { predicted_ip } else { server_ip };
                if *peer != SocketAddr::new(want_peer_ip, PORT) {
                    return Err(format!("connector {id}: peer {peer}\n{}", ctx()));
                }
                if matching.len() != 1 {
                    return Err(format!(
                        "connector {id} Ok but {} accepted streams\n{}",
                        matching.len(),
                        ctx()
                    ));
                }
                if matching[0].0 != *peer {
                    return Err(format!(
                        "connector {id}: accepted local {} != connector's peer {peer}\n{}",
                        matching[0].0,
                        ctx()
                    ));
                }
                if let Some(got) = matching[0].2 {
                    if got as usize != id {
                        return Err(format!("connector {id}: server read id {got}\n{}", ctx()));
                    }
                }
            }
            Outcome::Refused => {
                if !matching.is_empty() {
                    return Err(format!(
                        "connector {id} refused although it was accepted\n{}",
                        ctx()
                    ));
                }
            }
            Outcome::Cancelled => {
                if matching.len() > 1 {
                    return Err(format!("connector {id} accepted twice\n{}", ctx()));
                }
            }
            Outcome::Hung => return Err(format!("connector {id} hung\n{}", ctx())),
            Outcome::OtherErr(k) => {
                return Err(format!("connector {id} failed with {k:?}\n{}", ctx()))
            }
            Outcome::Pending => return Err(format!("connector {id} never finished\n{}", ctx())),
        }
    }

    // every accepted stream belongs to some connector
    for a in &log.accepted {
        let known = log.connectors.iter().any(|c| {
            a.1.port() == EPH_START + c.nth_on_host
                && (if c.loopback {
                    a.1.ip().is_loopback()
                } else {
                    a.1.ip() == ip_of(c.host)
                })
        });
        if !known {
            return Err(format!("accepted {a:?} has no connector\n{}", ctx()));
        }
    }

    for (h, n) in &log.counts {
        if *n != 0 {
            return Err(format!("host {h} still counts {n} streams\n{}", ctx()));
        }
    }
    if log.counts.len() != 4 {
        return Err(format!("counts missing\n{}", ctx()));
    }

    let n = |f: &dyn Fn(&Outcome) -> bool| log.connectors.iter().filter(|c| f(&c.outcome)).count();
    let cancelled_but_accepted = log
        .connectors
        .iter()
        .filter(|c| c.outcome == Outcome::Cancelled)
        .count();
    let _ = cancelled_but_accepted;
    Ok([
        n(&|o| matches!(o, Outcome::Ok { .. })),
        n(&|o| *o == Outcome::Refused),
        n(&|o| *o == Outcome::Cancelled),
        log.accepted.len(),
        log.accepted.iter().filter(|a| a.2.is_some()).count(),
    ])
}

#[test]
fn random_interleavings() -> Result {
    let mut failures = vec![];
    let mut stats = [0usize; 5];
    for seed in 0..400u64 {
        match run_seed(seed) {
            Ok(c) => {
                for i in 0..5 {
                    stats[i] += c[i];
                }
            }
            Err(e) => {
                failures.push(e);
                if failures.len() >= 3 {
                    break;
                }
            }
        }
    }
    eprintln!("connect ok / refused / cancelled / accepted / accepted-with-id: {stats:?}");
    if !failures.is_empty() {
        panic!("{} failing seeds:\n{}", failures.len(), failures.join("\n----\n"));
    }
    Ok(())
}
