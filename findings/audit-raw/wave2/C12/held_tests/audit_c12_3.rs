//! C12 audit, deterministic scenarios around connect / accept pairing.
use std::{
    cell::RefCell,
    io,
    net::{IpAddr, Ipv4Addr, Ipv6Addr, SocketAddr},
    rc::Rc,
    time::Duration,
};

use tokio::{
    io::{AsyncReadExt, AsyncWriteExt},
    sync::Notify,
    time::{sleep, timeout},
};
use turmoil::{
    net::{TcpListener, TcpStream},
    Builder, IpVersion, Result,
};

const PORT: u16 = 1738;

fn kind<T>(res: &io::Result<T>) -> Option<io::ErrorKind> {
    res.as_ref().err().map(|e| e.kind())
}

async fn bind_any(v6: bool) -> io::Result<TcpListener> {
    if v6 {
        TcpListener::bind((IpAddr::from(Ipv6Addr::UNSPECIFIED), PORT)).await
    } else {
        TcpListener::bind((IpAddr::from(Ipv4Addr::UNSPECIFIED), PORT)).await
    }
}

/// 3a. A connector dropped in the very step in which accept answered it (the
/// SYN-ACK is there, the future is not polled again). The accepted stream must
/// not be left dangling: it is reset, both hosts end with zero streams, and the
/// next connector is paired correctly.
#[test]
fn cancelled_after_answer_remote_and_loopback() -> Result {
    for loopback in [false, true] {
        let mut sim = Builder::new()
            .min_message_latency(Duration::from_millis(1))
            .max_message_latency(Duration::from_millis(1))
            .build();

        let accepted: Rc<RefCell<Vec<(SocketAddr, io::Result<u8>)>>> = Default::default();

        let acc = accepted.clone();
        sim.host("server", move || {
            let acc = acc.clone();
            async move {
                let l = bind_any(false).await?;

                if loopback {
                    tokio::task::spawn_local(connector_3a(true));
                }

                // accept exactly at t = 20 ms
                sleep(Duration::from_millis(20) - turmoil::elapsed()).await;
                loop {
                    let (mut s, peer) = l.accept().await?;
                    let acc = acc.clone();
                    tokio::task::spawn_local(async move {
                        let r = timeout(Duration::from_secs(2), s.read_u8())
                            .await
                            .unwrap_or_else(|_| Err(io::ErrorKind::TimedOut.into()));
                        acc.borrow_mut().push((peer, r));
                    });
                }
            }
        });

        sim.client("client", async move {
            if !loopback {
                connector_3a(false).await;
            } else {
                sleep(Duration::from_millis(100)).await;
            }
            sleep(Duration::from_secs(3)).await;
            assert_eq!(turmoil::established_tcp_stream_count_on("server"), 0);
            assert_eq!(turmoil::established_tcp_stream_count_on("client"), 0);
            Ok(())
        });

        sim.run()?;

        let accepted = accepted.borrow();
        // first: the abandoned one, its stream ends with a reset (not a hang);
        // second: the live one, delivers its byte.
        assert_eq!(accepted.len(), 2, "{accepted:?}");
        let live = accepted.iter().filter(|(_, r)| matches!(r, Ok(7))).count();
        assert_eq!(live, 1, "{accepted:?}");
        let reset = accepted
            .iter()
            .filter(|(_, r)| kind(r) == Some(io::ErrorKind::ConnectionReset))
            .count();
        assert_eq!(reset, 1, "loopback={loopback} {accepted:?}");
    }
    Ok(())
}

async fn connector_3a(loopback: bool) {
    let dst: SocketAddr = if loopback {
        (IpAddr::from(Ipv4Addr::LOCALHOST), PORT).into()
    } else {
        (turmoil::lookup("server"), PORT).into()
    };
    // Abandon the connect exactly when the accept happens (t = 20 ms). The
    // timer branch wins although the SYN-ACK is already there.
    let deadline = Duration::from_millis(20) - turmoil::elapsed();
    tokio::select! {
        biased;
        _ = sleep(deadline) => {}
        r = TcpStream::connect(dst) => { panic!("connect finished first: {r:?}") }
    }
    // second, live connector
    let mut s = TcpStream::connect(dst).await.unwrap();
    s.write_u8(7).await.unwrap();
    sleep(Duration::from_millis(50)).await;
}

/// 3b. Requests from three hosts with different link latencies arrive in an
/// order different from the send order; they are accepted in arrival order, and
/// a connector that gave up in between is skipped.
#[test]
fn accepted_in_arrival_order_across_hosts() -> Result {
    for v6 in [false, true] {
        let mut sim = Builder::new()
            .ip_version(if v6 { IpVersion::V6 } else { IpVersion::V4 })
            .build();

        let order: Rc<RefCell<Vec<SocketAddr>>> = Default::default();
        let go = Rc::new(Notify::new());

        let (o, g) = (order.clone(), go.clone());
        sim.host("server", move || {
            let (o, g) = (o.clone(), g.clone());
            async move {
                let l = bind_any(v6).await?;
                g.notified().await;
                loop {
                    let (s, peer) = l.accept().await?;
                    o.borrow_mut().push(peer);
                    tokio::task::spawn_local(async move {
                        sleep(Duration::from_millis(500)).await;
                        drop(s);
                    });
                }
            }
        });

        // send order a, b, c, d ; arrival order c (5), d (8, gives up), b (10), a (30)
        for (name, start, lat, patience) in [
            ("a", 0u64, 30u64, 1000u64),
            ("b", 2, 8, 1000),
            ("c", 3, 2, 1000),
            ("d", 4, 4, 20),
        ] {
            sim.client(name, async move {
                sleep(Duration::from_millis(start)).await;
                let r = timeout(
                    Duration::from_millis(patience),
                    TcpStream::connect(("server", PORT)),
                )
                .await;
                if name == "d" {
                    assert!(r.is_err(), "d should give up");
                } else {
                    let s = r.expect("hung")?;
                    assert_eq!(s.peer_addr()?, (turmoil::lookup("server"), PORT).into());
                }
                Ok(())
            });
            sim.set_link_latency(name, "server", Duration::from_millis(lat));
        }

        let g = go.clone();
        sim.client("ctl", async move {
            sleep(Duration::from_millis(100)).await;
            g.notify_one();
            Ok(())
        });

        sim.run()?;

        let want: Vec<IpAddr> = ["c", "b", "a"].iter().map(|h| sim.lookup(*h)).collect();
        let got: Vec<IpAddr> = order.borrow().iter().map(|a| a.ip()).collect();
        assert_eq!(got, want, "v6={v6}");
    }
    Ok(())
}

/// 3c. With exactly tcp_capacity - 1 live pending requests, plus any number of
/// abandoned ones, nothing panics and all live ones are accepted in order.
#[test]
fn pending_below_capacity_with_abandoned_requests() -> Result {
    let mut sim = Builder::new()
        .tcp_capacity(4)
        .min_message_latency(Duration::from_millis(1))
        .max_message_latency(Duration::from_millis(1))
        .build();

    let order: Rc<RefCell<Vec<u16>>> = Default::default();
    let o = order.clone();
    sim.host("server", move || {
        let o = o.clone();
        async move {
            let l = bind_any(false).await?;
            sleep(Duration::from_millis(300)).await;
            loop {
                let (s, peer) = l.accept().await?;
                o.borrow_mut().push(peer.port());
                tokio::task::spawn_local(async move {
                    sleep(Duration::from_millis(100)).await;
                    drop(s)
                });
            }
        }
    });

    sim.client("client", async move {
        let mut live = vec![];
        // interleave: dead, live, dead, dead, live, dead, live   (3 live = capacity - 1)
        for is_live in [false, true, false, false, true, false, true] {
            if is_live {
                live.push(tokio::task::spawn_local(TcpStream::connect(("server", PORT))));
                sleep(Duration::from_millis(5)).await;
            } else {
                assert!(timeout(
                    Duration::from_millis(5),
                    TcpStream::connect(("server", PORT))
                )
                .await
                .is_err());
            }
        }
        let mut ports = vec![];
        for t in live {
            let s = t.await??;
            ports.push(s.local_addr()?.port());
        }
        sleep(Duration::from_millis(500)).await;
        assert_eq!(turmoil::established_tcp_stream_count_on("server"), 0);
        assert_eq!(turmoil::established_tcp_stream_count_on("client"), 0);
        assert_eq!(ports.len(), 3);
        Ok(())
    });

    sim.run()?;
    let order = order.borrow();
    assert_eq!(order.len(), 3);
    assert!(order.windows(2).all(|w| w[0] < w[1]), "{order:?}");
    Ok(())
}

/// 3d. Listener dropped with queued requests and re-bound at once: the queued
/// ones are refused, a request still in flight is taken by the new listener.
#[test]
fn drop_and_rebind_with_queue_and_in_flight() -> Result {
    let mut sim = Builder::new().build();
    sim.host("server", || async {
        let l = bind_any(false).await?;
        sleep(Duration::from_millis(10)).await;
        drop(l);
        let l = bind_any(false).await?;
        let (s, _) = l.accept().await?;
        sleep(Duration::from_millis(50)).await;
        drop(s);
        // nobody else must be queued here
        assert!(timeout(Duration::from_millis(200), l.accept()).await.is_err());
        std::future::pending::<()>().await;
        Ok(())
    });
    for (name, lat, want_ok) in [("q1", 2u64, false), ("q2", 5, false), ("fly", 15, true)] {
        sim.client(name, async move {
            let r = timeout(Duration::from_secs(1), TcpStream::connect(("server", PORT)))
                .await
                .expect("hung");
            if want_ok {
                r?;
            } else {
                assert_eq!(kind(&r), Some(io::ErrorKind::ConnectionRefused));
            }
            Ok(())
        });
        sim.set_link_latency(name, "server", Duration::from_millis(lat));
    }
    sim.run()
}

/// 3e. Addresses no host owns are refused at once: literal v4 / v6, a name that
/// only exists in DNS, the unspecified address.
#[test]
fn address_nobody_owns() -> Result {
    for v6 in [false, true] {
        let mut sim = Builder::new()
            .ip_version(if v6 { IpVersion::V6 } else { IpVersion::V4 })
            .build();
        sim.client("client", async move {
            let ghost = turmoil::lookup("ghost");
            let dsts: Vec<SocketAddr> = vec![
                "10.1.2.3:1738".parse().unwrap(),
                "[fe80::dead]:1738".parse().unwrap(),
                (ghost, PORT).into(),
                "0.0.0.0:1738".parse().unwrap(),
                "[::]:1738".parse().unwrap(),
            ];
            for dst in dsts {
                let r = timeout(Duration::from_secs(1), TcpStream::connect(dst))
                    .await
                    .unwrap_or_else(|_| panic!("connect to {dst} hung"));
                assert_eq!(kind(&r), Some(io::ErrorKind::ConnectionRefused), "{dst}");
            }
            let r = timeout(Duration::from_secs(1), TcpStream::connect(("ghost", PORT)))
                .await
                .expect("hung");
            assert_eq!(kind(&r), Some(io::ErrorKind::ConnectionRefused));
            assert_eq!(turmoil::established_tcp_stream_count(), 0);
            Ok(())
        });
        sim.run()?;
    }
    Ok(())
}

/// 3f. Partition / one-way partition / hold put in place while the SYN is in
/// flight or while it waits in the accept queue.
#[test]
fn faults_while_syn_in_flight() -> Result {
    // (fault, expect refused)
    for fault in ["partition", "oneway", "hold_then_partition", "hold_release"] {
        let mut sim = Builder::new()
            .min_message_latency(Duration::from_millis(10))
            .max_message_latency(Duration::from_millis(10))
            .build();
        sim.host("server", || async {
            let l = bind_any(false).await?;
            loop {
                let (s, _) = l.accept().await?;
                drop(s);
            }
        });
        sim.client("client", async move {
            let t = tokio::task::spawn_local(TcpStream::connect(("server", PORT)));
            sleep(Duration::from_millis(3)).await;
            match fault {
                "partition" => turmoil::partition("client", "server"),
                "oneway" => turmoil::partition_oneway("client", "server"),
                "hold_then_partition" => {
                    turmoil::hold("client", "server");
                    sleep(Duration::from_millis(30)).await;
                    turmoil::partition("client", "server");
                }
                "hold_release" => {
                    turmoil::hold("client", "server");
                    sleep(Duration::from_millis(30)).await;
                    turmoil::release("client", "server");
                }
                _ => unreachable!(),
            }
            let r = timeout(Duration::from_secs(1), t)
                .await
                .unwrap_or_else(|_| panic!("{fault}: hung"))?;
            if fault == "hold_release" {
                r?;
            } else {
                assert_eq!(kind(&r), Some(io::ErrorKind::ConnectionRefused), "{fault}");
            }
            sleep(Duration::from_millis(100)).await;
            assert_eq!(turmoil::established_tcp_stream_count(), 0, "{fault}");
            assert_eq!(
                turmoil::established_tcp_stream_count_on("server"),
                0,
                "{fault}"
            );
            Ok(())
        });
        sim.run()?;
    }
    Ok(())
}

/// 3g. Two tasks accept on the same listener concurrently; one of them is
/// cancelled after it was notified. No request is lost or accepted twice.
#[test]
fn concurrent_accepts_one_cancelled() -> Result {
    let mut sim = Builder::new()
        .min_message_latency(Duration::from_millis(1))
        .max_message_latency(Duration::from_millis(1))
        .build();
    let got: Rc<RefCell<Vec<SocketAddr>>> = Default::default();
    let g = got.clone();
    sim.host("server", move || {
        let g = g.clone();
        async move {
            let l = Rc::new(bind_any(false).await?);
            for i in 0..3u64 {
                let (l, g) = (l.clone(), g.clone());
                tokio::task::spawn_local(async move {
                    loop {
                        // task 0 gives up at odd moments
                        let patience = if i == 0 { 7 } else { 10_000 };
                        if let Ok(r) = timeout(Duration::from_millis(patience), l.accept()).await {
                            let (s, peer) = r.unwrap();
                            g.borrow_mut().push(peer);
                            sleep(Duration::from_millis(3)).await;
                            drop(s);
                        }
                    }
                });
            }
            std::future::pending::<()>().await;
            Ok(())
        }
    });
    sim.client("client", async move {
        let mut mine = vec![];
        for i in 0..40u64 {
            let s = timeout(Duration::from_secs(1), TcpStream::connect(("server", PORT)))
                .await
                .expect("hung")?;
            mine.push(s.local_addr()?);
            if i % 3 == 0 {
                sleep(Duration::from_millis(i % 7)).await;
            }
        }
        sleep(Duration::from_millis(100)).await;
        assert_eq!(turmoil::established_tcp_stream_count_on("server"), 0);
        Ok(())
    });
    sim.run()?;
    assert_eq!(got.borrow().len(), 40);
    Ok(())
}
