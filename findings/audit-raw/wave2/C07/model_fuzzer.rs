//! Audit C07: model-based random histories with a crash after every prefix.
//!
//! The generator stays clear of the recorded path-keying family: names with a
//! pending removal / rename-away are not reused, files with pending data ops
//! are not renamed or removed, renamed files see no data ops until the rename
//! is durable, directories are never renamed.
#![cfg(feature = "unstable-io_uring")]

use rand::rngs::SmallRng;
use rand::{Rng, SeedableRng};
use std::collections::{BTreeMap, BTreeSet};
use std::os::fd::AsRawFd;
use std::os::unix::fs::FileExt;
use std::sync::{Arc, Mutex};
use std::time::Duration;
use turmoil::fs::shim::std::fs as sfs;
use turmoil::fs::shim::tokio::fs as tfs;
use turmoil::fs::{enter, EnterCtx, Fs, FsConfig};
use turmoil::io_uring::host::{self as uhost, IoUringHostState};
use turmoil::io_uring::{opcode, types, IoUring};

const DIRS: [&str; 5] = ["/", "/d0", "/d1", "/d0/s", "/f0"];
const NAMES: [&str; 3] = ["f0", "f1", "f2"];

static COLLIDE: std::sync::atomic::AtomicBool = std::sync::atomic::AtomicBool::new(false);

fn join(d: &str, n: &str) -> String {
    if d == "/" {
        format!("/{n}")
    } else {
        format!("{d}/{n}")
    }
}
fn parent(p: &str) -> String {
    let i = p.rfind('/').unwrap();
    if i == 0 {
        "/".to_string()
    } else {
        p[..i].to_string()
    }
}
fn all_files() -> Vec<String> {
    let mut v = vec![];
    for d in DIRS {
        for n in NAMES {
            v.push(join(d, n));
        }
    }
    v
}

#[derive(Clone, Debug)]
enum Pend {
    Write(u64, Vec<u8>),
    #[allow(dead_code)]
    SetLen(u64),
}

#[derive(Clone, Debug, Default)]
struct Inode {
    live: Vec<u8>,
    dur: Vec<u8>,
    pend: Vec<Pend>,
    snaps: Vec<Vec<u8>>,
    rename_pending: bool,
}
impl Inode {
    fn clean(&self) -> bool {
        self.pend.is_empty() && !self.rename_pending
    }
    fn write(&mut self, off: u64, data: &[u8]) {
        let end = off as usize + data.len();
        if end > self.live.len() {
            self.live.resize(end, 0);
        }
        self.live[off as usize..end].copy_from_slice(data);
        self.pend.push(Pend::Write(off, data.to_vec()));
        self.snaps.push(self.live.clone());
    }
    fn set_len(&mut self, n: u64) {
        self.live.resize(n as usize, 0);
        self.pend.push(Pend::SetLen(n));
        self.snaps.push(self.live.clone());
    }
    fn sync(&mut self) {
        self.dur = self.live.clone();
        self.pend.clear();
        self.snaps.clear();
    }
}

#[derive(Clone, Debug, PartialEq)]
enum Ent {
    File(usize),
    Dir,
}

#[derive(Clone, Debug, Copy, PartialEq)]
enum Mode {
    Det,
    Prob,
    Torn(u64),
    Both(u64),
}

#[derive(Clone, Debug)]
struct Model {
    live: BTreeMap<String, Ent>,
    dur: BTreeMap<String, Ent>,
    inodes: Vec<Inode>,
    tainted: BTreeSet<String>,
    /// tainted names whose pending removal was that of a directory
    taint_dir: BTreeSet<String>,
    /// pending renames across directories (flushed as a whole by a sync of
    /// either parent)
    xrenames: Vec<(String, String)>,
}

impl Model {
    fn new() -> Self {
        let mut live = BTreeMap::new();
        live.insert("/".to_string(), Ent::Dir);
        Model {
            dur: live.clone(),
            live,
            inodes: vec![],
            tainted: BTreeSet::new(),
            taint_dir: BTreeSet::new(),
            xrenames: vec![],
        }
    }
    fn file(&self, p: &str) -> Option<usize> {
        match self.live.get(p) {
            Some(Ent::File(i)) => Some(*i),
            _ => None,
        }
    }
    fn is_dir(&self, p: &str) -> bool {
        matches!(self.live.get(p), Some(Ent::Dir))
    }
    fn children<'a>(map: &'a BTreeMap<String, Ent>, d: &str) -> Vec<&'a String> {
        map.keys().filter(|k| *k != "/" && parent(k) == d).collect()
    }
    fn sync_dir(&mut self, d: &str) {
        let mut names: BTreeSet<String> = BTreeSet::new();
        for k in Self::children(&self.live, d) {
            names.insert(k.clone());
        }
        for k in Self::children(&self.dur, d) {
            names.insert(k.clone());
        }
        // a rename across directories is flushed as a whole
        let (hit, rest): (Vec<_>, Vec<_>) = std::mem::take(&mut self.xrenames)
            .into_iter()
            .partition(|(a, b)| parent(a) == d || parent(b) == d);
        self.xrenames = rest;
        for (a, b) in hit {
            names.insert(a);
            names.insert(b);
        }
        for n in names {
            match self.live.get(&n) {
                Some(e) => {
                    if let Ent::File(i) = e {
                        self.inodes[*i].rename_pending = false;
                    }
                    self.dur.insert(n.clone(), e.clone());
                }
                None => {
                    self.dur.remove(&n);
                }
            }
            self.tainted.remove(&n);
            self.taint_dir.remove(&n);
        }
        // own creation
        self.dur.insert(d.to_string(), Ent::Dir);
        // (a pending removal of an earlier incarnation of `d` is flushed too)
        self.tainted.remove(d);
        self.taint_dir.remove(d);
    }
}

#[derive(Clone, Debug)]
enum Op {
    Create {
        p: String,
        trunc: bool,
        new: bool,
        api: u8,
    },
    WriteAt {
        p: String,
        off: u64,
        data: Vec<u8>,
        api: u8,
    },
    Append {
        p: String,
        data: Vec<u8>,
        api: u8,
    },
    SetLen {
        p: String,
        n: u64,
        api: u8,
    },
    Sync {
        p: String,
        data_only: bool,
        api: u8,
    },
    SyncDir {
        d: String,
        api: u8,
    },
    Rename {
        a: String,
        b: String,
        api: u8,
    },
    RemoveFile {
        p: String,
        api: u8,
    },
    CreateDir {
        d: String,
        api: u8,
    },
    RemoveDir {
        d: String,
        api: u8,
    },
}

struct Gen {
    rng: SmallRng,
    fill: u8,
    cross_dir: bool,
    /// let a directory take the name of a (pending-)removed file and v.v.
    collide: bool,
}

impl Gen {
    fn data(&mut self, max: usize) -> Vec<u8> {
        let n = self.rng.random_range(1..=max);
        self.fill = self.fill.wrapping_add(1);
        if self.fill < b'A' || self.fill > b'z' {
            self.fill = b'A';
        }
        vec![self.fill; n]
    }

    /// Propose a valid op for the current model state.
    fn next(&mut self, m: &Model, mode: Mode) -> Option<Op> {
        let api = self.rng.random_range(0..3u8);
        let files: Vec<String> = all_files();
        let live_files: Vec<String> = files
            .iter()
            .filter(|p| m.file(p).is_some())
            .cloned()
            .collect();
        let free_files: Vec<String> = files
            .iter()
            .filter(|p| {
                !m.live.contains_key(*p)
                    && (!m.tainted.contains(*p) || (self.collide && m.taint_dir.contains(*p)))
                    && m.is_dir(&parent(p))
            })
            .cloned()
            .collect();
        let data_ok: Vec<String> = live_files
            .iter()
            .filter(|p| !m.inodes[m.file(p).unwrap()].rename_pending)
            .cloned()
            .collect();
        let clean: Vec<String> = live_files
            .iter()
            .filter(|p| m.inodes[m.file(p).unwrap()].clean())
            .cloned()
            .collect();
        let live_dirs: Vec<String> = DIRS
            .iter()
            .filter(|d| m.is_dir(d))
            .map(|d| d.to_string())
            .collect();
        let maxw = match mode {
            Mode::Torn(_) | Mode::Both(_) => 10,
            _ => 6,
        };
        for _ in 0..20 {
            let k = self.rng.random_range(0..100);
            let pick = |rng: &mut SmallRng, v: &Vec<String>| -> Option<String> {
                if v.is_empty() {
                    None
                } else {
                    Some(v[rng.random_range(0..v.len())].clone())
                }
            };
            let op = match k {
                0..=11 => pick(&mut self.rng, &free_files).map(|p| Op::Create {
                    p,
                    trunc: self.rng.random_bool(0.5),
                    new: self.rng.random_bool(0.3),
                    api,
                }),
                12..=15 => pick(&mut self.rng, &data_ok).map(|p| Op::Create {
                    p,
                    trunc: self.rng.random_bool(0.6),
                    new: false,
                    api,
                }),
                16..=33 => pick(&mut self.rng, &data_ok).map(|p| Op::WriteAt {
                    p,
                    off: self.rng.random_range(0..8),
                    data: self.data(maxw),
                    api,
                }),
                34..=39 => pick(&mut self.rng, &data_ok).map(|p| Op::Append {
                    p,
                    data: self.data(maxw),
                    api,
                }),
                40..=46 => pick(&mut self.rng, &data_ok).map(|p| Op::SetLen {
                    p,
                    n: self.rng.random_range(0..10),
                    api,
                }),
                47..=58 => pick(&mut self.rng, &data_ok).map(|p| Op::Sync {
                    p,
                    data_only: self.rng.random_bool(0.4),
                    api,
                }),
                59..=72 => {
                    // a directory may be made durable ahead of its parent's
                    // entry for it, but not ahead of its grandparent's
                    let ok: Vec<String> = live_dirs
                        .iter()
                        .filter(|d| *d == "/" || m.dur.contains_key(&parent(d)))
                        .cloned()
                        .collect();
                    pick(&mut self.rng, &ok).map(|d| Op::SyncDir { d, api })
                }
                73..=82 => {
                    let a = pick(&mut self.rng, &clean);
                    a.and_then(|a| {
                        let d = if self.cross_dir {
                            pick(&mut self.rng, &live_dirs).unwrap()
                        } else {
                            parent(&a)
                        };
                        let n = NAMES[self.rng.random_range(0..3)];
                        let b = join(&d, n);
                        if b == a || m.tainted.contains(&b) {
                            return None;
                        }
                        // across directories only when both are durable, so
                        // that the whole-rename flush cannot leave an entry
                        // in a directory that does not survive (unspecified)
                        if parent(&a) != d
                            && !(m.dur.contains_key(&d) && m.dur.contains_key(&parent(&a)))
                        {
                            return None;
                        }
                        match m.live.get(&b) {
                            None => Some(Op::Rename { a, b, api }),
                            Some(Ent::File(i)) if m.inodes[*i].clean() => {
                                Some(Op::Rename { a, b, api })
                            }
                            _ => None,
                        }
                    })
                }
                83..=89 => pick(&mut self.rng, &clean).map(|p| Op::RemoveFile { p, api }),
                90..=95 => {
                    let cands: Vec<String> = DIRS[1..]
                        .iter()
                        .filter(|d| {
                            !m.live.contains_key(**d)
                                && (!m.tainted.contains(**d)
                                    || (self.collide && !m.taint_dir.contains(**d)))
                                && (self.collide || **d != "/f0")
                                && m.is_dir(&parent(d))
                        })
                        .map(|d| d.to_string())
                        .collect();
                    pick(&mut self.rng, &cands).map(|d| Op::CreateDir { d, api })
                }
                _ => {
                    let cands: Vec<String> = DIRS[1..]
                        .iter()
                        .filter(|d| {
                            m.is_dir(d)
                                && Model::children(&m.live, d).is_empty()
                                && Model::children(&m.dur, d).is_empty()
                        })
                        .map(|d| d.to_string())
                        .collect();
                    pick(&mut self.rng, &cands).map(|d| Op::RemoveDir { d, api })
                }
            };
            if op.is_some() {
                return op;
            }
        }
        None
    }
}

fn apply_model(m: &mut Model, op: &Op) {
    {
        let d = format!("{op:?}");
        let k = d.split(' ').next().unwrap().to_string();
        *STATS.lock().unwrap().ops.entry(k).or_default() += 1;
    }
    match op {
        Op::Create { p, trunc, .. } => match m.file(p) {
            Some(i) => {
                if *trunc {
                    m.inodes[i].set_len(0);
                }
            }
            None => {
                m.inodes.push(Inode::default());
                let i = m.inodes.len() - 1;
                m.live.insert(p.clone(), Ent::File(i));
                if *trunc {
                    // the shim queues a SetLen(0) for a fresh file as well
                    m.inodes[i].set_len(0);
                }
            }
        },
        Op::WriteAt { p, off, data, .. } => {
            let i = m.file(p).unwrap();
            m.inodes[i].write(*off, data);
        }
        Op::Append { p, data, .. } => {
            let i = m.file(p).unwrap();
            let off = m.inodes[i].live.len() as u64;
            m.inodes[i].write(off, data);
        }
        Op::SetLen { p, n, .. } => {
            let i = m.file(p).unwrap();
            m.inodes[i].set_len(*n);
        }
        Op::Sync { p, .. } => {
            let i = m.file(p).unwrap();
            m.inodes[i].sync();
        }
        Op::SyncDir { d, .. } => m.sync_dir(d),
        Op::Rename { a, b, .. } => {
            let e = m.live.remove(a).unwrap();
            if let Ent::File(i) = &e {
                m.inodes[*i].rename_pending = true;
            }
            m.live.insert(b.clone(), e);
            m.tainted.insert(a.clone());
            if parent(a) != parent(b) {
                m.xrenames.push((a.clone(), b.clone()));
            }
        }
        Op::RemoveFile { p, .. } => {
            m.live.remove(p);
            m.tainted.insert(p.clone());
        }
        Op::CreateDir { d, .. } => {
            m.live.insert(d.clone(), Ent::Dir);
        }
        Op::RemoveDir { d, .. } => {
            m.live.remove(d);
            m.tainted.insert(d.clone());
            m.taint_dir.insert(d.clone());
        }
    }
}

fn bo<F: std::future::Future>(f: F) -> F::Output {
    tokio_test::block_on(f)
}

fn uring_one(entry: turmoil::io_uring::squeue::Entry) -> i32 {
    let mut ring = IoUring::new(4).unwrap();
    unsafe {
        ring.submission().push(&entry).unwrap();
    }
    ring.submit().unwrap();
    let mut cq = ring.completion();
    cq.sync();
    let e = cq.next().expect("cqe ready (no latency configured)");
    e.result()
}

async fn open_w(p: &str, api: u8) -> sfs::File {
    if api == 1 {
        tfs::OpenOptions::new()
            .write(true)
            .open(p)
            .await
            .unwrap()
            .into_std()
    } else {
        sfs::OpenOptions::new().write(true).open(p).unwrap()
    }
}

async fn apply_real(op: &Op) {
    match op {
        Op::Create { p, trunc, new, api } => {
            if *api == 1 {
                let mut o = tfs::OpenOptions::new();
                o.write(true).truncate(*trunc);
                if *new {
                    o.create_new(true);
                } else {
                    o.create(true);
                }
                o.open(p).await.unwrap();
            } else {
                let mut o = sfs::OpenOptions::new();
                o.write(true).truncate(*trunc);
                if *new {
                    o.create_new(true);
                } else {
                    o.create(true);
                }
                o.open(p).unwrap();
            }
        }
        Op::WriteAt { p, off, data, api } => {
            let f = open_w(p, *api).await;
            match api {
                1 => {
                    let tf = tfs::File::from_std(f);
                    assert_eq!(tf.write_at(data, *off).await.unwrap(), data.len());
                }
                2 => {
                    let e = opcode::Write::new(
                        types::Fd(f.as_raw_fd()),
                        data.as_ptr(),
                        data.len() as u32,
                    )
                    .offset(*off)
                    .build()
                    .user_data(1);
                    assert_eq!(uring_one(e), data.len() as i32);
                }
                _ => f.write_all_at(data, *off).unwrap(),
            }
        }
        Op::Append { p, data, api } => {
            use std::io::Write;
            if *api == 1 {
                use tokio::io::AsyncWriteExt;
                let mut f = tfs::OpenOptions::new().append(true).open(p).await.unwrap();
                f.write_all(data).await.unwrap();
            } else {
                let mut f = sfs::OpenOptions::new().append(true).open(p).unwrap();
                f.write_all(data).unwrap();
            }
        }
        Op::SetLen { p, n, api } => {
            let f = open_w(p, *api).await;
            if *api == 1 {
                tfs::File::from_std(f).set_len(*n).await.unwrap();
            } else {
                f.set_len(*n).unwrap();
            }
        }
        Op::Sync { p, data_only, api } => {
            let f = open_w(p, *api).await;
            match api {
                1 => {
                    let tf = tfs::File::from_std(f);
                    if *data_only {
                        tf.sync_data().await.unwrap();
                    } else {
                        tf.sync_all().await.unwrap();
                    }
                }
                2 => {
                    let e = opcode::Fsync::new(types::Fd(f.as_raw_fd()))
                        .build()
                        .user_data(2);
                    assert_eq!(uring_one(e), 0);
                }
                _ => {
                    if *data_only {
                        f.sync_data().unwrap();
                    } else {
                        f.sync_all().unwrap();
                    }
                }
            }
        }
        Op::SyncDir { d, api } => {
            if *api == 1 {
                tfs::sync_dir(d).await.unwrap();
            } else {
                sfs::sync_dir(d).unwrap();
            }
        }
        Op::Rename { a, b, api } => {
            if *api == 1 {
                tfs::rename(a, b).await.unwrap();
            } else {
                sfs::rename(a, b).unwrap();
            }
        }
        Op::RemoveFile { p, api } => {
            if *api == 1 {
                tfs::remove_file(p).await.unwrap();
            } else {
                sfs::remove_file(p).unwrap();
            }
        }
        Op::CreateDir { d, api } => {
            if *api == 1 {
                tfs::create_dir(d).await.unwrap();
            } else {
                sfs::create_dir(d).unwrap();
            }
        }
        Op::RemoveDir { d, api } => {
            if *api == 1 {
                tfs::remove_dir(d).await.unwrap();
            } else {
                sfs::remove_dir(d).unwrap();
            }
        }
    }
}

/// All images torn writes permit: the durable image with a whole-block prefix
/// of every pending write applied, in order.
fn torn_set(dur: &[u8], pend: &[Pend], bs: u64) -> BTreeSet<Vec<u8>> {
    let mut set: BTreeSet<Vec<u8>> = BTreeSet::new();
    set.insert(dur.to_vec());
    for p in pend {
        if let Pend::Write(off, data) = p {
            let blocks = (data.len() as u64).div_ceil(bs);
            let mut next = BTreeSet::new();
            for img in &set {
                for k in 0..=blocks {
                    let n = ((k * bs) as usize).min(data.len());
                    let mut v = img.clone();
                    if n > 0 {
                        let end = *off as usize + n;
                        if end > v.len() {
                            v.resize(end, 0);
                        }
                        v[*off as usize..end].copy_from_slice(&data[..n]);
                    }
                    next.insert(v);
                }
            }
            set = next;
        }
    }
    set
}

#[derive(Debug, Clone)]
enum Seen {
    Absent,
    Dir,
    File(Vec<u8>),
}

fn observe(p: &str) -> Seen {
    match sfs::metadata(p) {
        Err(_) => Seen::Absent,
        Ok(m) if m.is_dir() => Seen::Dir,
        Ok(_) => Seen::File(sfs::read(p).unwrap()),
    }
}

fn s(v: &[u8]) -> String {
    String::from_utf8_lossy(v).replace('\0', "0")
}

/// Crash the model; compare with what the real filesystem shows.
#[derive(Default, Debug)]
struct Stats {
    checks: u64,
    nonempty_files: u64,
    empty_files: u64,
    dirs: u64,
    ops: BTreeMap<String, u64>,
}
static STATS: std::sync::LazyLock<Mutex<Stats>> = std::sync::LazyLock::new(Default::default);

fn universe() -> Vec<String> {
    let mut paths: Vec<String> = DIRS[1..].iter().map(|d| d.to_string()).collect();
    paths.extend(all_files());
    paths
}

fn observe_all() -> BTreeMap<String, Seen> {
    let seen: BTreeMap<String, Seen> = universe()
        .into_iter()
        .map(|p| (p.clone(), observe(&p)))
        .collect();
    // the directory listings have to agree with the per-path view
    for d in DIRS {
        if d != "/" && !matches!(seen[d], Seen::Dir) {
            continue;
        }
        let mut listed: Vec<String> = sfs::read_dir(d)
            .unwrap()
            .map(|e| e.unwrap().path().to_string_lossy().to_string())
            .collect();
        listed.sort();
        let expect: Vec<String> = seen
            .iter()
            .filter(|(k, v)| parent(k) == d && !matches!(v, Seen::Absent))
            .map(|(k, _)| k.clone())
            .collect();
        assert_eq!(listed, expect, "read_dir({d}) disagrees with metadata()");
    }
    seen
}

fn crash_and_check(m: &mut Model, mode: Mode, trace: &[String]) -> Result<(), String> {
    let seen = observe_all();
    crash_and_check_with(m, mode, trace, &seen)
}

fn crash_and_check_with(
    m: &mut Model,
    mode: Mode,
    trace: &[String],
    observed: &BTreeMap<String, Seen>,
) -> Result<(), String> {
    let mut errs = vec![];
    // durable image with all ancestors durable
    let mut new_live: BTreeMap<String, Ent> = BTreeMap::new();
    for (k, e) in &m.dur {
        let par = parent(k);
        if k == "/" || m.dur.get(&par) == Some(&Ent::Dir) {
            new_live.insert(k.clone(), e.clone());
        } else {
            return Err(format!("generator produced a dangling entry {k}"));
        }
    }
    STATS.lock().unwrap().checks += 1;
    for p in &universe() {
        let seen = observed[p].clone();
        {
            let mut st = STATS.lock().unwrap();
            match &seen {
                Seen::File(c) if !c.is_empty() => st.nonempty_files += 1,
                Seen::File(_) => st.empty_files += 1,
                Seen::Dir => st.dirs += 1,
                Seen::Absent => {}
            }
        }
        match (new_live.get(p), &seen) {
            (None, Seen::Absent) => {}
            (Some(Ent::Dir), Seen::Dir) => {}
            (Some(Ent::File(i)), Seen::File(c)) => {
                let ino = &mut m.inodes[*i];
                let ok = match mode {
                    Mode::Det => *c == ino.dur,
                    Mode::Prob => *c == ino.dur || ino.snaps.contains(c),
                    Mode::Torn(bs) => torn_set(&ino.dur, &ino.pend, bs).contains(c),
                    // a background sync after any data op, then torn writes
                    // of what was still pending
                    Mode::Both(bs) => (0..=ino.pend.len()).any(|k| {
                        let base = if k == 0 { &ino.dur } else { &ino.snaps[k - 1] };
                        torn_set(base, &ino.pend[k..], bs).contains(c)
                    }),
                };
                if !ok {
                    errs.push(format!(
                        "{p}: content {:?} not permitted (durable {:?}, pending {:?})",
                        s(c),
                        s(&ino.dur),
                        ino.pend
                    ));
                }
                ino.dur = c.clone();
            }
            (exp, seen) => errs.push(format!("{p}: expected {exp:?}, found {seen:?}")),
        }
    }
    for ino in m.inodes.iter_mut() {
        ino.live = ino.dur.clone();
        ino.pend.clear();
        ino.snaps.clear();
        ino.rename_pending = false;
    }
    m.live = new_live.clone();
    m.dur = new_live;
    m.tainted.clear();
    m.taint_dir.clear();
    m.xrenames.clear();
    if errs.is_empty() {
        Ok(())
    } else {
        Err(format!(
            "after crash:\n  {}\nhistory:\n  {}",
            errs.join("\n  "),
            trace.join("\n  ")
        ))
    }
}

fn run_one(
    seed: u64,
    len: usize,
    crash_at: usize,
    mode: Mode,
    cross_dir: bool,
) -> Result<(), String> {
    let mut cfg = FsConfig::default();
    match mode {
        Mode::Det => {}
        Mode::Prob => {
            cfg.sync_probability(0.3);
        }
        Mode::Torn(bs) => {
            cfg.block_size(bs);
        }
        Mode::Both(bs) => {
            cfg.sync_probability(0.3);
            cfg.block_size(bs);
        }
    }
    let fs = Arc::new(Mutex::new(Fs::new(cfg, seed ^ 0x5eed)));
    let iou = Arc::new(Mutex::new(IoUringHostState::new()));
    let _g = enter(
        &fs,
        EnterCtx {
            now: Duration::from_secs(5),
            on_corruption: None,
        },
    );
    let _u = uhost::enter(
        &iou,
        uhost::EnterCtx {
            now: Duration::from_secs(5),
        },
    );

    let mut g = Gen {
        rng: SmallRng::seed_from_u64(seed),
        fill: b'A',
        cross_dir,
        collide: COLLIDE.load(std::sync::atomic::Ordering::SeqCst),
    };
    let mut m = Model::new();
    let mut trace = vec![];
    // first crash after `crash_at` ops, then keep going and crash again at the end
    for step in 0..len {
        if step == crash_at {
            fs.lock().unwrap().crash();
            iou.lock().unwrap().crash();
            trace.push("CRASH".to_string());
            crash_and_check(&mut m, mode, &trace)?;
        }
        let Some(op) = g.next(&m, mode) else { continue };
        trace.push(format!("{op:?}"));
        if std::panic::catch_unwind(std::panic::AssertUnwindSafe(|| bo(apply_real(&op)))).is_err() {
            return Err(format!(
                "live view diverged: a valid operation failed\nhistory:\n  {}",
                trace.join("\n  ")
            ));
        }
        apply_model(&mut m, &op);
    }
    fs.lock().unwrap().crash();
    iou.lock().unwrap().crash();
    trace.push("CRASH".to_string());
    crash_and_check(&mut m, mode, &trace)
}

fn campaign(mode: Mode, cross_dir: bool, seeds: u64, len: usize) {
    let mut failures = vec![];
    for seed in 0..seeds {
        for crash_at in 0..=len {
            if let Err(e) = run_one(seed, len, crash_at, mode, cross_dir) {
                failures.push(format!("seed {seed} crash_at {crash_at}: {e}"));
                break;
            }
        }
    }
    if !failures.is_empty() {
        let n = failures.len();
        failures.sort_by_key(|f| f.len());
        if std::env::var("C07_ALL").is_ok() {
            for f in &failures {
                eprintln!("----\n{f}");
            }
        }
        panic!("{n} failing seeds; shortest:\n{}", failures[0]);
    }
}

#[test]
fn det_same_dir() {
    campaign(Mode::Det, false, 400, 16);
}

#[test]
fn prob_same_dir() {
    campaign(Mode::Prob, false, 300, 16);
}

#[test]
fn torn_same_dir() {
    campaign(Mode::Torn(4), false, 300, 16);
}

#[test]
fn det_cross_dir() {
    campaign(Mode::Det, true, 400, 16);
}

// ─── the same histories through Sim::crash / Sim::bounce, two hosts ─────────

struct Plan {
    phases: Vec<Vec<Op>>,
}

/// Generate a history with the model alone (deterministic knobs), cut in
/// three phases by two crashes.
fn plan(seed: u64, len: usize, crash_at: usize, cross_dir: bool) -> Plan {
    let mut g = Gen {
        rng: SmallRng::seed_from_u64(seed),
        fill: b'A',
        cross_dir,
        collide: COLLIDE.load(std::sync::atomic::Ordering::SeqCst),
    };
    let mut m = Model::new();
    let mut phases = vec![vec![], vec![]];
    for step in 0..len {
        if step == crash_at {
            model_only_crash(&mut m);
        }
        let Some(op) = g.next(&m, Mode::Det) else {
            continue;
        };
        apply_model(&mut m, &op);
        phases[(step >= crash_at) as usize].push(op);
    }
    Plan { phases }
}

fn model_only_crash(m: &mut Model) {
    // what the model itself predicts is what is "observed"
    let mut seen = BTreeMap::new();
    for p in universe() {
        let v = match m.dur.get(&p) {
            None => Seen::Absent,
            Some(Ent::Dir) => Seen::Dir,
            Some(Ent::File(i)) => Seen::File(m.inodes[*i].dur.clone()),
        };
        seen.insert(p, v);
    }
    crash_and_check_with(m, Mode::Det, &[], &seen).unwrap();
}

fn sim_pair(
    seed_a: u64,
    seed_b: u64,
    len: usize,
    crash_at: usize,
    cross_dir: bool,
) -> Result<(), String> {
    use std::sync::atomic::{AtomicUsize, Ordering};
    use tokio::sync::Notify;
    use turmoil::Builder;

    let mut sim = Builder::new().build();
    let hosts = [("a", seed_a), ("b", seed_b)];
    let mut shared = vec![];
    for (name, seed) in hosts {
        let plan = Arc::new(plan(seed, len, crash_at, cross_dir));
        let phase = Arc::new(AtomicUsize::new(0));
        let done = Arc::new(Notify::new());
        let obs: Arc<Mutex<Vec<BTreeMap<String, Seen>>>> = Arc::new(Mutex::new(vec![]));
        shared.push((name, plan.clone(), phase.clone(), done.clone(), obs.clone()));
        sim.host(name, move || {
            let (plan, phase, done, obs) = (plan.clone(), phase.clone(), done.clone(), obs.clone());
            async move {
                let ph = phase.load(Ordering::SeqCst);
                if ph >= 1 {
                    obs.lock().unwrap().push(observe_all());
                }
                if let Some(ops) = plan.phases.get(ph) {
                    for op in ops {
                        apply_real(op).await;
                    }
                }
                done.notify_one();
                std::future::pending::<()>().await;
                Ok(())
            }
        });
    }
    let wait = |sim: &mut turmoil::Sim<'_>, tag: &str, who: &[usize]| -> Result<(), String> {
        let ns: Vec<Arc<Notify>> = who.iter().map(|i| shared[*i].3.clone()).collect();
        sim.client(tag.to_string(), async move {
            for n in ns {
                n.notified().await;
            }
            Ok(())
        });
        sim.run().map_err(|e| format!("sim.run: {e}"))
    };
    wait(&mut sim, "w0", &[0, 1])?;
    // crash a, then b, interleaved with restarts, so that each host's crash
    // happens while the other one is in a different state
    sim.crash("a");
    shared[0].2.store(1, Ordering::SeqCst);
    sim.bounce("a");
    wait(&mut sim, "w1", &[0])?;
    sim.crash("b");
    shared[1].2.store(1, Ordering::SeqCst);
    sim.bounce("b");
    wait(&mut sim, "w2", &[1])?;
    sim.crash("b");
    shared[1].2.store(2, Ordering::SeqCst);
    sim.bounce("b");
    sim.crash("a");
    shared[0].2.store(2, Ordering::SeqCst);
    sim.bounce("a");
    wait(&mut sim, "w3", &[0, 1])?;

    // replay the model against the observations
    for (name, plan, _, _, obs) in &shared {
        let obs = obs.lock().unwrap();
        assert_eq!(obs.len(), 2);
        let mut m = Model::new();
        let mut trace = vec![];
        for (i, ops) in plan.phases.iter().enumerate() {
            for op in ops {
                trace.push(format!("{op:?}"));
                apply_model(&mut m, op);
            }
            trace.push("CRASH".into());
            crash_and_check_with(&mut m, Mode::Det, &trace, &obs[i])
                .map_err(|e| format!("host {name}: {e}"))?;
        }
    }
    Ok(())
}

fn sim_campaign(cross_dir: bool, seeds: u64, len: usize) {
    let mut failures = vec![];
    for seed in 0..seeds {
        let crash_at = (seed as usize * 7) % (len + 1);
        if let Err(e) = sim_pair(seed, seed + 10_000, len, crash_at, cross_dir) {
            failures.push(format!(
                "seeds {seed}/{} crash_at {crash_at}: {e}",
                seed + 10_000
            ));
        }
    }
    if !failures.is_empty() {
        let n = failures.len();
        failures.sort_by_key(|f| f.len());
        panic!("{n} failing runs; shortest:\n{}", failures[0]);
    }
    eprintln!("stats: {:?}", STATS.lock().unwrap());
}

#[test]
fn sim_two_hosts_same_dir() {
    sim_campaign(false, 150, 16);
}

#[test]
fn prob_cross_dir() {
    campaign(Mode::Prob, true, 300, 20);
}

#[test]
fn torn_cross_dir() {
    campaign(Mode::Torn(4), true, 300, 20);
}

#[test]
fn sim_two_hosts_cross_dir() {
    sim_campaign(true, 150, 20);
}

#[test]
fn det_same_dir_long() {
    campaign(Mode::Det, false, 300, 28);
}

#[test]
fn torn_other_block_sizes() {
    campaign(Mode::Torn(1), false, 150, 16);
    campaign(Mode::Torn(3), false, 150, 16);
    campaign(Mode::Torn(64), false, 150, 16);
}

#[test]
fn prob_and_torn_same_dir() {
    campaign(Mode::Both(4), false, 300, 16);
}

/// Exploration only: runs into the recorded path-keying family (see out/held.md).
#[test]
#[ignore]
fn zz_det_name_collisions() {
    COLLIDE.store(true, std::sync::atomic::Ordering::SeqCst);
    campaign(Mode::Det, true, 600, 20);
    COLLIDE.store(false, std::sync::atomic::Ordering::SeqCst);
}
