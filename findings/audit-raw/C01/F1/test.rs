//! Audit C01 / hypothesis: `Builder::rng_seed` makes `tokio::select!` in host
//! programs reproducible.
//!
//! The same client program (a non-biased `tokio::select!` over branches that
//! are all ready at the same virtual instant) is run in two simulations built
//! from the same builder settings. The sequence of branches taken, and with
//! it the order of the UDP datagrams the client sends, must be identical.

use std::cell::RefCell;
use std::net::{IpAddr, Ipv4Addr};
use std::rc::Rc;
use std::time::{Duration, SystemTime};

use turmoil::net::UdpSocket;
use turmoil::Builder;

fn run_once(seed: u64) -> Vec<String> {
    let log: Rc<RefCell<Vec<String>>> = Rc::default();

    let mut sim = Builder::new()
        .rng_seed(seed)
        .epoch(SystemTime::UNIX_EPOCH + Duration::from_secs(1_700_000_000))
        .tick_duration(Duration::from_millis(1))
        .min_message_latency(Duration::from_millis(1))
        .max_message_latency(Duration::from_millis(1))
        .build();

    // server: logs the datagrams in the order they are received
    let l = log.clone();
    sim.host("server", move || {
        let l = l.clone();
        async move {
            let sock = UdpSocket::bind((IpAddr::V4(Ipv4Addr::UNSPECIFIED), 9000)).await?;
            let mut buf = [0u8; 8];
            loop {
                let (n, from) = sock.recv_from(&mut buf).await?;
                l.borrow_mut().push(format!(
                    "{:?} server recv {:?} from {from}",
                    turmoil::elapsed(),
                    &buf[..n]
                ));
            }
        }
    });

    let l = log.clone();
    sim.client("client", async move {
        let sock = UdpSocket::bind((IpAddr::V4(Ipv4Addr::UNSPECIFIED), 9000)).await?;
        for round in 0..48u8 {
            // three timers that expire at the same virtual instant ...
            let a = tokio::time::sleep(Duration::from_millis(2));
            let b = tokio::time::sleep(Duration::from_millis(2));
            let c = tokio::time::sleep(Duration::from_millis(2));
            tokio::pin!(a, b, c);
            // ... and are all ready when the select! is first polled
            tokio::time::sleep(Duration::from_millis(3)).await;
            let pick = tokio::select! {
                _ = &mut a => b'a',
                _ = &mut b => b'b',
                _ = &mut c => b'c',
            };
            l.borrow_mut()
                .push(format!("{:?} client round {round} took {}", turmoil::elapsed(), pick as char));
            sock.send_to(&[round, pick], ("server", 9000)).await?;
        }
        tokio::time::sleep(Duration::from_millis(5)).await;
        Ok(())
    });

    let res = sim.run();
    log.borrow_mut().push(format!("final {res:?}"));
    let out = log.borrow().clone();
    out
}

#[test]
fn select_is_reproducible_under_a_fixed_seed() {
    for seed in 0..4 {
        let a = run_once(seed);
        let b = run_once(seed);
        assert!(a.len() > 90, "scenario did not run: {a:?}");
        if let Some(i) = a.iter().zip(&b).position(|(x, y)| x != y) {
            panic!(
                "seed {seed}: two runs with identical builder settings diverge at trace line {i}:\n  run 1: {}\n  run 2: {}",
                a[i], b[i]
            );
        }
        assert_eq!(a.len(), b.len());
    }
}
