//! Audit C01 / hypothesis: the final result of a simulation whose (deterministic)
//! client fails is the same when the simulation is repeated in one process.
//!
//! Two failure modes of a client are tried: returning `Err`, and panicking.

use std::panic::{catch_unwind, AssertUnwindSafe};
use std::time::{Duration, SystemTime};

use turmoil::Builder;

#[derive(Clone, Copy, Debug)]
enum Fail {
    Err,
    Panic,
}

fn run_once(seed: u64, fail: Fail) -> String {
    let mut sim = Builder::new()
        .rng_seed(seed)
        .epoch(SystemTime::UNIX_EPOCH + Duration::from_secs(1_700_000_000))
        .build();

    sim.host("server", || async {
        // a few background tasks so that task ids are consumed
        for _ in 0..3 {
            tokio::spawn(async { tokio::time::sleep(Duration::from_secs(3600)).await });
        }
        std::future::pending::<()>().await;
        Ok(())
    });

    sim.client("client", async move {
        tokio::time::sleep(Duration::from_millis(5)).await;
        match fail {
            Fail::Err => Err("client gave up")?,
            Fail::Panic => panic!("client invariant violated"),
        }
        #[allow(unreachable_code)]
        Ok(())
    });

    match catch_unwind(AssertUnwindSafe(|| sim.run())) {
        Ok(r) => format!("returned {r:?}"),
        Err(p) => format!(
            "panicked {:?}",
            p.downcast_ref::<String>()
                .cloned()
                .or_else(|| p.downcast_ref::<&str>().map(|s| s.to_string()))
        ),
    }
}

#[test]
fn final_result_is_reproducible_when_client_returns_err() {
    let a = run_once(7, Fail::Err);
    let b = run_once(7, Fail::Err);
    assert_eq!(a, b);
}

#[test]
fn final_result_is_reproducible_when_client_panics() {
    let a = run_once(7, Fail::Panic);
    let b = run_once(7, Fail::Panic);
    assert_eq!(a, b, "same seed, same programs, different final result");
}
