//! C04 audit: crash of a host doing fs / io_uring work, enumerated over the
//! crash step. Committed (synced) records survive, the host restarts once,
//! and a bystander's *unsynced* file contents and in-flight ring ops are
//! untouched by somebody else's crash.
#![cfg(feature = "unstable-io_uring")]

use std::cell::RefCell;
use std::os::fd::AsRawFd;
use std::rc::Rc;
use std::time::Duration;

use turmoil::fs::shim::std::fs as sfs;
use turmoil::fs::shim::tokio::fs as tfs;
use turmoil::io_uring::{opcode, types, AsyncFd, IoUring};
use turmoil::{Builder, Result};

struct RingFd(i32);
impl AsRawFd for RingFd {
    fn as_raw_fd(&self) -> i32 {
        self.0
    }
}

#[derive(Default, Debug)]
struct Obs {
    starts: usize,
    committed: u64,
    recovered: Vec<u64>,
    recovery_errors: Vec<String>,
    by_rounds: u64,
    by_errors: Vec<String>,
    open_handles_at_start: Vec<usize>,
}

fn rec(i: u64) -> [u8; 8] {
    (i ^ 0xA5A5_A5A5_0000_0000).to_be_bytes()
}

fn build(obs: Rc<RefCell<Obs>>) -> turmoil::Sim<'static> {
    let mut b = Builder::new();
    b.tick_duration(Duration::from_millis(1));
    b.fs()
        .io_latency()
        .min_latency(Duration::from_micros(700))
        .max_latency(Duration::from_micros(2300));
    let mut sim = b.build();

    let o = obs.clone();
    sim.host("db", move || {
        let o = o.clone();
        async move {
            o.borrow_mut().starts += 1;
            let n = turmoil::fs::FsContext::current(|c| c.fs.open_handles.len());
            o.borrow_mut().open_handles_at_start.push(n);
            // recovery
            let mut next = 0u64;
            if tfs::try_exists("/db/log").await? {
                let data = tfs::read("/db/log").await?;
                let n = (data.len() / 8) as u64;
                for i in 0..n {
                    if data[(i * 8) as usize..(i * 8 + 8) as usize] != rec(i) {
                        // a torn tail is fine only beyond the committed prefix
                        if i < o.borrow().committed {
                            o.borrow_mut()
                                .recovery_errors
                                .push(format!("record {i} corrupt"));
                        }
                        break;
                    }
                    next = i + 1;
                }
                if next < o.borrow().committed {
                    let c = o.borrow().committed;
                    o.borrow_mut()
                        .recovery_errors
                        .push(format!("recovered {next} < committed {c}"));
                }
            } else if o.borrow().committed > 0 {
                o.borrow_mut().recovery_errors.push("log vanished".into());
            }
            o.borrow_mut().recovered.push(next);

            tfs::create_dir_all("/db").await?;
            let f = tfs::OpenOptions::new()
                .read(true)
                .write(true)
                .create(true)
                .open("/db/log")
                .await?;
            f.sync_all().await?;
            tfs::sync_dir("/db").await?;
            tfs::sync_dir("/").await?;

            // background: ring writes to a scratch file, never synced
            tokio::task::spawn_local(async move {
                let scratch = sfs::OpenOptions::new()
                    .read(true)
                    .write(true)
                    .create(true)
                    .open("/db/scratch")
                    .unwrap();
                let mut ring = IoUring::new(8).unwrap();
                let afd = AsyncFd::new(RingFd(ring.as_raw_fd())).unwrap();
                let payload = vec![7u8; 64];
                let mut ud = 0;
                loop {
                    let w = opcode::Write::new(
                        types::Fd(scratch.as_raw_fd()),
                        payload.as_ptr(),
                        payload.len() as u32,
                    )
                    .offset(ud * 64)
                    .build()
                    .user_data(ud);
                    unsafe { ring.submission().push(&w).unwrap() };
                    ring.submit().unwrap();
                    loop {
                        let got = {
                            let mut cq = ring.completion();
                            cq.sync();
                            cq.next()
                        };
                        if got.is_some() {
                            break;
                        }
                        let _ = afd.readable().await.unwrap();
                    }
                    ud += 1;
                }
            });

            loop {
                f.write_at(&rec(next), next * 8).await?;
                f.sync_all().await?;
                next += 1;
                o.borrow_mut().committed = next;
            }
        }
    });

    let o = obs.clone();
    sim.host("bystander", move || {
        let o = o.clone();
        async move {
            sfs::create_dir_all("/by")?;
            // never synced: lives purely in the pending queue of *this* host
            let f = tfs::OpenOptions::new()
                .read(true)
                .write(true)
                .create(true)
                .open("/by/data")
                .await?;
            let mut ring = IoUring::new(4).unwrap();
            let afd = AsyncFd::new(RingFd(ring.as_raw_fd())).unwrap();
            let mut n = 0u64;
            loop {
                f.write_at(&rec(n), n * 8).await?;
                n += 1;
                // ring read of the first record, completes with latency
                let mut buf = [0u8; 8];
                let r = opcode::Read::new(types::Fd(f.as_raw_fd()), buf.as_mut_ptr(), 8)
                    .offset(0)
                    .build()
                    .user_data(n);
                unsafe { ring.submission().push(&r).unwrap() };
                ring.submit().unwrap();
                let cqe = loop {
                    let got = {
                        let mut cq = ring.completion();
                        cq.sync();
                        cq.next()
                    };
                    if let Some(c) = got {
                        break c;
                    }
                    let _ = afd.readable().await.unwrap();
                };
                if cqe.user_data() != n || cqe.result() != 8 || buf != rec(0) {
                    o.borrow_mut()
                        .by_errors
                        .push(format!("round {n}: cqe {cqe:?} buf {buf:?}"));
                }
                let data = tfs::read("/by/data").await?;
                if data.len() as u64 != n * 8
                    || (0..n).any(|i| data[(i * 8) as usize..(i * 8 + 8) as usize] != rec(i))
                {
                    o.borrow_mut()
                        .by_errors
                        .push(format!("round {n}: file has {} bytes / wrong contents", data.len()));
                }
                o.borrow_mut().by_rounds = n;
            }
        }
    });

    sim
}

#[test]
fn fs_crash_enumerated() -> Result {
    let mut fails = vec![];
    for crash_after in 0..40usize {
        for down_for in [0usize, 2] {
            for use_crash in [true, false] {
                if !use_crash && down_for > 0 {
                    continue;
                }
                let tag = format!("crash_after={crash_after} down_for={down_for} crash={use_crash}");
                let obs = Rc::new(RefCell::new(Obs::default()));
                let mut sim = build(obs.clone());
                for _ in 0..crash_after {
                    sim.step()?;
                }
                let by_before = obs.borrow().by_rounds;
                if use_crash {
                    sim.crash("db");
                    for _ in 0..down_for {
                        sim.step()?;
                    }
                }
                sim.bounce("db");
                for _ in 0..30 {
                    sim.step()?;
                }
                let o = obs.borrow();
                let exp = if crash_after == 0 { 1 } else { 2 };
                if o.starts != exp {
                    fails.push(format!("{tag}: starts {}", o.starts));
                }
                if !o.recovery_errors.is_empty() {
                    fails.push(format!("{tag}: recovery {:?}", o.recovery_errors));
                }
                if !o.by_errors.is_empty() {
                    fails.push(format!("{tag}: bystander {:?}", o.by_errors));
                }
                if o.by_rounds <= by_before {
                    fails.push(format!("{tag}: bystander stalled"));
                }
                if o.open_handles_at_start.iter().any(|n| *n != 0) {
                    fails.push(format!(
                        "{tag}: fds open at software start: {:?}",
                        o.open_handles_at_start
                    ));
                }
            }
        }
    }
    assert!(fails.is_empty(), "{} failures:\n{}", fails.len(), fails.join("\n"));
    Ok(())
}
