//! Audit C19 / F2: dropping a RuleGuard from inside a rule panics (RefCell already borrowed).
#![allow(unused_imports)]
use std::cell::RefCell;
use std::rc::Rc;
use std::time::Duration;

use turmoil_net::fixture::ClientServer;
use turmoil_net::shim::tokio::net::UdpSocket;
use turmoil_net::{rule, Packet, RuleGuard, Verdict};

type Got = Rc<RefCell<Vec<Vec<u8>>>>;

/// Server that records every datagram it receives (a panic inside a server
/// task would be swallowed by the fixture, so assertions live in the test).
async fn recorder(got: Got) {
    let s = UdpSocket::bind("0.0.0.0:9000").await.unwrap();
    let mut buf = [0u8; 16];
    loop {
        let (n, _) = s.recv_from(&mut buf).await.unwrap();
        got.borrow_mut().push(buf[..n].to_vec());
    }
}

/// H2: a rule that removes another rule (one-shot partition) when it sees a
/// packet. The partition rule sits later in the chain; its guard is dropped
/// while the first packet is being evaluated, so from that moment it must not
/// apply any more - not to this packet, not to later ones.
#[test]
fn h2_guard_dropped_inside_rule() {
    let got: Got = Rc::default();
    ClientServer::new()
        .server("server", recorder(got.clone()))
        .run("client", async move {
            let c = UdpSocket::bind("0.0.0.0:0").await.unwrap();
            let slot: Rc<RefCell<Option<RuleGuard>>> = Rc::new(RefCell::new(None));
            let s2 = slot.clone();
            // first rule: on the first packet, heal the partition below
            let _watch = rule(move |_: &Packet| {
                s2.borrow_mut().take();
                Verdict::Pass
            });
            *slot.borrow_mut() = Some(rule(|_: &Packet| Verdict::Drop));
            c.send_to(b"one", "server:9000").await.unwrap();
            tokio::time::sleep(Duration::from_millis(3)).await;
            c.send_to(b"two", "server:9000").await.unwrap();
            tokio::time::sleep(Duration::from_millis(3)).await;
        });
    assert_eq!(*got.borrow(), vec![b"one".to_vec(), b"two".to_vec()]);
}

