//! Audit C19 / A1 (adjacent, outside the property statement): with the
//! README's own example rule `Latency::fixed(10ms)` every TCP connect times
//! out, because the count-based retransmit timer (3 egress passes x 5
//! attempts = 18 ticks) is shorter than one delayed round trip.
use std::time::Duration;

use tokio::io::{AsyncReadExt, AsyncWriteExt};
use tokio::time::Instant;
use turmoil_net::fixture::ClientServer;
use turmoil_net::shim::tokio::net::{TcpListener, TcpStream};
use turmoil_net::{rule, Latency};

/// H4: TCP echo under symmetric latency, measuring the lower bound and that
/// the stream survives.
fn tcp_echo_under_latency(ms: u64) -> Duration {
    let lat = Duration::from_millis(ms);
    ClientServer::new()
        .server("server", async move {
            let l = TcpListener::bind("0.0.0.0:9000").await.unwrap();
            let (mut s, _) = l.accept().await.unwrap();
            let mut buf = [0u8; 4];
            s.read_exact(&mut buf).await.unwrap();
            s.write_all(&buf).await.unwrap();
            std::future::pending::<()>().await;
        })
        .run("client", async move {
            rule(Latency::fixed(lat)).forget();
            let t0 = Instant::now();
            let mut c = TcpStream::connect("server:9000").await.unwrap();
            c.write_all(b"ping").await.unwrap();
            let mut buf = [0u8; 4];
            c.read_exact(&mut buf).await.unwrap();
            assert_eq!(&buf, b"ping");
            t0.elapsed()
        })
}

#[test]
fn tcp_echo_under_readme_latency_10ms() {
    let e = tcp_echo_under_latency(10);
    assert!(e >= Duration::from_millis(40), "{e:?}");
}

#[test]
fn tcp_echo_under_latency_50ms() {
    let e = tcp_echo_under_latency(50);
    assert!(e >= Duration::from_millis(200), "{e:?}");
}
