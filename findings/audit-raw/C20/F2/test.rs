//! Audit C20 / F2 -- trigger().await on a Noop barrier yields (tokio coop budget).
#![cfg(feature = "unstable-barriers")]

use std::cell::Cell;
use std::future::Future;
use std::pin::pin;
use std::rc::Rc;
use std::task::{Context, Poll, Waker};

use turmoil::barriers::{trigger, Barrier, Triggered};
use turmoil::Builder;

#[derive(Debug, Clone, PartialEq, Eq)]
struct Ev(u32);

fn poll_wait<T: std::any::Any + Send>(b: &mut Barrier<T>) -> Option<Triggered<T>> {
    let mut cx = Context::from_waker(Waker::noop());
    let fut = pin!(b.wait());
    match fut.poll(&mut cx) {
        Poll::Ready(r) => r,
        Poll::Pending => None,
    }
}

/// H2: a Noop barrier never blocks the triggering code: `trigger().await` on a
/// Noop barrier completes on its first poll, exactly as it does with no barrier.
/// (Inside a runtime task tokio's cooperative budget makes the internal
/// oneshot `rx.await` return Pending once the budget is used up.)
#[test]
fn h2_noop_barrier_never_yields() {
    fn run(with_barrier: bool) -> (u32, bool) {
        let mut sim = Builder::new().build();
        let mut barrier = with_barrier.then(|| Barrier::new(|_: &Ev| true));

        let pendings = Rc::new(Cell::new(0u32));
        let other_ran_inside = Rc::new(Cell::new(false));
        let (pc, oc) = (pendings.clone(), other_ran_inside.clone());
        sim.client("a", async move {
            let in_loop = Rc::new(Cell::new(false));
            let (il, oc2) = (in_loop.clone(), oc.clone());
            // A second task of the same host; it is runnable but can only run
            // if the first one yields.
            tokio::task::spawn_local(async move {
                if il.get() {
                    oc2.set(true);
                }
            });
            in_loop.set(true);
            for i in 0..300u32 {
                let mut fut = pin!(trigger(Ev(i)));
                let mut first = true;
                std::future::poll_fn(|cx| {
                    let r = fut.as_mut().poll(cx);
                    if r.is_pending() && first {
                        pc.set(pc.get() + 1);
                    }
                    first = false;
                    r
                })
                .await;
            }
            in_loop.set(false);
            Ok(())
        });
        sim.run().unwrap();
        if let Some(b) = barrier.as_mut() {
            for i in 0..300u32 {
                assert_eq!(*poll_wait(b).expect("every trigger reported"), Ev(i));
            }
            assert!(poll_wait(b).is_none());
        }
        (pendings.get(), other_ran_inside.get())
    }

    assert_eq!(run(false), (0, false), "control: no barrier, never yields");
    assert_eq!(
        run(true),
        (0, false),
        "(number of trigger() calls that returned Pending on first poll, another task interleaved) with a Noop barrier"
    );
}

