//! Audit C20 / F1 -- a trigger matching a Panic barrier is never reported to it.
#![cfg(feature = "unstable-barriers")]

use std::cell::Cell;
use std::future::Future;
use std::pin::pin;
use std::rc::Rc;
use std::task::{Context, Poll, Waker};

use turmoil::barriers::{trigger, trigger_noop, Barrier, Reaction, Triggered};
use turmoil::Builder;

#[derive(Debug, Clone, PartialEq, Eq)]
struct Ev(u32);

fn poll_wait<T: std::any::Any + Send>(b: &mut Barrier<T>) -> Option<Triggered<T>> {
    let mut cx = Context::from_waker(Waker::noop());
    let fut = pin!(b.wait());
    match fut.poll(&mut cx) {
        Poll::Ready(r) => r,
        Poll::Pending => None,
    }
}

/// H1 (async trigger): a trigger that matches a live Panic barrier is reported
/// to that barrier exactly once (and panics the triggering code).
#[test]
fn h1_panic_barrier_is_reported_async_trigger() {
    let mut sim = Builder::new().build();
    let mut barrier = Barrier::build(Reaction::Panic, |e: &Ev| e.0 == 7);

    let panicked = Rc::new(Cell::new(false));
    let p = panicked.clone();
    sim.client("a", async move {
        // The code under test handles the panic (the sim runtimes shut down
        // on an unhandled task panic, so catch it at the poll).
        let mut fut = Box::pin(trigger(Ev(7)));
        let r = std::future::poll_fn(|cx| {
            match std::panic::catch_unwind(std::panic::AssertUnwindSafe(|| fut.as_mut().poll(cx))) {
                Ok(Poll::Pending) => Poll::Pending,
                Ok(Poll::Ready(())) => Poll::Ready(Ok(())),
                Err(e) => Poll::Ready(Err(e)),
            }
        })
        .await;
        assert!(r.is_err(), "the Panic barrier must panic the triggering code");
        p.set(true);
        Ok(())
    });
    sim.run().unwrap();
    assert!(panicked.get(), "Panic reaction panics the triggering code");

    let got = poll_wait(&mut barrier);
    assert!(
        got.is_some(),
        "trigger Ev(7) matched the live Panic barrier but was never reported to it"
    );
    assert_eq!(*got.unwrap(), Ev(7));
    assert!(poll_wait(&mut barrier).is_none(), "reported exactly once");
}

/// H1 (sync trigger_noop): same for the synchronous entry point.
#[test]
fn h1_panic_barrier_is_reported_sync_trigger() {
    let mut barrier = Barrier::build(Reaction::Panic, |e: &Ev| e.0 == 7);
    let r = std::panic::catch_unwind(|| trigger_noop(Ev(7)));
    assert!(r.is_err(), "Panic reaction panics the triggering code");
    let got = poll_wait(&mut barrier);
    assert!(
        got.is_some(),
        "trigger Ev(7) matched the live Panic barrier but was never reported to it"
    );
}

