//! C10-F5: rename(p, p) must be a successful no-op; it deletes the file.
#![cfg(feature = "unstable-fs")]
use turmoil::fs::shim::std::fs::{create_dir, exists, metadata, read, rename, write};
use turmoil::Builder;

#[test]
fn rename_onto_itself_keeps_the_file() {
    let mut sim = Builder::new().build();
    sim.client("t", async {
        write("/a", b"x")?;
        rename("/a", "/a")?;
        assert!(exists("/a"), "file vanished after rename onto itself");
        assert_eq!(read("/a")?, b"x");
        create_dir("/d")?;
        rename("/d", "/d")?;
        assert!(metadata("/d")?.is_dir());
        Ok(())
    });
    sim.run().unwrap();
}
