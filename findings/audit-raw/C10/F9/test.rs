//! C10-F9: the io_uring front-end ignores the access mode of the descriptor:
//! a Write SQE on a read-only handle modifies the file, a Read SQE on a
//! write-only handle returns data (kernel: -EBADF; std shim: an error).
#![cfg(feature = "unstable-io_uring")]
use std::os::fd::AsRawFd;
use std::os::unix::fs::FileExt;
use turmoil::fs::shim::std::fs::{read, write, File, OpenOptions};
use turmoil::io_uring::{cqueue, opcode, types, AsyncFd, IoUring};
use turmoil::Builder;

struct RingFdHandle(std::os::fd::RawFd);
impl AsRawFd for RingFdHandle {
    fn as_raw_fd(&self) -> std::os::fd::RawFd {
        self.0
    }
}
async fn drain_one(ring: &mut IoUring) -> cqueue::Entry {
    let async_fd = AsyncFd::new(RingFdHandle(<IoUring as AsRawFd>::as_raw_fd(ring))).unwrap();
    loop {
        let cqe = {
            let mut cq = ring.completion();
            cq.sync();
            cq.next()
        };
        if let Some(cqe) = cqe {
            return cqe;
        }
        let _ = async_fd.readable().await.unwrap();
    }
}

#[test]
fn ring_respects_access_mode() {
    let mut sim = Builder::new().build();
    sim.client("c", async {
        write("/a", b"hello")?;
        let ro = File::open("/a")?;
        assert!(ro.write_at(b"XY", 0).is_err()); // the std front-end refuses
        let mut ring = IoUring::new(8).unwrap();
        let payload = b"XY".to_vec();
        let w = opcode::Write::new(types::Fd(ro.as_raw_fd()), payload.as_ptr(), 2)
            .offset(0)
            .build()
            .user_data(1);
        unsafe { ring.submission().push(&w).unwrap() };
        ring.submit().unwrap();
        let cqe = drain_one(&mut ring).await;
        assert_eq!(read("/a")?, b"hello", "a read-only descriptor modified the file");
        assert_eq!(cqe.result(), -9, "expected -EBADF");

        let wo = OpenOptions::new().write(true).open("/a")?;
        let mut buf = vec![0u8; 5];
        let r = opcode::Read::new(types::Fd(wo.as_raw_fd()), buf.as_mut_ptr(), 5)
            .offset(0)
            .build()
            .user_data(2);
        unsafe { ring.submission().push(&r).unwrap() };
        ring.submit().unwrap();
        let cqe = drain_one(&mut ring).await;
        assert_eq!(cqe.result(), -9, "expected -EBADF for a read on a write-only descriptor");
        Ok(())
    });
    sim.run().unwrap();
}
