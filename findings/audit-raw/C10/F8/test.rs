//! C10-F8: a directory can be renamed into its own subtree (POSIX: EINVAL).
#![cfg(feature = "unstable-fs")]
use turmoil::fs::shim::std::fs::{create_dir_all, metadata, rename};
use turmoil::Builder;

#[test]
fn rename_directory_into_its_own_subtree() {
    let mut sim = Builder::new().build();
    sim.client("t", async {
        create_dir_all("/a/b")?;
        assert!(rename("/a", "/a/b/c").is_err(), "rename into own subtree accepted");
        assert!(metadata("/a")?.is_dir());
        assert!(metadata("/a/b")?.is_dir());
        Ok(())
    });
    sim.run().unwrap();
}
