//! C10-F2: sync_dir flushes a pending Rename (or the directory's own
//! re-creation) ahead of older pending operations on the same names that it
//! leaves in the queue, so the sync visibly undoes the rename.
#![cfg(feature = "unstable-fs")]
use turmoil::fs::shim::std::fs::{create_dir, exists, metadata, read_dir, rename, sync_dir, File};
use turmoil::Builder;

fn names(dir: &str) -> Vec<String> {
    let mut v: Vec<String> = read_dir(dir)
        .unwrap()
        .map(|e| e.unwrap().path().display().to_string())
        .collect();
    v.sort();
    v
}

/// new file /a renamed to /d/a, then fsync of the destination directory.
#[test]
fn sync_of_destination_dir_undoes_cross_directory_rename() {
    let mut sim = Builder::new().build();
    sim.client("t", async {
        create_dir("/d")?;
        sync_dir("/")?;
        drop(File::create("/a")?);
        rename("/a", "/d/a")?;
        assert!(!exists("/a") && exists("/d/a"));
        sync_dir("/d")?;
        assert!(exists("/d/a"), "sync_dir(/d) made the renamed file disappear");
        assert!(!exists("/a"), "sync_dir(/d) brought the old name back");
        assert_eq!(names("/d"), vec!["/d/a"]);
        assert_eq!(names("/"), vec!["/d"]);
        Ok(())
    });
    sim.run().unwrap();
}

/// new file /d/a renamed to /a, then fsync of the destination directory "/".
#[test]
fn sync_of_root_undoes_rename_out_of_subdirectory() {
    let mut sim = Builder::new().build();
    sim.client("t", async {
        create_dir("/d")?;
        sync_dir("/")?;
        drop(File::create("/d/a")?);
        rename("/d/a", "/a")?;
        sync_dir("/")?;
        assert!(exists("/a"), "sync_dir(/) made the renamed file disappear");
        assert!(!exists("/d/a"), "sync_dir(/) brought the old name back");
        Ok(())
    });
    sim.run().unwrap();
}

/// durable /d renamed to /e, a new /d created, then fsync of the new /d.
#[test]
fn sync_of_recreated_dir_keeps_it() {
    let mut sim = Builder::new().build();
    sim.client("t", async {
        create_dir("/d")?;
        sync_dir("/")?;
        rename("/d", "/e")?;
        create_dir("/d")?;
        assert!(exists("/d") && exists("/e"));
        sync_dir("/d")?;
        assert!(metadata("/d").map(|m| m.is_dir()).unwrap_or(false), "sync_dir(/d) removed /d");
        assert!(exists("/e"));
        Ok(())
    });
    sim.run().unwrap();
}
