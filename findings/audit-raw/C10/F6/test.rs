//! C10-F6: creation calls that do not look at the kind of what is already
//! there: open(create) on a directory plants a regular file over it, and
//! create_dir_all on a regular file reports success.
#![cfg(feature = "unstable-fs")]
use turmoil::fs::shim::std::fs::{create_dir, create_dir_all, metadata, write, File, OpenOptions};
use turmoil::Builder;

#[test]
fn open_create_on_a_directory() {
    let mut sim = Builder::new().build();
    sim.client("t", async {
        create_dir("/d")?;
        write("/d/f", b"x")?;
        assert!(File::create("/d").is_err(), "File::create on a directory succeeded");
        assert!(
            OpenOptions::new().write(true).create_new(true).open("/d").is_err(),
            "create_new on a directory succeeded"
        );
        let m = metadata("/d")?;
        assert!(m.is_dir() && !m.is_file(), "the directory turned into a regular file");
        Ok(())
    });
    sim.run().unwrap();
}

#[test]
fn create_dir_all_on_a_regular_file() {
    let mut sim = Builder::new().build();
    sim.client("t", async {
        write("/f", b"x")?;
        assert!(create_dir_all("/f").is_err(), "create_dir_all on a regular file returned Ok");
        assert!(metadata("/f")?.is_file());
        Ok(())
    });
    sim.run().unwrap();
}
