//! C10-F3: renaming a directory. The existence replay only recognises the
//! rename of a directory whose inode is already in the persisted image under
//! the source name, and reports every rename target as a regular file.
#![cfg(feature = "unstable-fs")]
use turmoil::fs::shim::std::fs::{create_dir, exists, metadata, read_dir, rename, sync_dir};
use turmoil::Builder;

fn names(dir: &str) -> Vec<String> {
    let mut v: Vec<String> = read_dir(dir)
        .unwrap()
        .map(|e| e.unwrap().path().display().to_string())
        .collect();
    v.sort();
    v
}

/// mkdir /a; rename /a /b   (nothing synced)
#[test]
fn rename_of_unsynced_directory() {
    let mut sim = Builder::new().build();
    sim.client("t", async {
        create_dir("/a")?;
        rename("/a", "/b")?;
        assert!(!exists("/a"), "source directory still exists after rename");
        let m = metadata("/b")?;
        assert!(m.is_dir() && !m.is_file(), "renamed directory is reported as a regular file");
        assert_eq!(names("/"), vec!["/b"]);
        Ok(())
    });
    sim.run().unwrap();
}

/// mkdir /a; sync; rename /a /b; rename /b /c
#[test]
fn rename_of_synced_directory_twice() {
    let mut sim = Builder::new().build();
    sim.client("t", async {
        create_dir("/a")?;
        sync_dir("/")?;
        rename("/a", "/b")?;
        assert!(metadata("/b")?.is_dir(), "renamed directory is reported as a regular file");
        rename("/b", "/c")?;
        assert!(!exists("/a"));
        assert!(!exists("/b"), "intermediate name still exists");
        assert!(metadata("/c")?.is_dir(), "twice-renamed directory is not a directory");
        assert_eq!(names("/"), vec!["/c"]);
        // and the name is free again
        create_dir("/b")?;
        Ok(())
    });
    sim.run().unwrap();
}
