//! C10-F7: directory-level calls report every failure as ErrorKind::Other.
#![cfg(feature = "unstable-fs")]
use std::io::ErrorKind;
use turmoil::fs::shim::std::fs::{create_dir, remove_dir, rename, write};
use turmoil::Builder;

#[test]
fn error_kinds_of_directory_operations() {
    let mut sim = Builder::new().build();
    sim.client("t", async {
        create_dir("/d")?;
        write("/d/f", b"x")?;
        assert_eq!(create_dir("/d").unwrap_err().kind(), ErrorKind::AlreadyExists);
        assert_eq!(create_dir("/d/f").unwrap_err().kind(), ErrorKind::AlreadyExists);
        assert_eq!(create_dir("/x/y").unwrap_err().kind(), ErrorKind::NotFound);
        assert_eq!(remove_dir("/zz").unwrap_err().kind(), ErrorKind::NotFound);
        assert_eq!(remove_dir("/d").unwrap_err().kind(), ErrorKind::DirectoryNotEmpty);
        assert_eq!(rename("/zz", "/yy").unwrap_err().kind(), ErrorKind::NotFound);
        assert_eq!(rename("/d/f", "/x/f").unwrap_err().kind(), ErrorKind::NotFound);
        assert_eq!(rename("/d/f", "/d").unwrap_err().kind(), ErrorKind::IsADirectory);
        Ok(())
    });
    sim.run().unwrap();
}
