//! C05 audit: a step that reports a software error must still advance every
//! clock by exactly one tick (or none of them), so that later steps keep the
//! clocks consistent.

use std::sync::{Arc, Mutex};
use std::time::Duration;
use turmoil::Builder;

#[test]
fn clocks_agree_after_a_step_that_returned_err() {
    let tick = Duration::from_millis(5);
    let mut sim = Builder::new().tick_duration(tick).build();

    // (name, sim_elapsed) samples, taken once per millisecond
    let samples: Arc<Mutex<Vec<(&'static str, Duration)>>> = Arc::new(Mutex::new(vec![]));

    for name in ["a", "c"] {
        let samples = samples.clone();
        sim.host(name, move || {
            let samples = samples.clone();
            async move {
                loop {
                    samples
                        .lock()
                        .unwrap()
                        .push((name, turmoil::sim_elapsed().unwrap()));
                    tokio::time::sleep(Duration::from_millis(1)).await;
                }
            }
        });
        if name == "a" {
            // registered between "a" and "c": fails during the third step
            sim.client("b", async {
                tokio::time::sleep(Duration::from_millis(12)).await;
                Err("boom")?
            });
        }
    }

    let mut errs = 0;
    let mut zero_advance = 0;
    for k in 0..6u32 {
        let before = sim.elapsed();
        samples.lock().unwrap().clear();
        if sim.step().is_err() {
            errs += 1;
        }
        let advanced = sim.elapsed() - before;
        // every observation made during this call must lie in the window the
        // simulation clock attributes to it
        for (name, se) in samples.lock().unwrap().iter() {
            assert!(
                before <= *se && *se < before + tick,
                "step {k} (Sim::elapsed {before:?} -> {:?}, advanced {advanced:?}): host {name} observed sim_elapsed {se:?}",
                sim.elapsed()
            );
        }
        // hosts registered at the same time must agree with each other
        let first = |n: &str| {
            samples
                .lock()
                .unwrap()
                .iter()
                .find(|(name, _)| *name == n)
                .map(|(_, se)| *se)
        };
        if let (Some(a), Some(c)) = (first("a"), first("c")) {
            assert_eq!(a, c, "step {k}: first observation of host a vs host c");
        }
        zero_advance += (advanced != tick) as u32;
    }
    assert_eq!(errs, 1);
    assert_eq!(
        zero_advance, 0,
        "a call to step did not advance Sim::elapsed by one tick"
    );
}
