//! C07 audit, finding F5: entries inside a directory whose removal has been
//! made durable can never be durably removed, and they re-appear inside a
//! later directory of the same name.
//!
//!   unlink /d/f ; rmdir /d ; sync_dir(/)   -- the rmdir is durable now
//!   mkdir /d ; sync_dir(/)                 -- a new, empty /d is durable
//!   CRASH
//!
//! `sync_dir("/")` flushes `RemoveDir{/d}` but leaves `RemoveFile{/d/f}`
//! (parent /d) pending; /d no longer exists, so nothing can flush it; the
//! crash clears it and `persisted_files` / `synced_entries` still hold /d/f.
//!
//! Clause contradicted: "a file is present iff its directory entry was made
//! durable by syncing its parent directory (and has not been durably removed
//! or renamed away)": the new /d (all ancestors durable) must be empty.
#![cfg(feature = "unstable-fs")]

use std::os::unix::fs::FileExt;
use std::sync::{Arc, Mutex};
use std::time::Duration;
use turmoil::fs::shim::std::fs::{
    create_dir, metadata, read, read_dir, remove_dir, remove_file, sync_dir, OpenOptions,
};
use turmoil::fs::{enter, EnterCtx, Fs, FsConfig};

fn with_fs<R>(f: impl FnOnce(&Arc<Mutex<Fs>>) -> R) -> R {
    let fs = Arc::new(Mutex::new(Fs::new(FsConfig::default(), 7)));
    let _g = enter(
        &fs,
        EnterCtx {
            now: Duration::from_secs(1),
            on_corruption: None,
        },
    );
    f(&fs)
}

fn s(v: Vec<u8>) -> String {
    String::from_utf8_lossy(&v).into_owned()
}

#[test]
fn file_of_durably_removed_dir_reappears_in_new_dir() {
    with_fs(|fs| {
        create_dir("/d").unwrap();
        sync_dir("/").unwrap();
        let f = OpenOptions::new()
            .write(true)
            .create_new(true)
            .open("/d/f")
            .unwrap();
        f.write_all_at(b"OLD", 0).unwrap();
        f.sync_all().unwrap();
        drop(f);
        sync_dir("/d").unwrap();

        remove_file("/d/f").unwrap();
        remove_dir("/d").unwrap();
        sync_dir("/").unwrap(); // the rmdir is durable
        create_dir("/d").unwrap();
        sync_dir("/").unwrap(); // the new, empty /d is durable

        fs.lock().unwrap().crash();

        assert!(metadata("/d").map(|m| m.is_dir()).unwrap_or(false));
        let names: Vec<_> = read_dir("/d")
            .unwrap()
            .map(|e| e.unwrap().file_name())
            .collect();
        assert!(
            names.is_empty() && read("/d/f").is_err(),
            "new directory must be empty after the crash, found {names:?} / {:?}",
            read("/d/f").ok().map(s)
        );
    });
}
