//! audit C15 / H1: a stale handle of a stream that was reset by the peer
//! shares its SocketPair with a newer live stream after the ephemeral cursor
//! wraps; dropping the stale handle tears down the newer stream's table entry
//! and its port is handed out again while it is live.
use std::{net::Ipv4Addr, time::Duration};

use tokio::io::{AsyncReadExt, AsyncWriteExt};
use turmoil::{
    net::{TcpListener, TcpStream},
    Builder, Result,
};

const PORT: u16 = 1738;

#[test]
fn stale_reset_stream_does_not_release_port_of_live_stream() -> Result {
    let mut sim = Builder::new()
        .rng_seed(1)
        .simulation_duration(Duration::from_secs(60))
        .ephemeral_ports(49152..=49154)
        .build();

    sim.host("server", || async {
        let listener = TcpListener::bind((Ipv4Addr::UNSPECIFIED, PORT)).await?;
        let mut n = 0;
        let mut keep = vec![];
        loop {
            let (mut stream, _) = listener.accept().await?;
            n += 1;
            if n == 1 {
                // Close the first connection abortively: wait until the
                // client's byte is queued, then drop with it unread => RST.
                tokio::time::sleep(Duration::from_secs(1)).await;
                drop(stream);
            } else {
                // echo one byte, then keep the stream open
                keep.push(tokio::spawn(async move {
                    let mut b = [0u8; 1];
                    while let Ok(1) = stream.read(&mut b).await {
                        if stream.write_all(&b).await.is_err() {
                            break;
                        }
                    }
                }));
            }
        }
    });

    sim.client("client", async {
        // A: gets reset by the server while we still hold the handle.
        let mut a = TcpStream::connect(("server", PORT)).await?;
        let a_port = a.local_addr()?.port();
        a.write_all(b"x").await?;
        tokio::time::sleep(Duration::from_secs(5)).await;

        // B, C: use the remaining two ports of the range and stay open.
        let b = TcpStream::connect(("server", PORT)).await?;
        let c = TcpStream::connect(("server", PORT)).await?;
        // D: the cursor wraps.  A's port is free again (A was reset), so D
        // may legitimately take it.
        let mut d = TcpStream::connect(("server", PORT)).await?;
        let d_port = d.local_addr()?.port();
        assert_eq!(d_port, a_port, "scenario: D reuses the reset stream's port");

        // D works.
        d.write_all(b"1").await?;
        assert_eq!(d.read_u8().await?, b'1');

        // Now the application finally lets go of the dead handle A.
        drop(a);

        // Free B's port, take it with E, free it again: the cursor now sits
        // behind it, so the next scan is C's port, D's port, B's old port.
        let b_port = b.local_addr()?.port();
        drop(b);
        tokio::time::sleep(Duration::from_secs(1)).await; // let the server close its side
        let e = TcpStream::connect(("server", PORT)).await?;
        assert_eq!(e.local_addr()?.port(), b_port);
        drop(e);
        tokio::time::sleep(Duration::from_secs(1)).await; // let the server close its side

        // F is assigned while C and D are live; B's old port is free.
        let f = TcpStream::connect(("server", PORT)).await?;
        let f_port = f.local_addr()?.port();
        let live = [c.local_addr()?.port(), d.local_addr()?.port()];
        assert!(
            !live.contains(&f_port),
            "ephemeral port {f_port} handed out while in use by a live stream (live: {live:?}, free: {b_port})"
        );

        // and D is still a working connection
        d.write_all(b"2").await?;
        assert_eq!(d.read_u8().await?, b'2');
        Ok(())
    });

    sim.run()
}
