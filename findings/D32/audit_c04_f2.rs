//! C04 audit: crash of a TCP server enumerated over every step of a transfer,
//! for several peer behaviours. After `Sim::crash(server)` returns, a peer
//! blocked on an established stream (reading OR writing) must be unblocked
//! with EOF / reset / broken pipe instead of hanging; the server's stream
//! table must be empty; after a bounce the port binds again and a fresh
//! connection works.

use std::cell::RefCell;
use std::rc::Rc;
use std::time::Duration;

use tokio::io::{AsyncReadExt, AsyncWriteExt};
use turmoil::net::{TcpListener, TcpStream};
use turmoil::{Builder, Result};

#[derive(Clone, Copy, Debug, PartialEq)]
enum ServerMode {
    /// accept, never read (peer's data stays unread in the server's queue)
    NeverRead,
    /// accept, read everything as fast as possible
    Drain,
    /// accept, write continuously
    Source,
    /// accept, echo
    Echo,
}

#[derive(Clone, Copy, Debug, PartialEq)]
enum PeerMode {
    WriteOnly,
    ReadOnly,
    Echo,
}

#[derive(Default, Debug)]
struct Obs {
    connected: bool,
    /// how the peer's loop ended
    peer_done: Option<String>,
    /// stream count on the server sampled by a probe host every tick
    server_streams: usize,
    /// number of times the server software was started
    starts: usize,
    /// NeverRead server: peer data has been delivered and is sitting unread
    server_has_unread: bool,
}

fn build(
    server: ServerMode,
    peer: PeerMode,
    cap: usize,
    obs: Rc<RefCell<Obs>>,
) -> turmoil::Sim<'static> {
    let mut sim = Builder::new()
        .tick_duration(Duration::from_millis(1))
        .min_message_latency(Duration::from_millis(1))
        .max_message_latency(Duration::from_millis(1))
        .tcp_capacity(cap)
        .simulation_duration(Duration::from_secs(600))
        .build();

    let o = obs.clone();
    sim.host("server", move || {
        let o = o.clone();
        async move {
            o.borrow_mut().starts += 1;
            let l = TcpListener::bind("0.0.0.0:80").await?;
            loop {
                let (mut s, _) = l.accept().await?;
                let o2 = o.clone();
                tokio::task::spawn_local(async move {
                    let mut buf = [0u8; 16];
                    match server {
                        ServerMode::NeverRead => {
                            // look at the first segment without consuming it, so
                            // the test knows when unread data sits in the socket
                            let _ = s.peek(&mut buf).await;
                            o2.borrow_mut().server_has_unread = true;
                            std::future::pending::<()>().await;
                            drop(s);
                        }
                        ServerMode::Drain => loop {
                            match s.read(&mut buf).await {
                                Ok(0) | Err(_) => break,
                                Ok(_) => {}
                            }
                        },
                        ServerMode::Source => loop {
                            if s.write_all(b"0123456789abcdef").await.is_err() {
                                break;
                            }
                        },
                        ServerMode::Echo => loop {
                            match s.read(&mut buf).await {
                                Ok(0) | Err(_) => break,
                                Ok(n) => {
                                    if s.write_all(&buf[..n]).await.is_err() {
                                        break;
                                    }
                                }
                            }
                        },
                    }
                });
            }
        }
    });

    let o = obs.clone();
    sim.host("peer", move || {
        let o = o.clone();
        async move {
            let mut s = match TcpStream::connect("server:80").await {
                Ok(s) => s,
                Err(e) => {
                    o.borrow_mut().peer_done = Some(format!("connect err {:?}", e.kind()));
                    std::future::pending::<()>().await;
                    unreachable!()
                }
            };
            o.borrow_mut().connected = true;
            let mut buf = [0u8; 16];
            let end = match peer {
                PeerMode::WriteOnly => loop {
                    if let Err(e) = s.write_all(b"0123456789abcdef").await {
                        break format!("write err {:?}", e.kind());
                    }
                },
                PeerMode::ReadOnly => loop {
                    match s.read(&mut buf).await {
                        Ok(0) => break "eof".to_string(),
                        Err(e) => break format!("read err {:?}", e.kind()),
                        Ok(_) => {}
                    }
                },
                PeerMode::Echo => loop {
                    if let Err(e) = s.write_all(b"0123456789abcdef").await {
                        break format!("write err {:?}", e.kind());
                    }
                    match s.read(&mut buf).await {
                        Ok(0) => break "eof".to_string(),
                        Err(e) => break format!("read err {:?}", e.kind()),
                        Ok(_) => {}
                    }
                },
            };
            o.borrow_mut().peer_done = Some(end);
            std::future::pending::<()>().await;
            Ok(())
        }
    });

    let o = obs.clone();
    sim.host("probe", move || {
        let o = o.clone();
        async move {
            loop {
                o.borrow_mut().server_streams = turmoil::established_tcp_stream_count_on("server");
                tokio::time::sleep(Duration::from_millis(1)).await;
            }
        }
    });

    sim
}

fn enumerate(server: ServerMode, peer: PeerMode, cap: usize) -> Vec<String> {
    let mut failures = vec![];
    for crash_after in 0..40 {
        let obs = Rc::new(RefCell::new(Obs::default()));
        let mut sim = build(server, peer, cap, obs.clone());
        for _ in 0..crash_after {
            sim.step().unwrap();
        }
        let connected_at_crash = obs.borrow().connected;
        let done_at_crash = obs.borrow().peer_done.clone();
        let starts_at_crash = obs.borrow().starts;
        // A peer that only writes learns about the crash through the reset
        // the crashed host sends for its unread data. If nothing was unread,
        // the peer's later segments sit at the dead host until the bounce
        // (allowed), so promptness is only demanded in the first case...
        let must_be_prompt = peer != PeerMode::WriteOnly || obs.borrow().server_has_unread;
        sim.crash("server");
        for _ in 0..100 {
            sim.step().unwrap();
        }
        {
            let o = obs.borrow();
            if o.server_streams != 0 {
                failures.push(format!(
                    "{server:?}/{peer:?} cap={cap} crash_after={crash_after}: server still holds {} streams",
                    o.server_streams
                ));
            }
            if must_be_prompt
                && connected_at_crash
                && done_at_crash.is_none()
                && o.peer_done.is_none()
            {
                failures.push(format!(
                    "{server:?}/{peer:?} cap={cap} crash_after={crash_after}: peer still blocked 100 steps after crash"
                ));
            }
            if o.starts != starts_at_crash {
                failures.push(format!(
                    "{server:?}/{peer:?} cap={cap} crash_after={crash_after}: starts={} while down",
                    o.starts
                ));
            }
        }
        // bounce: the port must bind again (else the host software errors out
        // of step()), exactly one start.
        sim.bounce("server");
        for _ in 0..100 {
            if let Err(e) = sim.step() {
                failures.push(format!(
                    "{server:?}/{peer:?} cap={cap} crash_after={crash_after}: step after bounce: {e}"
                ));
                break;
            }
        }
        let o = obs.borrow();
        if o.starts != starts_at_crash + 1 {
            failures.push(format!(
                "{server:?}/{peer:?} cap={cap} crash_after={crash_after}: starts={} after one bounce",
                o.starts
            ));
        }
        // ... but once the host is back every stale segment is answered with a
        // reset, so no peer may still be blocked.
        if connected_at_crash && done_at_crash.is_none() && o.peer_done.is_none() {
            failures.push(format!(
                "{server:?}/{peer:?} cap={cap} crash_after={crash_after}: peer still blocked 100 steps after bounce"
            ));
        }
    }
    failures
}

macro_rules! case {
    ($name:ident, $s:expr, $p:expr, $cap:expr) => {
        #[test]
        fn $name() -> Result {
            let f = enumerate($s, $p, $cap);
            assert!(f.is_empty(), "{} failures:\n{}", f.len(), f.join("\n"));
            Ok(())
        }
    };
}

case!(never_read_write_only_cap4, ServerMode::NeverRead, PeerMode::WriteOnly, 4);
case!(drain_write_only_cap4, ServerMode::Drain, PeerMode::WriteOnly, 4);
case!(drain_write_only_cap1, ServerMode::Drain, PeerMode::WriteOnly, 1);
case!(source_read_only_cap4, ServerMode::Source, PeerMode::ReadOnly, 4);
case!(echo_echo_cap4, ServerMode::Echo, PeerMode::Echo, 4);
case!(echo_echo_cap64, ServerMode::Echo, PeerMode::Echo, 64);
case!(never_read_echo_cap4, ServerMode::NeverRead, PeerMode::Echo, 4);
case!(source_write_only_cap4, ServerMode::Source, PeerMode::WriteOnly, 4);
