//! C05 audit: host code that runs while the host is crashed / bounced
//! (destructors of the software's state) must not see a time outside the
//! simulation's current time.

use std::sync::{Arc, Mutex};
use std::time::Duration;
use turmoil::Builder;

struct Guard {
    seen: Arc<Mutex<Vec<(Duration, Duration)>>>,
}

impl Drop for Guard {
    fn drop(&mut self) {
        // e.g. a "connection closed after X" log line / metrics flush
        if let Some(se) = turmoil::sim_elapsed() {
            self.seen.lock().unwrap().push((turmoil::elapsed(), se));
        }
    }
}

#[derive(Clone, Copy, PartialEq)]
enum Owner {
    /// guard owned by the software future itself (LocalSet task)
    Software,
    /// guard owned by a task the software started with tokio::spawn
    Spawned,
}

fn scenario(tick_ms: u64, steps: u32, bounce: bool) {
    scenario2(tick_ms, steps, bounce, Owner::Software, Duration::ZERO)
}

fn scenario2(tick_ms: u64, steps: u32, bounce: bool, owner: Owner, real_delay: Duration) {
    let tick = Duration::from_millis(tick_ms);
    let mut sim = Builder::new().tick_duration(tick).build();
    let seen = Arc::new(Mutex::new(vec![]));
    let seen2 = seen.clone();
    sim.host("h", move || {
        let g = Guard {
            seen: seen2.clone(),
        };
        async move {
            if owner == Owner::Spawned {
                tokio::spawn(async move {
                    let _g = g;
                    std::future::pending::<()>().await;
                });
                std::future::pending::<()>().await;
            } else {
                let _g = g;
                std::future::pending::<()>().await;
            }
            Ok(())
        }
    });
    for _ in 0..steps {
        sim.step().unwrap();
    }
    // the test thread is busy with something else (wall clock only)
    std::thread::sleep(real_delay);
    let now = sim.elapsed();
    assert_eq!(now, tick * steps);
    if bounce {
        sim.bounce("h");
    } else {
        sim.crash("h");
    }
    let seen = seen.lock().unwrap().clone();
    assert_eq!(seen.len(), 1, "destructor ran once with a current host");
    let (e, se) = seen[0];
    assert_eq!(
        (e, se),
        (now, now),
        "tick {tick:?}, {steps} steps, bounce={bounce}: destructor saw elapsed {e:?} / sim_elapsed {se:?} but Sim::elapsed() is {now:?}"
    );
}

#[test]
fn drop_on_crash_sees_sim_time() {
    scenario(5, 3, false);
}

#[test]
fn drop_on_bounce_sees_sim_time() {
    scenario(5, 3, true);
}

#[test]
fn drop_on_crash_sees_sim_time_big_tick() {
    scenario(1000, 2, false);
}

#[test]
fn drop_on_crash_spawned_task() {
    scenario2(5, 3, false, Owner::Spawned, Duration::ZERO);
}

#[test]
fn drop_on_bounce_spawned_task() {
    scenario2(5, 3, true, Owner::Spawned, Duration::ZERO);
}

#[test]
fn drop_on_crash_after_wall_clock_delay() {
    scenario2(5, 3, false, Owner::Software, Duration::from_millis(60));
}

#[test]
fn drop_on_bounce_after_wall_clock_delay() {
    scenario2(5, 3, true, Owner::Software, Duration::from_millis(60));
}

/// The host is crashed before it ever ran (as in the suite's own
/// `elapsed_time_across_crashes`): `sim_elapsed` is documented to return
/// `None` when the time is not available, and the time here is simply zero.
#[test]
fn drop_on_crash_before_first_step() {
    scenario2(5, 0, false, Owner::Software, Duration::ZERO);
}

/// All observations one host makes of its own clock, in program order, across
/// a bounce: must be monotone.
#[test]
fn host_clock_is_monotone_across_bounce() {
    let tick = Duration::from_millis(5);
    let mut sim = Builder::new().tick_duration(tick).build();
    let log: Arc<Mutex<Vec<(&'static str, Duration)>>> = Arc::new(Mutex::new(vec![]));

    struct Conn(Arc<Mutex<Vec<(&'static str, Duration)>>>);
    impl Drop for Conn {
        fn drop(&mut self) {
            self.0.lock().unwrap().push(("closed", turmoil::elapsed()));
        }
    }

    let log2 = log.clone();
    sim.host("h", move || {
        let log = log2.clone();
        async move {
            log.lock().unwrap().push(("started", turmoil::elapsed()));
            let conn = Conn(log.clone());
            tokio::spawn(async move {
                let _conn = conn;
                std::future::pending::<()>().await;
            });
            std::future::pending::<()>().await;
            Ok(())
        }
    });
    for _ in 0..3 {
        sim.step().unwrap();
    }
    sim.bounce("h");
    sim.step().unwrap();

    let log = log.lock().unwrap().clone();
    assert_eq!(log.len(), 3, "{log:?}");
    assert!(
        log.windows(2).all(|w| w[0].1 <= w[1].1),
        "host clock went backwards: {log:?}"
    );
}
