//! Audit C08 / F1: messages that the link has already *staged* for delivery
//! (moved from `Link::sent` into `Link::deliverable`) but that have not yet
//! been handed to the destination host are invisible to `hold` and to the
//! links iterator. They are delivered while the hold lasts.

use std::{
    cell::{Cell, RefCell},
    future,
    rc::Rc,
    time::Duration,
};

use tokio::io::{AsyncReadExt, AsyncWriteExt};
use turmoil::{
    net::{TcpListener, TcpStream, UdpSocket},
    Builder, Result, Sim,
};

const PORT: u16 = 9000;

fn in_flight(sim: &Sim<'_>) -> usize {
    let mut n = 0;
    sim.links(|links| {
        for link in links {
            n += link.count();
        }
    });
    n
}

/// Default configuration (latency 0..100ms, Exp(5)). "b" sends N datagrams to
/// "a" in one step, then the test holds the link *between steps* from the Sim
/// handle. Everything that "a" has not received yet is in flight, so it must
/// (1) be visible through `Sim::links`, (2) not be delivered during the hold
/// and (3) be delivered exactly once and in order after the release.
#[test]
fn f1_default_latency_sim_hold_between_steps_udp() -> Result {
    const N: usize = 60;

    // Default link configuration; the seed is pinned only to make the run
    // reproducible (roughly 5% of the default latencies round down to 0 ms,
    // so about 95% of all seeds fail with N = 60).
    let mut sim = Builder::new().rng_seed(8).build();

    let got: Rc<RefCell<Vec<u8>>> = Rc::new(RefCell::new(Vec::new()));
    let sent = Rc::new(Cell::new(false));

    // "a" is registered first, so it runs first in every step.
    let got_a = got.clone();
    sim.host("a", move || {
        let got = got_a.clone();
        async move {
            let sock = UdpSocket::bind(("0.0.0.0", PORT)).await?;
            let mut buf = [0u8; 8];
            loop {
                let (n, _) = sock.recv_from(&mut buf).await?;
                assert_eq!(n, 1);
                got.borrow_mut().push(buf[0]);
            }
        }
    });

    let sent_b = sent.clone();
    sim.client("b", async move {
        let sock = UdpSocket::bind(("0.0.0.0", PORT)).await?;
        tokio::time::sleep(Duration::from_millis(5)).await;
        for i in 0..N {
            sock.send_to(&[i as u8], ("a", PORT)).await?;
        }
        sent_b.set(true);
        future::pending::<()>().await;
        Ok(())
    });

    while !sent.get() {
        sim.step()?;
    }

    // "a" ran before "b" in this step, so it has not received anything.
    assert_eq!(got.borrow().len(), 0);

    sim.hold("a", "b");

    let visible = in_flight(&sim);

    // Far longer than the maximum latency.
    for _ in 0..300 {
        sim.step()?;
    }
    let during_hold = got.borrow().clone();

    sim.release("a", "b");
    for _ in 0..5 {
        sim.step()?;
    }
    let all = got.borrow().clone();

    // exactly once, in order, after the release
    assert_eq!(all.len(), N, "lost or duplicated datagrams");

    assert!(
        during_hold.is_empty(),
        "datagrams {during_hold:?} were delivered while the link was held \
         (links iterator showed {visible} of {N} in-flight messages)"
    );
    assert_eq!(visible, N, "links iterator must show every in-flight message");
    assert_eq!(all, (0..N as u8).collect::<Vec<_>>());
    Ok(())
}

/// Same as above over an established TCP connection, with the latency pinned
/// to zero so that the scenario is deterministic.
#[test]
fn f1_zero_latency_sim_hold_between_steps_tcp() -> Result {
    let mut sim = Builder::new()
        .min_message_latency(Duration::ZERO)
        .max_message_latency(Duration::ZERO)
        .build();

    let got: Rc<RefCell<Vec<u8>>> = Rc::new(RefCell::new(Vec::new()));
    let sent = Rc::new(Cell::new(false));

    let got_a = got.clone();
    sim.host("a", move || {
        let got = got_a.clone();
        async move {
            let l = TcpListener::bind(("0.0.0.0", PORT)).await?;
            let (mut s, _) = l.accept().await?;
            loop {
                let b = s.read_u8().await?;
                got.borrow_mut().push(b);
            }
        }
    });

    let sent_b = sent.clone();
    sim.client("b", async move {
        let mut s = TcpStream::connect(("a", PORT)).await?;
        tokio::time::sleep(Duration::from_millis(5)).await;
        s.write_u8(42).await?;
        sent_b.set(true);
        future::pending::<()>().await;
        Ok(())
    });

    while !sent.get() {
        sim.step()?;
    }
    assert!(got.borrow().is_empty());

    sim.hold("a", "b");
    let visible = in_flight(&sim);

    for _ in 0..50 {
        sim.step()?;
    }
    let during_hold = got.borrow().clone();

    sim.release("a", "b");
    for _ in 0..5 {
        sim.step()?;
    }
    assert_eq!(*got.borrow(), vec![42], "exactly once");

    assert!(
        during_hold.is_empty(),
        "segment delivered while the link was held (links iterator showed {visible} of 1)"
    );
    assert_eq!(visible, 1);
    Ok(())
}

/// Hold from inside host code, strictly positive fixed latency. "a" sends one
/// datagram to "b", sleeps `k` ms and holds the link. Whatever `k` is, either
/// "b" already has the datagram when the hold is placed, or it must not see it
/// until the release.
#[test]
fn f1_hold_from_host_code_positive_latency() -> Result {
    let mut bad = vec![];

    for k in 0..=6u64 {
        let mut sim = Builder::new()
            .min_message_latency(Duration::from_millis(3))
            .max_message_latency(Duration::from_millis(3))
            .build();

        // 0 = not held yet, 1 = held, 2 = released
        let state = Rc::new(Cell::new(0u8));
        let seen_in_state = Rc::new(Cell::new(None::<u8>));

        let (st, seen) = (state.clone(), seen_in_state.clone());
        // "a" registered first: runs before "b" in each step.
        sim.client("a", async move {
            let sock = UdpSocket::bind(("0.0.0.0", PORT)).await?;
            sock.send_to(&[1], ("b", PORT)).await?;
            tokio::time::sleep(Duration::from_millis(k)).await;
            if seen.get().is_none() {
                turmoil::hold("a", "b");
                st.set(1);
                tokio::time::sleep(Duration::from_millis(500)).await;
                st.set(2);
                turmoil::release("a", "b");
            }
            tokio::time::sleep(Duration::from_millis(50)).await;
            Ok(())
        });

        let (st, seen) = (state.clone(), seen_in_state.clone());
        sim.client("b", async move {
            let sock = UdpSocket::bind(("0.0.0.0", PORT)).await?;
            let mut buf = [0u8; 8];
            sock.recv_from(&mut buf).await?;
            seen.set(Some(st.get()));
            Ok(())
        });

        sim.run()?;

        if seen_in_state.get() == Some(1) {
            bad.push(k);
        }
    }

    assert!(
        bad.is_empty(),
        "for sleep(k ms) with k in {bad:?} the datagram was not yet received when \
         hold() was called, and was delivered while the hold lasted"
    );
    Ok(())
}

/// No hold involved: the links iterator alone. With the latency pinned to
/// zero, a datagram sent by the host that runs last in a step is in flight
/// between that step and the next one (the receiver has not been given it
/// yet), so `Sim::links` must show it - and `SentRef::deliver` / a hold must be
/// able to act on it.
#[test]
fn f1_links_iterator_misses_staged_message() -> Result {
    let mut sim = Builder::new()
        .min_message_latency(Duration::ZERO)
        .max_message_latency(Duration::ZERO)
        .build();

    let got: Rc<RefCell<Vec<u8>>> = Rc::new(RefCell::new(Vec::new()));
    let sent = Rc::new(Cell::new(false));

    let got_a = got.clone();
    sim.host("a", move || {
        let got = got_a.clone();
        async move {
            let sock = UdpSocket::bind(("0.0.0.0", PORT)).await?;
            let mut buf = [0u8; 8];
            loop {
                sock.recv_from(&mut buf).await?;
                got.borrow_mut().push(buf[0]);
            }
        }
    });

    let sent_b = sent.clone();
    sim.client("b", async move {
        let sock = UdpSocket::bind(("0.0.0.0", PORT)).await?;
        tokio::time::sleep(Duration::from_millis(5)).await;
        sock.send_to(&[9], ("a", PORT)).await?;
        sent_b.set(true);
        future::pending::<()>().await;
        Ok(())
    });

    while !sent.get() {
        sim.step()?;
    }

    // sent, not received: in flight
    assert!(got.borrow().is_empty());
    assert_eq!(
        in_flight(&sim),
        1,
        "one datagram was sent and has not been received, the links iterator must show it"
    );
    Ok(())
}
