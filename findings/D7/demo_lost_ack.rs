//! Demonstration of defect D7 (C06): a single lost pure ACK aborts a healthy connection.
//! Copy to crates/turmoil-net/tests/demo_lost_ack.rs and run
//!   cargo test -p turmoil-net --offline --test demo_lost_ack
//! Before the repair the receiver answered only segments it accepted: a retransmission of bytes it already held (its ACK
//! was lost) got no reply, so the sender retransmitted until its budget was exhausted and aborted with TimedOut although
//! every byte had been delivered and exactly ONE packet was lost.  Same for the handshake ACK and for the ACK of a FIN.

use std::time::Duration;

use tokio::io::{AsyncReadExt, AsyncWriteExt};
use turmoil_net::fixture::ClientServer;
use turmoil_net::shim::tokio::net::{TcpListener, TcpStream};
use turmoil_net::{rule, Packet, Transport, Verdict};

const PORT: u16 = 9000;

/// Drops the first segment matching `pred`, passes everything else.
fn drop_first(mut pred: impl FnMut(&Packet, &turmoil_net::TcpSegment) -> bool + 'static) -> impl FnMut(&Packet) -> Verdict {
    let mut done = false;
    move |pkt: &Packet| {
        if let Transport::Tcp(s) = &pkt.payload {
            if !done && pred(pkt, s) {
                done = true;
                return Verdict::Drop;
            }
        }
        Verdict::Pass
    }
}

#[test]
fn lost_ack_of_data_does_not_abort_an_idle_connection() {
    ClientServer::new()
        .server("server", async move {
            let l = TcpListener::bind(("0.0.0.0", PORT)).await.unwrap();
            let (mut s, _) = l.accept().await.unwrap();
            let mut buf = [0u8; 10];
            s.read_exact(&mut buf).await.unwrap();
            assert_eq!(&buf, b"helloworld");
            std::future::pending::<()>().await;
        })
        .run("client", async move {
            // the first pure ACK server -> client: it acknowledges "hello"
            rule(drop_first(|_, s| s.src_port == PORT && s.flags.ack && !s.flags.syn && !s.flags.fin && s.payload.is_empty())).forget();
            let mut c = TcpStream::connect(("server", PORT)).await.unwrap();
            c.write_all(b"hello").await.unwrap();
            // idle long enough for any retransmit budget to run out
            tokio::time::sleep(Duration::from_secs(5)).await;
            c.write_all(b"world").await.expect("one lost ACK must not abort the connection");
            tokio::time::sleep(Duration::from_secs(1)).await;
        });
}

#[test]
fn lost_handshake_ack_does_not_lose_the_connection() {
    ClientServer::new()
        .server("server", async move {
            let l = TcpListener::bind(("0.0.0.0", PORT)).await.unwrap();
            let (mut s, _) = l.accept().await.unwrap();
            s.write_all(b"hello").await.unwrap();
            std::future::pending::<()>().await;
        })
        .run("client", async move {
            // the handshake ACK: first pure ACK client -> server
            rule(drop_first(|_, s| s.dst_port == PORT && s.flags.ack && !s.flags.syn && !s.flags.fin && s.payload.is_empty())).forget();
            let mut c = TcpStream::connect(("server", PORT)).await.unwrap();
            let mut buf = [0u8; 5];
            // server speaks first
            let r = tokio::time::timeout(Duration::from_secs(10), c.read_exact(&mut buf)).await;
            assert!(matches!(r, Ok(Ok(_))), "one lost handshake ACK must not lose the connection: {r:?}");
            assert_eq!(&buf, b"hello");
        });
}

/// No loss at all: a 5 ms one-way latency (round trip ~10 egress rounds, far below retx_threshold * (retx_max + 1) = 18).
/// Before the repair the SYN's retransmit attempts were carried over into the established connection, so the first data
/// segment had only two attempts left and the connection was aborted with TimedOut before its ACK could arrive.
#[test]
fn handshake_retransmits_do_not_eat_the_data_retransmit_budget() {
    use turmoil_net::Latency;
    ClientServer::new()
        .server("server", async move {
            let l = TcpListener::bind(("0.0.0.0", PORT)).await.unwrap();
            let (mut s, _) = l.accept().await.unwrap();
            let mut buf = [0u8; 10];
            s.read_exact(&mut buf).await.unwrap();
            assert_eq!(&buf, b"helloworld");
            std::future::pending::<()>().await;
        })
        .run("client", async move {
            rule(Latency::fixed(Duration::from_millis(5))).forget();
            let mut c = TcpStream::connect(("server", PORT)).await.unwrap();
            c.write_all(b"hello").await.unwrap();
            tokio::time::sleep(Duration::from_millis(200)).await;
            c.write_all(b"world").await.expect("a 10-round RTT must not exhaust the retransmit budget");
            tokio::time::sleep(Duration::from_millis(200)).await;
        });
}
