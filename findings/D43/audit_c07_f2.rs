//! Audit C07 / F2: `sync_dir(d)` makes `d`'s own (pending) creation durable
//! but leaves an earlier pending `RemoveFile(d)` / `Rename { from: d }` of a
//! regular file that used to have that name in the queue.  When the parent is
//! synced later, that stale op deletes the durable entry of the directory.
//! (Variant of the repaired "sync_dir(d) flushing d's creation past a pending
//! RemoveDir(d)".)
//!
//! Destination: crates/turmoil/tests/audit_c07_f2.rs
//! Run: CARGO_TARGET_DIR=/tmp/wt6/C07/target cargo test --offline -p turmoil \
//!        --features unstable-fs --test audit_c07_f2
#![cfg(feature = "unstable-fs")]

use std::os::unix::fs::FileExt;
use std::sync::{Arc, Mutex};
use std::time::Duration;
use turmoil::fs::shim::std::fs::{
    self as sfs, create_dir, read, remove_file, rename, sync_dir, File, OpenOptions,
};
use turmoil::fs::{enter, EnterCtx, Fs, FsConfig};

fn with_fs<R>(f: impl FnOnce(&dyn Fn()) -> R) -> R {
    let arc = Arc::new(Mutex::new(Fs::new(FsConfig::default(), 7)));
    let _g = enter(
        &arc,
        EnterCtx {
            now: Duration::from_secs(1),
            on_corruption: None,
        },
    );
    let a2 = arc.clone();
    let crash = move || a2.lock().unwrap().crash();
    f(&crash)
}

fn durable_file(path: &str, parent: &str, data: &[u8]) {
    let f = OpenOptions::new()
        .write(true)
        .create_new(true)
        .open(path)
        .unwrap();
    f.write_all_at(data, 0).unwrap();
    f.sync_all().unwrap();
    sync_dir(parent).unwrap();
}

fn is_dir(p: &str) -> bool {
    sfs::metadata(p).map(|m| m.is_dir()).unwrap_or(false)
}

/// A durable regular file is removed, a directory of the same name is created
/// and synced (itself, then its parent), a file is created and synced inside.
#[test]
fn a_directory_takes_the_name_of_a_removed_file() {
    with_fs(|crash| {
        durable_file("/x", "/", b"F");
        remove_file("/x").unwrap();
        create_dir("/x").unwrap();
        sync_dir("/x").unwrap();
        let f = File::create("/x/inner").unwrap();
        f.write_all_at(b"data", 0).unwrap();
        f.sync_all().unwrap();
        sync_dir("/x").unwrap();
        sync_dir("/").unwrap();
        crash();
        assert!(
            is_dir("/x"),
            "directory /x was synced (itself and its parent) but is gone after the crash"
        );
        assert_eq!(read("/x/inner").unwrap(), b"data");
    });
}

/// Same with the file renamed away instead of removed.
#[test]
fn b_directory_takes_the_name_of_a_renamed_file() {
    with_fs(|crash| {
        durable_file("/x", "/", b"F");
        rename("/x", "/y").unwrap();
        create_dir("/x").unwrap();
        sync_dir("/x").unwrap();
        sync_dir("/").unwrap();
        crash();
        assert_eq!(read("/y").unwrap(), b"F");
        assert!(
            is_dir("/x"),
            "directory /x was synced (itself and its parent) but is gone after the crash"
        );
    });
}
