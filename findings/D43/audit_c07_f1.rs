//! Audit C07 / F1: `sync_dir` flushes a rename across directories (and the
//! ops of the directory being synced) without the earlier pending namespace
//! ops on the same names that live in the *other* directory.  The rename then
//! jumps over the pending creation of its source, over an earlier pending
//! removal of its target, or over the first half of a rename chain, and the
//! durable image (and already the live view) is wrong.
//!
//! Destination: crates/turmoil/tests/audit_c07_f1.rs
//! Run: CARGO_TARGET_DIR=/tmp/wt6/C07/target cargo test --offline -p turmoil \
//!        --features unstable-fs --test audit_c07_f1
#![cfg(feature = "unstable-fs")]

use std::os::unix::fs::FileExt;
use std::sync::atomic::{AtomicUsize, Ordering};
use std::sync::{Arc, Mutex};
use std::time::Duration;
use tokio::sync::Notify;
use turmoil::fs::shim::std::fs::{
    self as sfs, create_dir, read, remove_file, rename, sync_dir, File, OpenOptions,
};
use turmoil::fs::{enter, EnterCtx, Fs, FsConfig};

/// Run `f` against a fresh, entered `Fs`; `f` gets a closure that crashes it.
fn with_fs<R>(f: impl FnOnce(&dyn Fn()) -> R) -> R {
    let arc = Arc::new(Mutex::new(Fs::new(FsConfig::default(), 7)));
    let _g = enter(
        &arc,
        EnterCtx {
            now: Duration::from_secs(1),
            on_corruption: None,
        },
    );
    let a2 = arc.clone();
    let crash = move || a2.lock().unwrap().crash();
    f(&crash)
}

fn durable_dirs(dirs: &[&str]) {
    for d in dirs {
        create_dir(d).unwrap();
    }
    sync_dir("/").unwrap();
    for d in dirs {
        sync_dir(d).unwrap();
    }
}

fn durable_file(path: &str, parent: &str, data: &[u8]) {
    let f = OpenOptions::new()
        .write(true)
        .create_new(true)
        .open(path)
        .unwrap();
    f.write_all_at(data, 0).unwrap();
    f.sync_all().unwrap();
    sync_dir(parent).unwrap();
}

/// A new file is created in /d1, renamed into /d2, and /d2 is synced.  The
/// entry /d2/b was made durable by syncing its parent directory, so the file
/// has to be present after the crash (empty: its data was never synced).
#[test]
fn a_rename_into_synced_dir_of_unsynced_create() {
    with_fs(|crash| {
        durable_dirs(&["/d1", "/d2"]);
        let f = File::create("/d1/a").unwrap();
        f.write_all_at(b"payload", 0).unwrap();
        drop(f);
        rename("/d1/a", "/d2/b").unwrap();
        sync_dir("/d2").unwrap();
        crash();
        assert!(
            sfs::exists("/d2/b"),
            "/d2/b: entry was made durable by sync_dir(/d2) but is gone after the crash"
        );
        assert!(!sfs::exists("/d1/a"));
    });
}

/// Atomic publish through a staging directory, everything synced: file data,
/// destination directory, staging directory.  After the crash the file must
/// be at the destination only.
#[test]
fn b_publish_from_staging_dir_leaves_no_ghost() {
    with_fs(|crash| {
        durable_dirs(&["/tmp", "/data"]);
        let f = File::create("/tmp/x").unwrap();
        f.write_all_at(b"payload", 0).unwrap();
        f.sync_all().unwrap();
        drop(f);
        rename("/tmp/x", "/data/x").unwrap();
        sync_dir("/data").unwrap();
        sync_dir("/tmp").unwrap();
        crash();
        assert_eq!(read("/data/x").unwrap(), b"payload");
        assert!(
            !sfs::exists("/tmp/x"),
            "/tmp/x was durably renamed away but exists after the crash"
        );
    });
}

/// Two durable files.  The target is removed, the other file is renamed onto
/// its name from another directory; source directory synced, then destination
/// directory synced.  The renamed file (synced data!) must survive.
#[test]
fn c_remove_target_then_rename_onto_it_loses_synced_file() {
    with_fs(|crash| {
        durable_dirs(&["/d1", "/d2"]);
        durable_file("/d1/a", "/d1", b"AAAA");
        durable_file("/d2/b", "/d2", b"BBBB");

        remove_file("/d2/b").unwrap();
        rename("/d1/a", "/d2/b").unwrap();
        sync_dir("/d1").unwrap();
        sync_dir("/d2").unwrap();
        crash();
        assert!(
            sfs::exists("/d2/b"),
            "synced file AAAA lost: /d2/b absent (and /d1/a present: {})",
            sfs::exists("/d1/a")
        );
        assert_eq!(read("/d2/b").unwrap(), b"AAAA");
        assert!(!sfs::exists("/d1/a"));
    });
}

/// Rename chain over three directories; only the last directory is synced.
#[test]
fn d_rename_chain_sync_last_dir() {
    with_fs(|crash| {
        durable_dirs(&["/d1", "/d2", "/d3"]);
        durable_file("/d1/a", "/d1", b"AAAA");
        rename("/d1/a", "/d2/a").unwrap();
        rename("/d2/a", "/d3/a").unwrap();
        sync_dir("/d3").unwrap();
        crash();
        assert!(sfs::exists("/d3/a"), "/d3/a synced but absent after crash");
        assert_eq!(read("/d3/a").unwrap(), b"AAAA");
    });
}

/// Scenarios b and c again, on two hosts of a running simulation, through
/// `Sim::crash` / `Sim::bounce`.
#[test]
fn e_through_sim_crash_and_bounce() -> turmoil::Result {
    let mut sim = turmoil::Builder::new().build();
    let phase = Arc::new(AtomicUsize::new(0));
    let dones = [Arc::new(Notify::new()), Arc::new(Notify::new())];
    type Seen = Arc<Mutex<Vec<(String, Option<Vec<u8>>)>>>;
    let seen: Seen = Arc::new(Mutex::new(vec![]));

    for (i, host) in ["publisher", "replacer"].into_iter().enumerate() {
        let (phase, done, seen) = (phase.clone(), dones[i].clone(), seen.clone());
        sim.host(host, move || {
            let (phase, done, seen) = (phase.clone(), done.clone(), seen.clone());
            async move {
                if phase.load(Ordering::SeqCst) == 0 {
                    if host == "publisher" {
                        durable_dirs(&["/tmp", "/data"]);
                        let f = File::create("/tmp/x").unwrap();
                        f.write_all_at(b"payload", 0).unwrap();
                        f.sync_all().unwrap();
                        drop(f);
                        rename("/tmp/x", "/data/x").unwrap();
                        sync_dir("/data").unwrap();
                        sync_dir("/tmp").unwrap();
                    } else {
                        durable_dirs(&["/d1", "/d2"]);
                        durable_file("/d1/a", "/d1", b"AAAA");
                        durable_file("/d2/b", "/d2", b"BBBB");
                        remove_file("/d2/b").unwrap();
                        rename("/d1/a", "/d2/b").unwrap();
                        sync_dir("/d1").unwrap();
                        sync_dir("/d2").unwrap();
                    }
                } else {
                    let paths: &[&str] = if host == "publisher" {
                        &["/tmp/x", "/data/x"]
                    } else {
                        &["/d1/a", "/d2/b"]
                    };
                    for p in paths {
                        seen.lock()
                            .unwrap()
                            .push((format!("{host}:{p}"), read(p).ok()));
                    }
                }
                done.notify_one();
                std::future::pending::<()>().await;
                Ok(())
            }
        });
    }
    for round in 0..2 {
        let d = dones.clone();
        sim.client(format!("wait{round}"), async move {
            d[0].notified().await;
            d[1].notified().await;
            Ok(())
        });
        sim.run()?;
        if round == 0 {
            sim.crash("publisher");
            sim.crash("replacer");
            phase.store(1, Ordering::SeqCst);
            sim.bounce("publisher");
            sim.bounce("replacer");
        }
    }
    let mut got = seen.lock().unwrap().clone();
    got.sort();
    let expect: Vec<(String, Option<Vec<u8>>)> = vec![
        ("publisher:/data/x".into(), Some(b"payload".to_vec())),
        ("publisher:/tmp/x".into(), None),
        ("replacer:/d1/a".into(), None),
        ("replacer:/d2/b".into(), Some(b"AAAA".to_vec())),
    ];
    assert_eq!(got, expect, "post-crash image differs from the durable image");
    Ok(())
}
