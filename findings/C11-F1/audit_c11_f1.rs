//! Audit C11 / F1 - a client registered after the simulation duration was
//! exceeded still lets `Sim::run` return Ok when it completes within its first
//! step.
//!
//! Destination: crates/turmoil/tests/audit_c11_f1.rs
//! Command:     cd /tmp/wt3/C11 && CARGO_TARGET_DIR=/tmp/wt3/C11/target \
//!              cargo test --offline -p turmoil --test audit_c11_f1

use std::time::Duration;

use turmoil::Builder;

/// FAILS on the unmodified tree.
#[test]
fn client_registered_after_the_duration_was_exceeded() {
    let mut sim = Builder::new()
        .tick_duration(Duration::from_millis(4))
        .simulation_duration(Duration::from_millis(10))
        .build();
    sim.client("a", async {
        tokio::time::sleep(Duration::from_millis(11)).await;
        Ok(())
    });
    // a finishes within the step that crosses the duration ((8ms, 12ms]): in
    // time according to the step granularity rule.
    sim.run().unwrap();
    assert_eq!(sim.elapsed(), Duration::from_millis(12));
    // burn more virtual time: 40ms, four times the duration. All clients are
    // done, so step keeps reporting completion.
    for _ in 0..7 {
        assert!(sim.step().unwrap());
    }
    assert_eq!(sim.elapsed(), Duration::from_millis(40));

    // b needs 3ms of virtual time, all of it long after the duration elapsed
    sim.client("b", async {
        tokio::time::sleep(Duration::from_millis(3)).await;
        Ok(())
    });
    let r = sim.run();
    assert!(
        r.is_err(),
        "client b ran from 40ms to 43ms of a 10ms simulation, run returned {r:?} (elapsed {:?})",
        sim.elapsed()
    );
}

/// Control (passes on the unmodified tree): the same late client with two
/// more milliseconds of work is reported as a timeout. Whether a late client
/// is accepted therefore depends on whether it fits into one tick.
#[test]
fn late_client_needing_two_steps_is_a_timeout() {
    let mut sim = Builder::new()
        .tick_duration(Duration::from_millis(4))
        .simulation_duration(Duration::from_millis(10))
        .build();
    sim.client("a", async { Ok(()) });
    sim.run().unwrap();
    for _ in 0..9 {
        assert!(sim.step().unwrap());
    }
    assert_eq!(sim.elapsed(), Duration::from_millis(40));
    sim.client("b", async {
        tokio::time::sleep(Duration::from_millis(5)).await;
        Ok(())
    });
    assert!(sim.run().is_err());
}

/// The shortest form, without manual stepping: the first run ends in the step
/// that crosses the duration, the second run starts after it.
/// FAILS on the unmodified tree.
#[test]
fn second_run_after_first_run_ended_in_the_crossing_step() {
    let mut sim = Builder::new()
        .tick_duration(Duration::from_millis(7))
        .simulation_duration(Duration::from_millis(36))
        .build();
    sim.client("a", async {
        tokio::time::sleep(Duration::from_millis(38)).await;
        Ok(())
    });
    sim.run().unwrap();
    assert_eq!(sim.elapsed(), Duration::from_millis(42)); // > 36ms
    sim.client("b", async { Ok(()) });
    let r = sim.run();
    assert!(r.is_err(), "b started at 42ms > 36ms, run returned {r:?}");
}
