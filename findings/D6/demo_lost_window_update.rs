//! Demonstration of the recorded finding C06 / D6, second face: one lost window update stalls the connection for good.
//! Copy to crates/turmoil-net/tests/demo_lost_window_update.rs and run
//!   cargo test -p turmoil-net --offline --test demo_lost_window_update
//! The reader empties its full receive buffer with ONE large read (>= recv_buf_cap / 2), so `poll_recv` does emit a window
//! update - and that single pure ACK is dropped by a rule (1 lost packet, far below the retransmit budget).  Pure ACKs are not
//! retransmitted and the sender has no persist timer / zero-window probe, so it never learns that the window re-opened.
//! The test asserts what C06 promises under bounded loss and FAILS on the unmodified tree.

use std::cell::Cell;
use std::rc::Rc;
use std::time::Duration;

use tokio::io::{AsyncReadExt, AsyncWriteExt};
use turmoil_net::fixture::ClientServer;
use turmoil_net::shim::tokio::net::{TcpListener, TcpStream};
use turmoil_net::{rule, KernelConfig, Packet, Transport, Verdict};

const PORT: u16 = 9000;
const RECV_CAP: usize = 8;
const TOTAL: usize = 32;

#[test]
fn one_lost_window_update_does_not_stall_the_sender() {
    let cfg = KernelConfig::default().recv_buf_cap(RECV_CAP);
    let got = Rc::new(Cell::new(0usize));
    let got2 = got.clone();
    let done = Rc::new(Cell::new(false));
    let done2 = done.clone();
    let dropped = Rc::new(Cell::new(0usize));
    let dropped2 = dropped.clone();

    ClientServer::with_config(cfg)
        .server("server", async move {
            let l = TcpListener::bind(("0.0.0.0", PORT)).await.unwrap();
            let (mut s, _) = l.accept().await.unwrap();
            // let the sender fill the 8-byte receive buffer: the last ACK advertises window 0
            tokio::time::sleep(Duration::from_millis(10)).await;
            let mut buf = [0u8; RECV_CAP];
            loop {
                let n = s.read(&mut buf).await.unwrap();
                if n == 0 {
                    break;
                }
                got2.set(got2.get() + n);
            }
            done2.set(true);
            std::future::pending::<()>().await;
        })
        .run("client", async move {
            // drop exactly one packet: the first pure ACK from the server that re-opens a closed window
            let mut saw_zero = false;
            rule(move |pkt: &Packet| {
                let Transport::Tcp(s) = &pkt.payload else {
                    return Verdict::Pass;
                };
                if s.src_port == PORT && s.flags.ack && !s.flags.syn && !s.flags.fin && s.payload.is_empty() {
                    if s.window == 0 {
                        saw_zero = true;
                    } else if saw_zero && dropped2.get() == 0 {
                        dropped2.set(1);
                        return Verdict::Drop;
                    }
                }
                Verdict::Pass
            })
            .forget();
            let mut c = TcpStream::connect(("server", PORT)).await.unwrap();
            let payload = [7u8; TOTAL];
            let _ = tokio::time::timeout(Duration::from_secs(5), async {
                c.write_all(&payload).await.unwrap();
                c.shutdown().await.unwrap();
                while !done.get() {
                    tokio::time::sleep(Duration::from_millis(1)).await;
                }
            })
            .await;
            assert_eq!(dropped.get(), 1, "the scenario needs exactly one dropped window update");
            assert_eq!(
                (got.get(), done.get()),
                (TOTAL, true),
                "reader got {} of {} bytes and EOF={} after 5 simulated seconds with ONE lost packet",
                got.get(),
                TOTAL,
                done.get()
            );
        });
}
