//! Demonstration of the recorded finding C06 / D6 (zero-window stall) against the real stack.
//! Copy to crates/turmoil-net/tests/demo_zero_window_stall.rs and run
//!   cargo test -p turmoil-net --offline --test demo_zero_window_stall
//! No packet is dropped, delayed or reordered.  The reader drains its full receive buffer in reads that are each smaller than
//! recv_buf_cap / 2, so `poll_recv` never re-advertises the window; the sender, told `window = 0` by the last ACK and with
//! nothing in flight, has no persist / zero-window probe and waits forever.  The test asserts what C06 promises (every byte
//! and EOF arrive) and FAILS on the unmodified tree by hitting its step budget.

use std::cell::Cell;
use std::rc::Rc;
use std::time::Duration;

use tokio::io::{AsyncReadExt, AsyncWriteExt};
use turmoil_net::fixture::ClientServer;
use turmoil_net::shim::tokio::net::{TcpListener, TcpStream};
use turmoil_net::KernelConfig;

const RECV_CAP: usize = 8;
const TOTAL: usize = 32;

#[test]
fn small_reads_of_a_full_window_do_not_stall_the_sender() {
    let cfg = KernelConfig::default().recv_buf_cap(RECV_CAP);
    let got = Rc::new(Cell::new(0usize));
    let got2 = got.clone();
    let done = Rc::new(Cell::new(false));
    let done2 = done.clone();

    ClientServer::with_config(cfg)
        .server("server", async move {
            let l = TcpListener::bind("0.0.0.0:9000").await.unwrap();
            let (mut s, _) = l.accept().await.unwrap();
            // let the sender fill the 8-byte receive buffer (last ACK advertises window 0)
            tokio::time::sleep(Duration::from_millis(10)).await;
            let mut one = [0u8; 1];
            loop {
                let n = s.read(&mut one).await.unwrap();
                if n == 0 {
                    break;
                }
                got2.set(got2.get() + n);
            }
            done2.set(true);
            std::future::pending::<()>().await;
        })
        .run("client", async move {
            let mut c = TcpStream::connect("server:9000").await.unwrap();
            let payload = [7u8; TOTAL];
            let writer = async {
                c.write_all(&payload).await.unwrap();
                c.shutdown().await.unwrap();
            };
            // generous budget: 5 simulated seconds for 32 bytes on a lossless link
            let _ = tokio::time::timeout(Duration::from_secs(5), async {
                writer.await;
                while !done.get() {
                    tokio::time::sleep(Duration::from_millis(1)).await;
                }
            })
            .await;
            assert_eq!(
                (got.get(), done.get()),
                (TOTAL, true),
                "reader got {} of {} bytes and EOF={} after 5 simulated seconds on a lossless link",
                got.get(),
                TOTAL,
                done.get()
            );
        });
}
