//! C10-F1: bytes cut off by a truncation come back when the file is extended
//! again (set_len shrink then extend, or a write past the new EOF), as long
//! as the operations are still pending; sync_all then changes the contents.
#![cfg(feature = "unstable-fs")]
use std::os::unix::fs::FileExt;
use turmoil::fs::shim::std::fs::{read, sync_dir, File, OpenOptions};
use turmoil::Builder;

fn rw(p: &str) -> std::io::Result<File> {
    OpenOptions::new().read(true).write(true).create(true).open(p)
}

/// set_len(2) then set_len(8) over 8 unsynced bytes: POSIX gives "AB" + 6 NULs.
#[test]
fn shrink_then_extend_reads_zeros() {
    let mut sim = Builder::new().build();
    sim.client("t", async {
        let f = rw("/a")?;
        f.write_all_at(b"ABCDEFGH", 0)?;
        f.set_len(2)?;
        f.set_len(8)?;
        assert_eq!(f.metadata()?.len(), 8);
        let before = read("/a")?;
        f.sync_all()?;
        let after = read("/a")?;
        assert_eq!(before, after, "sync_all changed the observable contents");
        assert_eq!(before, b"AB\0\0\0\0\0\0", "truncated bytes resurrected");
        Ok(())
    });
    sim.run().unwrap();
}

/// Same with durable contents: truncate to 4, then write one byte at 6.
#[test]
fn truncate_then_write_past_eof_leaves_a_hole() {
    let mut sim = Builder::new().build();
    sim.client("t", async {
        let f = rw("/a")?;
        f.write_all_at(b"ABCDEFGH", 0)?;
        f.sync_all()?;
        sync_dir("/")?;
        f.set_len(4)?;
        f.write_all_at(b"Z", 6)?;
        let mut buf = [0xffu8; 16];
        let n = f.read_at(&mut buf, 0)?;
        assert_eq!(n, 7);
        assert_eq!(&buf[..n], b"ABCD\0\0Z", "hole shows the bytes that were truncated away");
        Ok(())
    });
    sim.run().unwrap();
}

/// File::create (O_TRUNC) on an existing file, then a write at an offset.
#[test]
fn reopen_with_truncate_then_write_at_offset() {
    let mut sim = Builder::new().build();
    sim.client("t", async {
        let f = rw("/a")?;
        f.write_all_at(b"HELLOWORLD", 0)?;
        drop(f);
        let g = File::create("/a")?;
        g.write_all_at(b"X", 5)?;
        assert_eq!(read("/a")?, b"\0\0\0\0\0X");
        Ok(())
    });
    sim.run().unwrap();
}
