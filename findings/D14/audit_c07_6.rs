//! C07 audit, finding F6: `sync_dir(d)` flushes *every* pending
//! `CreateDir { d }` ("the directory's own creation") but leaves a pending
//! `RemoveDir { d }` that sits between them in the queue (it belongs to the
//! parent). The queue is thereby re-ordered: remove_dir(d) ; create_dir(d) ;
//! sync_dir(d) leaves a lone pending RemoveDir behind, so the freshly
//! re-created directory vanishes from the live view, and the next
//! sync_dir(parent) makes that removal durable.
//!
//! Clause contradicted: "a [directory] is present iff its directory entry was
//! made durable by syncing its parent directory (and has not been durably
//! removed or renamed away)" - /d's creation was synced (own sync + parent
//! sync) after its last removal, yet it is absent after the crash.
#![cfg(feature = "unstable-fs")]

use std::sync::{Arc, Mutex};
use std::time::Duration;
use turmoil::fs::shim::std::fs::{create_dir, metadata, remove_dir, sync_dir};
use turmoil::fs::{enter, EnterCtx, Fs, FsConfig};

fn with_fs<R>(f: impl FnOnce(&Arc<Mutex<Fs>>) -> R) -> R {
    let fs = Arc::new(Mutex::new(Fs::new(FsConfig::default(), 7)));
    let _g = enter(
        &fs,
        EnterCtx {
            now: Duration::from_secs(1),
            on_corruption: None,
        },
    );
    f(&fs)
}

fn is_dir(p: &str) -> bool {
    metadata(p).map(|m| m.is_dir()).unwrap_or(false)
}

#[test]
fn rmdir_mkdir_syncdir_self_then_parent() {
    with_fs(|fs| {
        create_dir("/d").unwrap();
        sync_dir("/").unwrap(); // /d durable

        remove_dir("/d").unwrap();
        create_dir("/d").unwrap();
        sync_dir("/d").unwrap(); // own creation
        sync_dir("/").unwrap(); // parent: everything is synced now

        fs.lock().unwrap().crash();

        assert!(is_dir("/d"), "/d was re-created and fully synced, must exist after crash");
    });
}

/// Same without any durable predecessor (mkdir ; rmdir ; mkdir).
#[test]
fn mkdir_rmdir_mkdir_syncdir_self_then_parent() {
    with_fs(|fs| {
        create_dir("/d").unwrap();
        remove_dir("/d").unwrap();
        create_dir("/d").unwrap();
        sync_dir("/d").unwrap();
        sync_dir("/").unwrap();

        fs.lock().unwrap().crash();

        assert!(is_dir("/d"), "/d was re-created and fully synced, must exist after crash");
    });
}
