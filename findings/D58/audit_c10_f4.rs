//! Audit C10 / F4: create_dir_all over an existing regular FILE returns Ok(())
//! and creates nothing.
//!
//! Destination: crates/turmoil/tests/audit_c10_f4.rs
//! Run: CARGO_TARGET_DIR=/tmp/wt6/C10/target cargo test --offline -p turmoil \
//!        --features unstable-fs --test audit_c10_f4
#![cfg(feature = "unstable-fs")]
use turmoil::fs::shim::std::fs::*;
use turmoil::{Builder, Result};

fn run(f: impl FnOnce() -> std::io::Result<()> + 'static) -> Result {
    let mut sim = Builder::new().build();
    sim.client("t", async move {
        f()?;
        Ok(())
    });
    sim.run()
}

#[test]
fn create_dir_all_over_a_file() -> Result {
    run(|| {
        write("/f", b"x")?;
        let r = create_dir_all("/f");
        assert!(r.is_err(), "create_dir_all(/f) with /f a regular file returned {r:?}");
        Ok(())
    })
}

#[test]
fn dir_builder_recursive_over_a_file() -> Result {
    run(|| {
        create_dir("/d")?;
        write("/d/f", b"x")?;
        let r = DirBuilder::new().recursive(true).create("/d/f");
        assert!(r.is_err(), "DirBuilder::recursive over a file returned {r:?}");
        assert!(metadata("/d/f")?.is_file());
        Ok(())
    })
}

#[test]
fn tokio_create_dir_all_over_a_file() -> Result {
    use turmoil::fs::shim::tokio::fs as tfs;
    let mut sim = Builder::new().build();
    sim.client("t", async move {
        tfs::write("/f", b"x").await?;
        let r = tfs::create_dir_all("/f").await;
        assert!(r.is_err(), "tokio create_dir_all over a file returned {r:?}");
        Ok(())
    });
    sim.run()
}
