//! C05 audit: file timestamps (the fs clock) must equal configured epoch + sim time.
#![cfg(feature = "unstable-fs")]

use std::sync::{Arc, Mutex};
use std::time::{Duration, SystemTime, UNIX_EPOCH};
use turmoil::fs::shim::std::fs::{metadata, write};
use turmoil::{Builder, Result};

fn run(real_delay: Duration) -> (Duration, Duration, Duration) {
    let epoch = UNIX_EPOCH + Duration::from_secs(1_000_000);
    let tick = Duration::from_millis(1);
    let mut sim = Builder::new().epoch(epoch).tick_duration(tick).build();

    let seen: Arc<Mutex<Option<(SystemTime, Duration)>>> = Arc::new(Mutex::new(None));
    let seen2 = seen.clone();
    sim.client("c", async move {
        write("/f", b"x")?;
        let m = metadata("/f")?.modified()?;
        *seen2.lock().unwrap() = Some((m, turmoil::since_epoch().unwrap()));
        Ok(())
    });

    // The test thread does something else for a while (real time) before
    // stepping: virtual time must not care.
    std::thread::sleep(real_delay);

    let sim_before = sim.since_epoch();
    sim.step().unwrap();
    let (mtime, host_epoch) = seen.lock().unwrap().take().unwrap();
    (
        mtime.duration_since(UNIX_EPOCH).unwrap(),
        host_epoch,
        sim_before,
    )
}

#[test]
fn file_mtime_is_epoch_plus_sim_time() -> Result {
    let (mtime, host_epoch, sim_epoch) = run(Duration::from_millis(40));
    // the write happens at virtual instant 0 of the first step
    assert_eq!(host_epoch, sim_epoch, "turmoil::since_epoch() in the host");
    assert_eq!(
        mtime,
        sim_epoch,
        "file mtime must be configured epoch + sim time (mtime - expected = {:?})",
        mtime.saturating_sub(sim_epoch)
    );
    Ok(())
}

#[test]
fn file_mtime_is_deterministic_without_delay() -> Result {
    let (mtime, _host_epoch, sim_epoch) = run(Duration::ZERO);
    assert_eq!(
        mtime,
        sim_epoch,
        "diff = {:?}",
        mtime.saturating_sub(sim_epoch)
    );
    Ok(())
}

/// No real-time sleep at all: merely registering many hosts takes more than
/// the 1 ms head start the paused tokio clock has over the wall clock.
#[test]
fn file_mtime_many_hosts_no_sleep() -> Result {
    let epoch = UNIX_EPOCH + Duration::from_secs(1_000_000);
    let mut sim = Builder::new()
        .epoch(epoch)
        .tick_duration(Duration::from_millis(1))
        .build();
    let seen: Arc<Mutex<Vec<(usize, Duration)>>> = Arc::new(Mutex::new(vec![]));
    for i in 0..200 {
        let seen = seen.clone();
        sim.client(format!("c{i}"), async move {
            write("/f", b"x")?;
            let m = metadata("/f")?.modified()?;
            seen.lock()
                .unwrap()
                .push((i, m.duration_since(UNIX_EPOCH).unwrap()));
            Ok(())
        });
    }
    let expected = sim.since_epoch();
    sim.step()?;
    let bad: Vec<_> = seen
        .lock()
        .unwrap()
        .iter()
        .filter(|(_, m)| *m != expected)
        .map(|(i, m)| (*i, m.saturating_sub(expected)))
        .collect();
    assert!(
        bad.is_empty(),
        "{} hosts saw a wrong mtime, e.g. {:?}",
        bad.len(),
        &bad[..bad.len().min(3)]
    );
    Ok(())
}
