//! C19 audit: emission order across hosts inside one tick.
//!
//! Two hosts each send one datagram to the same socket in the same
//! fixture tick; no rule (or equal Deliver(d)) => equal deadlines. The
//! host registered *later* performs its send syscall *first*.

use std::cell::RefCell;
use std::rc::Rc;
use std::time::Duration;

use turmoil_net::fixture::ClientServer;
use turmoil_net::shim::tokio::net::UdpSocket;
use turmoil_net::{rule, Packet, Verdict};

fn run(delay: Option<Duration>) {
    // global order of the send syscalls (test instrumentation only)
    let sent: Rc<RefCell<Vec<u8>>> = Rc::new(RefCell::new(Vec::new()));
    let (sa, sb) = (sent.clone(), sent.clone());
    let got = ClientServer::new()
        .server("early_host", async move {
            let s = UdpSocket::bind("0.0.0.0:0").await.unwrap();
            // registered first, but sends second within the same tick
            tokio::task::yield_now().await;
            tokio::task::yield_now().await;
            s.send_to(&[1], "client:9000").await.unwrap();
            sa.borrow_mut().push(1);
            std::future::pending::<()>().await;
        })
        .server("late_host", async move {
            let s = UdpSocket::bind("0.0.0.0:0").await.unwrap();
            s.send_to(&[2], "client:9000").await.unwrap();
            sb.borrow_mut().push(2);
            std::future::pending::<()>().await;
        })
        .run("client", async move {
            if let Some(d) = delay {
                rule(move |_: &Packet| Verdict::Deliver(d)).forget();
            }
            let rx = UdpSocket::bind("0.0.0.0:9000").await.unwrap();
            let mut got = Vec::new();
            let mut b = [0u8; 1];
            let t0 = tokio::time::Instant::now();
            for _ in 0..2 {
                rx.recv_from(&mut b).await.unwrap();
                got.push((b[0], t0.elapsed()));
            }
            got
        });
    assert_eq!(*sent.borrow(), vec![2, 1], "late_host emitted first");
    assert_eq!(got[0].1, got[1].1, "same tick, same deadline");
    let order: Vec<u8> = got.iter().map(|g| g.0).collect();
    assert_eq!(order, *sent.borrow(), "equal deadlines keep emission order");
}

#[test]
fn cross_host_emission_order_pass() {
    run(None);
}

#[test]
fn cross_host_emission_order_equal_delay() {
    run(Some(Duration::from_millis(2)));
}
