//! Audit C12 / F1: connectors that gave up keep their slot in the listener's
//! accept queue, so a later, lone connector panics the simulation with
//! "server socket buffer full" although it is the only pending request.
//!
//! Statement clause: "requests are accepted in the order they arrived and a
//! connector that gave up is skipped" (quantifier: "connectors cancelled by
//! timeout ... after their request is delivered"; "the number of
//! simultaneously pending requests stays below tcp_capacity").
use std::time::Duration;

use tokio::{
    io::{AsyncReadExt, AsyncWriteExt},
    time::{sleep, timeout},
};
use turmoil::{
    net::{TcpListener, TcpStream},
    Builder, Result,
};

fn scenario(mut builder: Builder, give_ups: usize) -> Result {
    let mut sim = builder
        .tick_duration(Duration::from_millis(1))
        .min_message_latency(Duration::from_millis(1))
        .max_message_latency(Duration::from_millis(1))
        .build();

    sim.host("server", || async {
        let l = TcpListener::bind(("0.0.0.0", 80)).await?;
        // Busy for a while before it starts accepting.
        sleep(Duration::from_secs(2)).await;
        loop {
            let (mut s, _) = l.accept().await?;
            s.write_u8(7).await?;
        }
    });

    sim.client("client", async move {
        // One connector at a time; each one's request is delivered (1ms) and
        // then abandoned after 10ms because the server is not accepting yet.
        for _ in 0..give_ups {
            let r = timeout(Duration::from_millis(10), TcpStream::connect("server:80")).await;
            assert!(r.is_err(), "server is not accepting yet");
        }
        assert_eq!(turmoil::established_tcp_stream_count(), 0);

        // Exactly one live pending request from here on. It must be accepted
        // once the server gets to it, the abandoned ones being skipped.
        let mut s = TcpStream::connect("server:80").await?;
        assert_eq!(s.read_u8().await?, 7);
        Ok(())
    });

    sim.run()
}

/// Small capacity: three give-ups, then a single connector.
#[test]
fn given_up_connectors_do_not_occupy_the_accept_queue_cap3() -> Result {
    let mut b = Builder::new();
    b.tcp_capacity(3);
    scenario(b, 3)
}

/// Default configuration (tcp_capacity 64): a client retrying with a short
/// connect timeout against a listener that is slow to accept.
#[test]
fn given_up_connectors_do_not_occupy_the_accept_queue_default() -> Result {
    scenario(Builder::new(), 64)
}
