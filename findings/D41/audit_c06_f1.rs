//! Audit C06 / F1: the last ACK of the close handshake is the only packet
//! lost (or merely delayed past the retransmit threshold). The side that
//! closed second keeps retransmitting its FIN; the side that reached
//! `Closed` first ignores it (or, once reaped, answers with RST). The
//! second closer's connection is aborted and the bytes it still holds in
//! its receive buffer are thrown away.

use std::time::Duration;

use tokio::io::{AsyncReadExt, AsyncWriteExt};
use tokio::sync::oneshot;
use turmoil_net::fixture::ClientServer;
use turmoil_net::shim::tokio::net::{TcpListener, TcpStream};
use turmoil_net::{rule, Packet, Transport, Verdict};

const BODY: usize = 64;

fn body() -> Vec<u8> {
    (0..BODY).map(|i| (i * 7 + 3) as u8).collect()
}

/// Server: reads a 4-byte header, answers, half-closes, and only later
/// (a slow reader) drains the rest of the request to EOF.
async fn server_task(done: oneshot::Sender<Result<Vec<u8>, (std::io::ErrorKind, usize)>>) {
    server_task_with(done, 10).await
}

async fn server_task_with(
    done: oneshot::Sender<Result<Vec<u8>, (std::io::ErrorKind, usize)>>,
    reply_delay_ms: u64,
) {
    let listener = TcpListener::bind("0.0.0.0:9000").await.unwrap();
    let (mut sock, _) = listener.accept().await.unwrap();
    let mut hdr = [0u8; 4];
    sock.read_exact(&mut hdr).await.unwrap();
    assert_eq!(&hdr, b"HEAD");
    // Let the client's FIN arrive and be acknowledged first.
    if reply_delay_ms > 0 {
        tokio::time::sleep(Duration::from_millis(reply_delay_ms)).await;
    }
    sock.write_all(b"ok").await.unwrap();
    sock.shutdown().await.unwrap();
    // Slow reader: comes back for the body later.
    tokio::time::sleep(Duration::from_millis(100)).await;
    let mut rest = Vec::new();
    let r = sock.read_to_end(&mut rest).await;
    // A panic inside a fixture server task is swallowed, so report the
    // outcome to the client task, which asserts on it.
    let _ = done.send(match r {
        Ok(_) => Ok(rest),
        Err(e) => Err((e.kind(), rest.len())),
    });
}

fn check(outcome: Result<Vec<u8>, (std::io::ErrorKind, usize)>) {
    match outcome {
        Ok(rest) => assert_eq!(rest, body(), "server must see every written byte, then EOF"),
        Err((kind, got)) => panic!(
            "server read failed with {kind:?} after {got} of {BODY} body bytes: \
             connection aborted although at most one packet was lost"
        ),
    }
}

/// Drops exactly one packet: the first client->server pure ACK emitted
/// after the server's FIN was seen on the wire (the ACK of that FIN).
fn drop_ack_of_server_fin() -> impl FnMut(&Packet) -> Verdict {
    let mut server_fin_seq: Option<u32> = None;
    let mut dropped = false;
    move |pkt: &Packet| {
        let Transport::Tcp(s) = &pkt.payload else {
            return Verdict::Pass;
        };
        if s.src_port == 9000 && s.flags.fin {
            server_fin_seq = Some(s.seq);
            return Verdict::Pass;
        }
        if s.dst_port == 9000
            && server_fin_seq.map(|f| s.ack == f.wrapping_add(1)).unwrap_or(false)
            && !dropped
            && s.flags.ack
            && !s.flags.fin
            && !s.flags.syn
            && !s.flags.rst
            && s.payload.is_empty()
        {
            dropped = true;
            return Verdict::Drop;
        }
        Verdict::Pass
    }
}

/// One lost packet; the client keeps its (fully closed) stream alive.
/// The client's TCB sits in `Closed` and ignores the retransmitted FIN,
/// so the server exhausts its retransmit budget: TimedOut, body gone.
#[test]
fn lost_final_ack_client_keeps_handle() {
    let (tx, rx) = oneshot::channel();
    ClientServer::new()
        .server("server", server_task(tx))
        .run("client", async move {
            rule(drop_ack_of_server_fin()).forget();
            let mut c = TcpStream::connect("server:9000").await.unwrap();
            c.write_all(b"HEAD").await.unwrap();
            c.write_all(&body()).await.unwrap();
            c.shutdown().await.unwrap();
            let mut resp = Vec::new();
            c.read_to_end(&mut resp).await.unwrap();
            assert_eq!(resp, b"ok");
            // Keep the handle; give the server time to finish.
            let outcome = tokio::time::timeout(Duration::from_millis(500), rx).await;
            drop(c);
            check(outcome.expect("server never finished").unwrap());
        });
}

/// Same single loss; the client drops its stream after EOF (the usual
/// thing to do). Its TCB is reaped, the retransmitted FIN meets an unknown
/// 4-tuple and is answered with RST: ConnectionReset, body gone.
#[test]
fn lost_final_ack_client_drops_handle() {
    let (tx, rx) = oneshot::channel();
    ClientServer::new()
        .server("server", server_task(tx))
        .run("client", async move {
            rule(drop_ack_of_server_fin()).forget();
            let mut c = TcpStream::connect("server:9000").await.unwrap();
            c.write_all(b"HEAD").await.unwrap();
            c.write_all(&body()).await.unwrap();
            c.shutdown().await.unwrap();
            let mut resp = Vec::new();
            c.read_to_end(&mut resp).await.unwrap();
            assert_eq!(resp, b"ok");
            drop(c);
            let outcome = tokio::time::timeout(Duration::from_millis(500), rx).await;
            check(outcome.expect("server never finished").unwrap());
        });
}

/// No loss at all: the ACK of the server's FIN is only delayed by 4 ms
/// (4 egress rounds > retx_threshold = 3, far below the 18-round budget).
/// The server retransmits its FIN once, the client is already reaped and
/// answers RST, which wipes the server's receive buffer.
#[test]
fn delayed_final_ack_client_drops_handle() {
    let (tx, rx) = oneshot::channel();
    ClientServer::new()
        .server("server", server_task(tx))
        .run("client", async move {
            let mut inner = drop_ack_of_server_fin();
            rule(move |pkt: &Packet| match inner(pkt) {
                Verdict::Drop => Verdict::Deliver(Duration::from_millis(4)),
                v => v,
            })
            .forget();
            let mut c = TcpStream::connect("server:9000").await.unwrap();
            c.write_all(b"HEAD").await.unwrap();
            c.write_all(&body()).await.unwrap();
            c.shutdown().await.unwrap();
            let mut resp = Vec::new();
            c.read_to_end(&mut resp).await.unwrap();
            assert_eq!(resp, b"ok");
            drop(c);
            let outcome = tokio::time::timeout(Duration::from_millis(500), rx).await;
            check(outcome.expect("server never finished").unwrap());
        });
}

/// No loss, and nothing is retransmitted: the server's pure ACK of the
/// client's FIN is delivered ONE tick late. By then the client has seen
/// the server's FIN, acknowledged it, read EOF and dropped its stream; its
/// TCB is reaped at once (no TIME-WAIT). The late ACK meets an unknown
/// 4-tuple and is answered with RST, and the RST -- accepted in any state,
/// without sequence validation -- wipes the receive buffer of the server's
/// already cleanly `Closed` connection.
#[test]
fn one_tick_late_ack_client_drops_handle() {
    let (tx, rx) = oneshot::channel();
    ClientServer::new()
        .server("server", server_task_with(tx, 0))
        .run("client", async move {
            let mut client_fin_seq: Option<u32> = None;
            let mut held = false;
            rule(move |pkt: &Packet| {
                let Transport::Tcp(s) = &pkt.payload else {
                    return Verdict::Pass;
                };
                if s.dst_port == 9000 && s.flags.fin {
                    client_fin_seq = Some(s.seq);
                }
                if s.src_port == 9000
                    && !held
                    && s.payload.is_empty()
                    && !s.flags.fin
                    && !s.flags.syn
                    && client_fin_seq.map(|f| s.ack == f.wrapping_add(1)).unwrap_or(false)
                {
                    held = true;
                    return Verdict::Deliver(Duration::from_millis(1));
                }
                Verdict::Pass
            })
            .forget();
            let mut c = TcpStream::connect("server:9000").await.unwrap();
            let mut req = b"HEAD".to_vec();
            req.extend_from_slice(&body());
            c.write_all(&req).await.unwrap();
            c.shutdown().await.unwrap();
            let mut resp = Vec::new();
            c.read_to_end(&mut resp).await.unwrap();
            assert_eq!(resp, b"ok");
            drop(c);
            let outcome = tokio::time::timeout(Duration::from_millis(500), rx).await;
            check(outcome.expect("server never finished").unwrap());
        });
}

/// Control: identical scenario without any rule passes.
#[test]
fn control_no_faults() {
    let (tx, rx) = oneshot::channel();
    ClientServer::new()
        .server("server", server_task(tx))
        .run("client", async move {
            let mut c = TcpStream::connect("server:9000").await.unwrap();
            c.write_all(b"HEAD").await.unwrap();
            c.write_all(&body()).await.unwrap();
            c.shutdown().await.unwrap();
            let mut resp = Vec::new();
            c.read_to_end(&mut resp).await.unwrap();
            assert_eq!(resp, b"ok");
            drop(c);
            let outcome = tokio::time::timeout(Duration::from_millis(500), rx).await;
            check(outcome.expect("server never finished").unwrap());
        });
}
