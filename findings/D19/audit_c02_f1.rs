//! audit C02 / F1 - a FIN that reaches an already closed socket is answered with a RST.
use std::cell::Cell;
use std::io;
use std::net::{IpAddr, Ipv4Addr};
use std::rc::Rc;
use std::time::Duration;

use tokio::io::{AsyncReadExt, AsyncWriteExt};
use turmoil::net::{TcpListener, TcpStream};
use turmoil::{Builder, Protocol, Segment, Sim};

const PORT: u16 = 9000;

fn kind(p: &Protocol) -> &'static str {
    match p {
        Protocol::Tcp(Segment::Syn(_)) => "syn",
        Protocol::Tcp(Segment::Data(..)) => "data",
        Protocol::Tcp(Segment::Fin(_)) => "fin",
        Protocol::Tcp(Segment::Rst) => "rst",
        _ => "other",
    }
}

/// Deliver the first held message on any link whose source ip is `from` and
/// whose kind is `what`; then step once. Returns false if there is none.
fn deliver_one(sim: &mut Sim<'_>, from: IpAddr, what: &str) -> bool {
    let mut done = false;
    sim.links(|links| {
        for link in links {
            for sent in link {
                if !done && sent.pair().0.ip() == from && kind(sent.protocol()) == what {
                    sent.deliver();
                    done = true;
                }
            }
        }
    });
    if done {
        sim.step().unwrap();
    }
    done
}

fn in_flight(sim: &Sim<'_>) -> Vec<(IpAddr, &'static str)> {
    let mut v = vec![];
    sim.links(|links| {
        for link in links {
            for sent in link {
                v.push((sent.pair().0.ip(), kind(sent.protocol())));
            }
        }
    });
    v
}

/// Client: write "hello", close the stream (nothing inbound was ever unread).
/// Server: shut down its write side (sends only a FIN), then read to EOF.
/// Both closes are graceful. Delivery order: the server's FIN reaches the
/// (already closed) client first.
#[test]
fn fin_to_closed_peer_must_not_reset_the_other_direction() {
    let mut sim = Builder::new()
        .tick_duration(Duration::from_millis(1))
        .min_message_latency(Duration::from_millis(1))
        .max_message_latency(Duration::from_millis(20))
        .build();

    let connected = Rc::new(Cell::new(false));
    let result: Rc<Cell<Option<Result<Vec<u8>, (Vec<u8>, io::ErrorKind)>>>> =
        Rc::new(Cell::new(None));

    let res = result.clone();
    sim.client("server", async move {
        let l = TcpListener::bind((IpAddr::from(Ipv4Addr::UNSPECIFIED), PORT)).await?;
        let (mut s, _) = l.accept().await?;
        tokio::time::sleep(Duration::from_millis(5)).await;
        s.shutdown().await?; // nothing to say: FIN only
        let mut got = vec![];
        let mut buf = [0u8; 16];
        let out = loop {
            match s.read(&mut buf).await {
                Ok(0) => break Ok(got),
                Ok(n) => got.extend_from_slice(&buf[..n]),
                Err(e) => break Err((got, e.kind())),
            }
        };
        res.set(Some(out));
        Ok(())
    });

    let flag = connected.clone();
    sim.client("client", async move {
        let mut s = TcpStream::connect(("server", PORT)).await?;
        flag.set(true);
        tokio::time::sleep(Duration::from_millis(5)).await;
        s.write_all(b"hello").await?;
        drop(s); // graceful: no inbound data unread (none ever arrived)
        tokio::time::sleep(Duration::from_millis(200)).await;
        Ok(())
    });

    while !connected.get() {
        sim.step().unwrap();
    }
    sim.hold("client", "server");
    let client = sim.lookup("client");
    let server = sim.lookup("server");

    // let both sides act; everything they send is held on the link
    for _ in 0..20 {
        sim.step().unwrap();
    }
    let mut f = in_flight(&sim);
    f.sort();
    let mut want = vec![(client, "data"), (client, "fin"), (server, "fin")];
    want.sort();
    assert_eq!(f, want, "staging");

    // 1. the server's FIN reaches the closed client
    assert!(deliver_one(&mut sim, server, "fin"));
    // whatever the client host answered goes next (if anything)
    let _ = deliver_one(&mut sim, client, "rst");
    // 2. then the client's data and FIN, in order
    assert!(deliver_one(&mut sim, client, "data"));
    assert!(deliver_one(&mut sim, client, "fin"));
    sim.release("client", "server");
    sim.run().unwrap();

    let out = result.take().expect("server finished");
    assert_eq!(
        out,
        Ok(b"hello".to_vec()),
        "server must read the accepted bytes and then EOF"
    );
}

/// Same story without manual scheduling: only latencies (min < max) decide.
#[test]
fn fin_to_closed_peer_random_latency() {
    let mut bad = vec![];
    for seed in 0..200u64 {
        let mut sim = Builder::new()
            .rng_seed(seed)
            .tick_duration(Duration::from_millis(1))
            .min_message_latency(Duration::from_millis(1))
            .max_message_latency(Duration::from_millis(40))
            .build();

        let result: Rc<Cell<Option<Result<Vec<u8>, (Vec<u8>, io::ErrorKind)>>>> =
            Rc::new(Cell::new(None));
        let res = result.clone();
        sim.client("server", async move {
            let l = TcpListener::bind((IpAddr::from(Ipv4Addr::UNSPECIFIED), PORT)).await?;
            let (mut s, _) = l.accept().await?;
            s.shutdown().await?;
            let mut got = vec![];
            let mut buf = [0u8; 16];
            let out = loop {
                match s.read(&mut buf).await {
                    Ok(0) => break Ok(got),
                    Ok(n) => got.extend_from_slice(&buf[..n]),
                    Err(e) => break Err((got, e.kind())),
                }
            };
            res.set(Some(out));
            Ok(())
        });
        sim.client("client", async move {
            let mut s = TcpStream::connect(("server", PORT)).await?;
            for i in 0..8u8 {
                s.write_all(&[i; 4]).await?;
            }
            drop(s);
            tokio::time::sleep(Duration::from_millis(300)).await;
            Ok(())
        });
        sim.run().unwrap();
        let want: Vec<u8> = (0..8u8).flat_map(|i| [i; 4]).collect();
        let out = result.take().unwrap();
        if out != Ok(want) {
            bad.push((seed, out));
        }
    }
    assert!(
        bad.is_empty(),
        "{} of 200 seeds lost accepted bytes, first: {:?}",
        bad.len(),
        bad[0]
    );
}

/// Same-host / 127.0.0.1 flavour of the first test: every loopback message
/// takes exactly one tick, so the server's FIN (sent 5ms before the client's
/// data) arrives first, at a client that has already closed.
#[test]
fn fin_to_closed_peer_loopback() {
    let mut bad = vec![];
    for loopback in [true, false] {
        let mut sim = Builder::new()
            .tick_duration(Duration::from_millis(10))
            .build();
        let result: Rc<Cell<Option<Result<Vec<u8>, (Vec<u8>, io::ErrorKind)>>>> =
            Rc::new(Cell::new(None));
        let res = result.clone();
        sim.client("solo", async move {
            let l = TcpListener::bind((IpAddr::from(Ipv4Addr::UNSPECIFIED), PORT)).await?;
            let h = tokio::spawn(async move {
                let (mut s, _) = l.accept().await.unwrap();
                s.shutdown().await.unwrap();
                let mut got = vec![];
                let mut buf = [0u8; 16];
                let out = loop {
                    match s.read(&mut buf).await {
                        Ok(0) => break Ok(got),
                        Ok(n) => got.extend_from_slice(&buf[..n]),
                        Err(e) => break Err((got, e.kind())),
                    }
                };
                out
            });
            let dst: IpAddr = if loopback {
                Ipv4Addr::LOCALHOST.into()
            } else {
                turmoil::lookup("solo")
            };
            let mut s = TcpStream::connect((dst, PORT)).await?;
            tokio::time::sleep(Duration::from_millis(5)).await;
            s.write_all(b"hello").await?;
            drop(s);
            res.set(Some(h.await.unwrap()));
            Ok(())
        });
        sim.run().unwrap();
        let out = result.take().unwrap();
        if out != Ok(b"hello".to_vec()) {
            bad.push((if loopback { "127.0.0.1" } else { "own address" }, out));
        }
    }
    assert!(bad.is_empty(), "accepted bytes lost: {bad:?}");
}
