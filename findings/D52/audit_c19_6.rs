//! C19 audit: a rule whose state owns the guard of another rule.
//!
//! Removing the owner (dropping its guard, or tearing the Net down while
//! the owner is installed for good) drops the owned guard from inside
//! the library's `CURRENT.borrow_mut()` scope.

use std::cell::RefCell;
use std::rc::Rc;
use std::time::Duration;

use turmoil_net::fixture::ClientServer;
use turmoil_net::shim::tokio::net::UdpSocket;
use turmoil_net::{rule, Packet, Verdict};

async fn sink(got: Rc<RefCell<Vec<u8>>>) {
    let s = UdpSocket::bind("0.0.0.0:9000").await.unwrap();
    let mut b = [0u8; 4];
    loop {
        s.recv_from(&mut b).await.unwrap();
        got.borrow_mut().push(b[0]);
    }
}

/// B drops everything; A (installed after B, always Pass) keeps B's guard
/// alive for as long as A itself is installed. Dropping A's guard must
/// take both rules out of the chain: "a rule stops applying the moment
/// its guard is dropped".
#[test]
fn dropping_the_owner_guard_removes_both_rules() {
    let got = Rc::new(RefCell::new(Vec::new()));
    let g2 = got.clone();
    ClientServer::new().server("sink", sink(g2)).run("client", async move {
        let c = UdpSocket::bind("0.0.0.0:0").await.unwrap();
        let gb = rule(|_: &Packet| Verdict::Drop);
        let ga = rule(move |_: &Packet| {
            let _owned = &gb;
            Verdict::Pass
        });
        c.send_to(&[1], "sink:9000").await.unwrap();
        tokio::time::sleep(Duration::from_millis(3)).await;
        drop(ga); // A goes, and with it B's guard
        c.send_to(&[2], "sink:9000").await.unwrap();
        tokio::time::sleep(Duration::from_millis(3)).await;
    });
    assert_eq!(*got.borrow(), vec![2]);
}

/// Same ownership, but the owner is installed for the rest of the
/// simulation (`forget`). The run itself is fine; the fixture must be able
/// to finish.
#[test]
fn forgotten_owner_survives_teardown() {
    let got = Rc::new(RefCell::new(Vec::new()));
    let g2 = got.clone();
    ClientServer::new().server("sink", sink(g2)).run("client", async move {
        let c = UdpSocket::bind("0.0.0.0:0").await.unwrap();
        let gb = rule(|p: &Packet| match &p.payload {
            turmoil_net::Transport::Udp(d) if d.payload[0] == 1 => Verdict::Drop,
            _ => Verdict::Pass,
        });
        rule(move |_: &Packet| {
            let _owned = &gb;
            Verdict::Pass
        })
        .forget();
        c.send_to(&[1], "sink:9000").await.unwrap();
        c.send_to(&[2], "sink:9000").await.unwrap();
        tokio::time::sleep(Duration::from_millis(3)).await;
    });
    assert_eq!(*got.borrow(), vec![2]);
}
