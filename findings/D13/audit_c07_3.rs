//! C07 audit, finding F3: rename across directories followed by a sync of
//! only ONE of the two parent directories.
//!
//! `Fs::sync_dir` flushes a pending `Rename` when *either* parent matches and
//! applies it in full to the persisted image (the inode moves from -> to), but
//! updates `synced_entries` only for the side that lives in the synced
//! directory.  Result:
//!   * sync of the SOURCE dir only: the file's durable entry is dropped at the
//!     old name, never added at the new name, and `crash()` then deletes the
//!     inode as an "orphan": a fully durable file disappears from BOTH names.
//!   * sync of the DESTINATION dir only: the old name keeps a stale durable
//!     entry, so a later, never-dir-synced re-creation at the old name
//!     survives a crash.
//!
//! Clauses contradicted: "Synced data is never lost"; "a file is present iff
//! its directory entry was made durable by syncing its parent directory".
#![cfg(feature = "unstable-fs")]

use std::os::unix::fs::FileExt;
use std::sync::{Arc, Mutex};
use std::time::Duration;
use turmoil::fs::shim::std::fs::{create_dir, read, rename, sync_dir, OpenOptions};
use turmoil::fs::{enter, EnterCtx, Fs, FsConfig};

fn with_fs<R>(f: impl FnOnce(&Arc<Mutex<Fs>>) -> R) -> R {
    let fs = Arc::new(Mutex::new(Fs::new(FsConfig::default(), 7)));
    let _g = enter(
        &fs,
        EnterCtx {
            now: Duration::from_secs(1),
            on_corruption: None,
        },
    );
    f(&fs)
}

/// /d1, /d2 durable directories; /d1/f durable file "DATA".
fn setup() {
    create_dir("/d1").unwrap();
    create_dir("/d2").unwrap();
    sync_dir("/").unwrap();
    let f = OpenOptions::new()
        .write(true)
        .create_new(true)
        .open("/d1/f")
        .unwrap();
    f.write_all_at(b"DATA", 0).unwrap();
    f.sync_all().unwrap();
    sync_dir("/d1").unwrap();
}

fn s(v: Vec<u8>) -> String {
    String::from_utf8_lossy(&v).into_owned()
}

/// rename /d1/f -> /d2/f ; sync_dir(/d1) ; CRASH.
/// Whatever one thinks the durable name is, the fully synced file must still
/// exist under one of the two names with its data.
#[test]
fn cross_dir_rename_sync_source_dir_loses_file() {
    with_fs(|fs| {
        setup();
        rename("/d1/f", "/d2/f").unwrap();
        sync_dir("/d1").unwrap();

        fs.lock().unwrap().crash();

        let old = read("/d1/f").ok().map(s);
        let new = read("/d2/f").ok().map(s);
        assert!(
            old.as_deref() == Some("DATA") || new.as_deref() == Some("DATA"),
            "durable file vanished from both names: /d1/f={old:?} /d2/f={new:?}"
        );
    });
}

/// Same, with the crash survived and the host carrying on (crash-continue-
/// crash): the file stays lost.
#[test]
fn cross_dir_rename_sync_source_dir_then_dest_dir_after_crash() {
    with_fs(|fs| {
        setup();
        rename("/d1/f", "/d2/f").unwrap();
        sync_dir("/d1").unwrap();
        fs.lock().unwrap().crash();
        sync_dir("/d2").unwrap();
        sync_dir("/d1").unwrap();
        fs.lock().unwrap().crash();
        let old = read("/d1/f").ok().map(s);
        let new = read("/d2/f").ok().map(s);
        assert!(
            old.as_deref() == Some("DATA") || new.as_deref() == Some("DATA"),
            "durable file vanished from both names: /d1/f={old:?} /d2/f={new:?}"
        );
    });
}

/// rename /d1/f -> /d2/f ; sync_dir(/d2) ; create_new /d1/f ; write ; sync_all
/// ; CRASH (no sync_dir(/d1) ever happened after the re-creation).
/// The new /d1/f's directory entry was never synced => it must not exist.
#[test]
fn cross_dir_rename_sync_dest_dir_leaves_stale_entry() {
    with_fs(|fs| {
        setup();
        rename("/d1/f", "/d2/f").unwrap();
        sync_dir("/d2").unwrap();
        // the rename is durable now: a crash here leaves only /d2/f
        let g = OpenOptions::new()
            .write(true)
            .create_new(true)
            .open("/d1/f")
            .unwrap();
        g.write_all_at(b"NEW", 0).unwrap();
        g.sync_all().unwrap();
        drop(g);

        fs.lock().unwrap().crash();

        assert_eq!(read("/d2/f").ok().map(s).as_deref(), Some("DATA"));
        assert_eq!(
            read("/d1/f").ok().map(s),
            None,
            "file whose creation was never dir-synced survived the crash"
        );
    });
}
