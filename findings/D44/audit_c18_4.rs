//! Audit C18 - Read / Write SQEs with offset -1 ("use the file position").
//!
//! `io_uring::opcode::{Read, Write}::offset(u64::MAX)` is the documented way
//! to ask for read(2) / write(2) semantics. Through the synchronous file API
//! the same operation is `Read::read` / `Write::write` on the `File`.
#![cfg(feature = "unstable-io_uring")]

use std::io::{Read, Seek, SeekFrom, Write};
use std::os::fd::AsRawFd;
use std::os::unix::fs::FileExt;
use turmoil::fs::shim::std::fs::{create_dir_all, OpenOptions};
use turmoil::io_uring::{opcode, types, IoUring};
use turmoil::{Builder, Result};

#[test]
fn read_at_current_position_is_not_a_silent_eof() -> Result {
    let mut sim = Builder::new().build();
    sim.client("c", async {
        create_dir_all("/d")?;
        let mut file = OpenOptions::new()
            .read(true)
            .write(true)
            .create(true)
            .open("/d/f")?;
        file.write_all_at(b"abcdef", 0)?;

        // Synchronous API: read at the file position (0).
        let mut sbuf = [0u8; 4];
        let sn = file.read(&mut sbuf)?;
        assert_eq!((sn, &sbuf), (4, b"abcd"));
        file.seek(SeekFrom::Start(0))?;

        // Same operation through the ring.
        let mut ring = IoUring::new(4).unwrap();
        let mut buf = [0u8; 4];
        let r = opcode::Read::new(types::Fd(file.as_raw_fd()), buf.as_mut_ptr(), 4)
            .offset(u64::MAX)
            .build()
            .user_data(1);
        unsafe {
            ring.submission().push(&r).unwrap();
        }
        ring.submit().unwrap();
        let mut cq = ring.completion();
        cq.sync();
        let cqe = cq.next().expect("zero latency: cqe ready");
        assert_eq!(cqe.user_data(), 1);
        // Either the position semantics (4 bytes "abcd"), or an explicit
        // rejection; never "0 bytes, end of file" for a 6 byte file.
        assert!(
            (cqe.result() == 4 && &buf == b"abcd") || cqe.result() < 0,
            "read at the file position returned {} (buf {:?}); the synchronous API returned {sn}",
            cqe.result(),
            buf
        );
        Ok(())
    });
    sim.run()
}

#[test]
fn write_at_current_position_completes() -> Result {
    let mut sim = Builder::new().build();
    sim.client("c", async {
        create_dir_all("/d")?;
        let mut file = OpenOptions::new()
            .read(true)
            .write(true)
            .create(true)
            .open("/d/g")?;
        // Synchronous API: write at the file position.
        assert_eq!(file.write(b"abcd")?, 4);

        let mut ring = IoUring::new(4).unwrap();
        let payload = *b"XY";
        let w = opcode::Write::new(types::Fd(file.as_raw_fd()), payload.as_ptr(), 2)
            .offset(u64::MAX)
            .build()
            .user_data(7);
        unsafe {
            ring.submission().push(&w).unwrap();
        }
        ring.submit().unwrap();
        let mut cq = ring.completion();
        cq.sync();
        // Every submitted entry yields exactly one completion.
        let cqe = cq.next().expect("one completion for the write");
        assert_eq!(cqe.user_data(), 7);
        assert!(cq.next().is_none());
        drop(cq);
        let mut all = [0u8; 16];
        let n = file.read_at(&mut all, 0)?;
        if cqe.result() >= 0 {
            assert_eq!(cqe.result(), 2);
            assert_eq!(&all[..n], b"abcdXY");
        } else {
            assert_eq!(&all[..n], b"abcd", "a failed write has no effect");
        }
        Ok(())
    });
    sim.run()
}
