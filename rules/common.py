"""Shared helpers for rule modules."""
import re
from engine.analysis.facts import *
from engine.analysis.flow import *


def ret_locals(b):
    """the return place and every local whose value is moved / copied into it (`_0 = move _t`: the return slot of a helper that was
    inlined, a result built in a temporary)"""
    out = {0}
    ch = True
    while ch:
        ch = False
        for bb, i, s in b.all_stmts():
            if i == "term" or s["p"].get("p") or s["p"]["l"] not in out or s["r"]["k"] != "use":
                continue
            pl = op_place(s["r"].get("o"))
            if pl and not pl.get("p") and pl["l"] not in out:
                out.add(pl["l"])
                ch = True
    return out


def ret_aggs(b, variant):
    """(bb, stmt) of every aggregate `variant(..)` that is (or flows whole into) the function's result"""
    rl = ret_locals(b)
    return [(bb, s) for bb, i, s in b.all_stmts() if i != "term" and not s["p"].get("p") and s["p"]["l"] in rl and s["r"]["k"] == "agg" and s["r"].get("variant") == variant]


def key_of(body, extra=None):
    return body.id if extra is None else f"{body.id}:{extra}"


def nth(counter, k):
    """stable per-function ordinal for the n-th occurrence of discriminator k"""
    counter[k] = counter.get(k, 0) + 1
    return counter[k] - 1


def arg_types(body, t):
    return [body.tys[i] for i in t.get("at", ())]


def peeled_adt(body, tyidx):
    t = body.peel(body.tys[tyidx])
    return t.get("adt"), t


def type_mentions(body, tyidx, pred, depth=0, seen=None):
    """does the type (recursively through generic args / refs / tuples) contain a type satisfying pred"""
    if seen is None:
        seen = set()
    if tyidx in seen or depth > 8:
        return False
    seen.add(tyidx)
    t = body.tys[tyidx]
    if pred(t, body):
        return True
    for x in t.get("args", ()) or ():
        if isinstance(x, int) and type_mentions(body, x, pred, depth + 1, seen):
            return True
    if "inner" in t and type_mentions(body, t["inner"], pred, depth + 1, seen):
        return True
    for x in t.get("upvars", ()) or ():
        if type_mentions(body, x, pred, depth + 1, seen):
            return True
    return False


def in_repo(fid):
    return fid.startswith(("turmoil", "<turmoil", "<&turmoil", "<&mut turmoil"))


def is_macro_noise(s):
    x = s.get("x") or ""
    return x.startswith("m:tracing") or x.startswith("m:$crate::") and "tracing" in (s.get("fs") or "") or \
        x.startswith(("m:$crate::event", "m:$crate::level_enabled", "m:$crate::__", "m:$crate::valueset",
                      "m:$crate::fieldset", "m:$crate::callsite", "m:$crate::identify_callsite", "m:$crate::span",
                      "m:$crate::enabled", "m:$crate::metadata", "m:tracing::"))


def counter_rule(ctx, R, field, step=None, label=None):
    """monotone counter: every write to `field` anywhere (constructors aside) is `field := field + k` with k > 0
    (`+=`, checked_add / wrapping_add accepted); at least one such write must exist"""
    name = label or field.rsplit("::", 1)[1]
    fname = field.rsplit("::", 1)[1]
    n = 0
    for b in sorted(ctx.w.bodies.values(), key=lambda b: b.id):
        for bb, i, s in b.all_stmts():
            if not (place_last_field(s["p"]) == field and isinstance(s["p"]["p"][-1], dict) and s["p"]["p"][-1].get("f") == fname):
                continue
            n += 1
            ok = False
            why = ""
            lin = linear(b, s["r"]["o"]) if s["r"]["k"] == "use" else None
            if lin and lin[0] == ("field", field) and lin[1] > 0 and (step is None or lin[1] == step):
                ok = True
            else:
                at = Slicer(ctx.w).atoms(b, s["r"].get("o", {})) if s["r"]["k"] == "use" else set()
                adds = [a for a in at if re.search(r"call:.*(checked_add|wrapping_add|saturating_add)$", a)]
                ok = ("field:" + field in at) and bool(adds) and not any(re.search(r"(_sub|_mul|_div|_rem|::sub|::mul)$", a) for a in at if a.startswith("call:"))
                why = f" (value atoms {sorted(at)[:5]})"
            ctx.inst(R, f"counter:{name}:{b.id}#{n}", ok, s["s"], f"{name} advances by a positive step from its previous value" if ok else
                     f"`{b.id}` writes {name} with something other than `{name} + k`{why}: identifiers / sequence numbers can repeat")
    if n == 0 and ctx.strict:
        ctx.bad(R, f"counter:{name}:anchor-missing", "", f"no write to `{field}` found: the counter is gone or never advanced")


def sibling_profile(ctx, fid, callee_filter=None):
    """(callees, fields written, fields read) of a function family, in-repo items only"""
    calls, writes, reads = set(), set(), set()
    for fb in ctx.w.family(fid):
        for bb, t in fb.calls():
            if is_macro_noise(t):
                continue
            f = t["f"]
            if in_repo(f) and "{closure" not in f and (callee_filter is None or callee_filter(f)):
                calls.add(f)
        for bb, i, s in fb.all_stmts():
            for f in place_fields(s["p"]):
                if in_repo(f) and not f.startswith("{env}"):
                    writes.add(f)
            r = s["r"]
            for o in [r.get("o"), r.get("a"), r.get("b")] + list(r.get("ops", [])):
                pl = op_place(o) if isinstance(o, dict) else None
                if pl:
                    for f in place_fields(pl):
                        if in_repo(f) and not f.startswith("{env}"):
                            reads.add(f)
    return calls, writes, reads


def sibling_rule(ctx, R, a, b, expected_diff=(), what=""):
    """Engler-style sibling check: two implementations of the same interface must use the same in-repo callees and touch the same
    fields, except for the enumerated, explained differences"""
    ba, bb_ = ctx.body(R, a), ctx.body(R, b)
    if not ba or not bb_:
        return
    pa, pb = sibling_profile(ctx, a), sibling_profile(ctx, b)
    exp = set(expected_diff)
    diffs = []
    for kind, xa, xb in (("calls", pa[0], pb[0]), ("writes", pa[1], pb[1]), ("reads", pa[2], pb[2])):
        d = (xa ^ xb) - exp
        d = {x for x in d if not x.startswith(a) and not x.startswith(b)}
        if d:
            diffs.append(f"{kind}: only in {a.rsplit('::', 1)[1]}: {sorted(xa - xb - exp)[:4]}, only in {b.rsplit('::', 1)[1]}: {sorted(xb - xa - exp)[:4]}")
    ctx.inst(R, f"siblings:{a.rsplit('::', 1)[1]}~{b.rsplit('::', 1)[1]}", not diffs, ba.span, (what or "siblings use the same callees and fields") if not diffs else
             f"sibling implementations `{a}` and `{b}` disagree ({'; '.join(diffs)}): one of them lacks a step the other performs")


def _uses_of(b, l):
    out = []
    for bb in sorted(b.live_blocks()):
        for st in b.blocks[bb]["st"]:
            r = st.get("r")
            if not r:
                continue
            for o in [r.get("o"), r.get("a"), r.get("b")] + list(r.get("ops", [])):
                if isinstance(o, dict) and op_base(o) == l:
                    out.append(bb)
            if isinstance(r.get("p"), dict) and r["p"]["l"] == l:
                out.append(bb)
        t = b.term(bb)
        if t["k"] == "call" and any(op_base(a) == l for a in t["args"]):
            out.append(bb)
        if t["k"] == "switch" and op_base(t["d"]) == l:
            out.append(bb)
    return out


def dropped_results_rule(ctx, R, callee_pat, allow, crates):
    """error discipline: the Result / Option / bool returned by the listed in-repo operations must be looked at (`?`, match, if, passed
    on, returned); the enumerated `let _ =` sites (root function -> reason) are the only places where it may be discarded"""
    n = 0
    for b in sorted(ctx.w.bodies.values(), key=lambda b: b.id):
        if b.crate not in crates:
            continue
        for bb, t in b.calls(callee_pat):
            if t["d"].get("p") or is_macro_noise(t):
                continue
            dl = t["d"]["l"]
            ty = b.tys[b.locals[dl]["ty"]]
            if ty.get("adt") not in ("std::result::Result", "std::option::Option") and ty.get("s") != "bool":
                continue
            n += 1
            root = b
            while root.parent and root.parent in ctx.w.bodies:
                root = ctx.w.bodies[root.parent]
            k = f"{root.id}<-{t['f'].rsplit('::', 2)[-2]}::{t['f'].rsplit('::', 1)[-1]}#{n}"
            if dl == 0 or _uses_of(b, dl):
                ctx.ok(R, f"consumed:{root.id}<-{t['f'].rsplit('::', 1)[-1]}", t["s"], "result is examined / propagated")
            elif root.id in allow:
                ctx.info(R, f"discarded:{root.id}<-{t['f'].rsplit('::', 1)[-1]}", t["s"], "allowed discard: " + allow[root.id])
            else:
                ctx.bad(R, f"discarded:{root.id}<-{t['f'].rsplit('::', 1)[-1]}", t["s"],
                        f"`{root.id}` discards the result of `{t['f']}`: a failure is silently swallowed where the caller is told the operation succeeded")


def full_scan_rule(ctx, R, fids, what):
    """exhaustive scan: every loop in the listed functions (closures included) is left only when its iterator is exhausted
    (`for` over an iterator / `while let Some(..) = it.next()`): no break / return out of the loop body, so every element is visited"""
    n = 0
    for fid in fids:
        b = ctx.body(R, fid)
        if not b:
            continue
        for fb in ctx.w.family(fid):
            for comp in sorted(loops(fb), key=lambda c: min(c)):
                ex = loop_exits(fb, comp)
                if not any(is_exhaustion_exit(fb, u) for u, v in ex):
                    continue        # not an iterator-driven loop (e.g. a `loop { .. if done { break } }` fixpoint)
                n += 1
                bad = [(u, v) for (u, v) in ex if not is_exhaustion_exit(fb, u)]
                hdr = min(comp)
                ctx.inst(R, f"scan:{fb.id}#{n}", not bad, short_span(fb.blocks[hdr]["term"].get("s", "")) or fb.span,
                         f"loop ends only when its iterator is exhausted ({what})" if not bad else
                         f"a loop in `{fb.id}` can be left early (exit from bb{bad[0][0]} at {fb.blocks[bad[0][0]]['term'].get('s', '')}) before every element was visited: {what}")
    return n


TRUNCATING = re.compile(r"Iterator::(take_while|take|skip|skip_while|step_by|nth)$")

# exhaustive-scan loops, confirmed by reading: function -> why every element must be visited
SCANS = {
    "C03": ("C03-R8", {"turmoil::for_pairs": "partition / repair apply to every ordered pair of the two host sets",
                       "<regex::Regex as turmoil::dns::ToIpAddrs>::to_ip_addrs": "a regex host set contains every registered name that matches, wherever it was registered"}),
    "C04": ("C04-R7", {"turmoil::sim::Sim::crash": "every matching host is crashed",
                       "turmoil::sim::Sim::run_with_hosts": "every selected host is entered",
                       "turmoil_io_uring::host::IoUringHostState::crash": "every pending operation of the crashed host is dropped"}),
    "C05": ("C05-R6", {"turmoil::top::Topology::tick_by": "every link's clock is advanced on every step"}),
    "C06": ("C06-R8", {"turmoil_net::kernel::tcp::check_retx": "every connection's retransmission timer is examined",
                       "turmoil_net::kernel::tcp::segment_all": "every connection with queued data is segmented",
                       "turmoil_net::kernel::Kernel::egress": "every queued packet leaves the kernel",
                       "turmoil_net::fabric::Fabric::egress_all": "every host's kernel is drained each tick"}),
    "C07": ("C07-R8", {"turmoil_fs::Fs::apply_torn_writes": "every pending write is considered for tearing",
                       "turmoil_fs::Fs::sync_dir": "every pending record of the directory is considered",
                       "turmoil_fs::Fs::sync_file": "every pending record of the file is considered",
                       "turmoil_fs::Fs::sync_file_data": "every pending data record of the file is considered"}),
    "C08": ("C08-R10", {"turmoil::for_pairs": "hold / release apply to every ordered pair of the two host sets",
                        "turmoil::top::Link::hold": "every queued message is put on hold",
                        "turmoil::top::Link::release": "every held message is released",
                        "turmoil::top::Link::take_due": "every due message addressed to the host is taken, whatever precedes it",
                        "turmoil::top::LinkIter::deliver_all": "every held message of the link is delivered",
                        "turmoil::top::Link::deliver_messages": "every deliverable message is handed to its host",
                        "turmoil::top::Topology::deliver_messages": "every link delivers on every step"}),
    "C09": ("C09-R9", {"turmoil::net::udp::MulticastGroups::leave_all": "a dropped socket leaves every group it joined"}),
    "C13": ("C13-R8", {"turmoil_net::kernel::tcp::on_close": "every queued connection of a closing listener is reset",
                       "turmoil_net::kernel::tcp::reap_closed": "every closed connection is reclaimed",
                       "turmoil_net::kernel::socket::wake_all": "every waiter is woken"}),
    "C14": ("C14-R5", {"turmoil::for_pairs": "a per-link latency setting given for two host sets reaches every pair of them",
                       "turmoil::top::Link::take_due": "every message whose delivery time has come is delivered this tick",
                       "turmoil::top::Topology::tick_by": "every link is ticked"}),
    "C18": ("C18-R8", {"turmoil_io_uring::submit::schedule_pending": "every submitted entry is scheduled",
                       "turmoil_io_uring::host::IoUringHostState::crash": "every pending operation is cancelled by a crash"}),
}


def _pairs_unfiltered(ctx, R):
    """for_pairs hands *every* ordered pair of distinct hosts to its callback: the call is control-dependent only on the iteration itself
    and on the `first != second` test (for one-way operations (x, y) and (y, x) are different requests: a visited-set would drop one)"""
    b = ctx.w.bodies.get("turmoil::for_pairs")
    if not b:
        return
    ALLOWED = re.compile(r"Iterator>::next$|::next$|IntoIterator>::into_iter$|::into_iter$|::iter$|PartialEq.*::(ne|eq)$|Deref.*::deref$")
    for bb, t in b.calls(re.compile(r"FnMut.*::call_mut$|Fn.*::call$")):
        extra = set()
        for sbb in control_switches(b, bb):
            for a in Slicer(ctx.w).atoms(b, b.term(sbb)["d"]):
                if a.startswith("call:") and not ALLOWED.search(a[5:]):
                    extra.add(a[5:].rsplit("::", 2)[-2] + "::" + a.rsplit("::", 1)[1])
        ctx.inst(R, "for_pairs:every-ordered-pair", not extra, t["s"], "the callback runs for every ordered pair of distinct hosts" if not extra else
                 f"for_pairs calls its callback only when {sorted(extra)} allows it: with overlapping host sets an ordered pair is skipped - partition_oneway / repair_oneway "
                 "(and hold / release) are applied to one direction of a link only")


def scan_rule(ctx, prop):
    R, table = SCANS[prop]
    if "turmoil::for_pairs" in table:
        _pairs_unfiltered(ctx, R)
    ctx.rule(R, "exhaustive scans: each loop of " + ", ".join(f.rsplit("::", 2)[-2] + "::" + f.rsplit("::", 1)[-1] for f in table) +
                " is left only when its iterator is exhausted (no break / return out of the body) and the iterators are not truncated "
                "(take / skip / take_while / step_by / nth)")
    for fid, why in table.items():
        if fid.startswith(("turmoil_fs", "turmoil_io_uring")) and ctx.config not in ("all", "fs", "fs_iou"):
            continue
        b = ctx.body(R, fid)
        if not b:
            continue
        full_scan_rule(ctx, R, [fid], why)
        tr = sorted({t["f"].rsplit("::", 1)[1] for fb in ctx.w.family(fid) for bb, t in fb.calls(TRUNCATING)})
        ctx.inst(R, f"untruncated:{fid}", not tr, b.span, "no truncating iterator adaptor" if not tr else
                 f"`{fid}` truncates its iteration with {tr}: {why}")
