"""Shared helpers for rule modules."""
import re
from engine.analysis.facts import *
from engine.analysis.flow import *


def key_of(body, extra=None):
    return body.id if extra is None else f"{body.id}:{extra}"


def nth(counter, k):
    """stable per-function ordinal for the n-th occurrence of discriminator k"""
    counter[k] = counter.get(k, 0) + 1
    return counter[k] - 1


def arg_types(body, t):
    return [body.tys[i] for i in t.get("at", ())]


def peeled_adt(body, tyidx):
    t = body.peel(body.tys[tyidx])
    return t.get("adt"), t


def type_mentions(body, tyidx, pred, depth=0, seen=None):
    """does the type (recursively through generic args / refs / tuples) contain a type satisfying pred"""
    if seen is None:
        seen = set()
    if tyidx in seen or depth > 8:
        return False
    seen.add(tyidx)
    t = body.tys[tyidx]
    if pred(t, body):
        return True
    for x in t.get("args", ()) or ():
        if isinstance(x, int) and type_mentions(body, x, pred, depth + 1, seen):
            return True
    if "inner" in t and type_mentions(body, t["inner"], pred, depth + 1, seen):
        return True
    for x in t.get("upvars", ()) or ():
        if type_mentions(body, x, pred, depth + 1, seen):
            return True
    return False


def in_repo(fid):
    return fid.startswith(("turmoil", "<turmoil", "<&turmoil", "<&mut turmoil"))


def is_macro_noise(s):
    x = s.get("x") or ""
    return x.startswith("m:tracing") or x.startswith("m:$crate::") and "tracing" in (s.get("fs") or "") or \
        x.startswith(("m:$crate::event", "m:$crate::level_enabled", "m:$crate::__", "m:$crate::valueset",
                      "m:$crate::fieldset", "m:$crate::callsite", "m:$crate::identify_callsite", "m:$crate::span",
                      "m:$crate::enabled", "m:$crate::metadata", "m:tracing::"))
