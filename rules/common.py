"""Shared helpers for rule modules."""
import re
from engine.analysis.facts import *
from engine.analysis.flow import *


def key_of(body, extra=None):
    return body.id if extra is None else f"{body.id}:{extra}"


def nth(counter, k):
    """stable per-function ordinal for the n-th occurrence of discriminator k"""
    counter[k] = counter.get(k, 0) + 1
    return counter[k] - 1


def arg_types(body, t):
    return [body.tys[i] for i in t.get("at", ())]


def peeled_adt(body, tyidx):
    t = body.peel(body.tys[tyidx])
    return t.get("adt"), t


def type_mentions(body, tyidx, pred, depth=0, seen=None):
    """does the type (recursively through generic args / refs / tuples) contain a type satisfying pred"""
    if seen is None:
        seen = set()
    if tyidx in seen or depth > 8:
        return False
    seen.add(tyidx)
    t = body.tys[tyidx]
    if pred(t, body):
        return True
    for x in t.get("args", ()) or ():
        if isinstance(x, int) and type_mentions(body, x, pred, depth + 1, seen):
            return True
    if "inner" in t and type_mentions(body, t["inner"], pred, depth + 1, seen):
        return True
    for x in t.get("upvars", ()) or ():
        if type_mentions(body, x, pred, depth + 1, seen):
            return True
    return False


def in_repo(fid):
    return fid.startswith(("turmoil", "<turmoil", "<&turmoil", "<&mut turmoil"))


def is_macro_noise(s):
    x = s.get("x") or ""
    return x.startswith("m:tracing") or x.startswith("m:$crate::") and "tracing" in (s.get("fs") or "") or \
        x.startswith(("m:$crate::event", "m:$crate::level_enabled", "m:$crate::__", "m:$crate::valueset",
                      "m:$crate::fieldset", "m:$crate::callsite", "m:$crate::identify_callsite", "m:$crate::span",
                      "m:$crate::enabled", "m:$crate::metadata", "m:tracing::"))


def counter_rule(ctx, R, field, step=None, label=None):
    """monotone counter: every write to `field` anywhere (constructors aside) is `field := field + k` with k > 0
    (`+=`, checked_add / wrapping_add accepted); at least one such write must exist"""
    name = label or field.rsplit("::", 1)[1]
    fname = field.rsplit("::", 1)[1]
    n = 0
    for b in sorted(ctx.w.bodies.values(), key=lambda b: b.id):
        for bb, i, s in b.all_stmts():
            if not (place_last_field(s["p"]) == field and isinstance(s["p"]["p"][-1], dict) and s["p"]["p"][-1].get("f") == fname):
                continue
            n += 1
            ok = False
            why = ""
            lin = linear(b, s["r"]["o"]) if s["r"]["k"] == "use" else None
            if lin and lin[0] == ("field", field) and lin[1] > 0 and (step is None or lin[1] == step):
                ok = True
            else:
                at = Slicer(ctx.w).atoms(b, s["r"].get("o", {})) if s["r"]["k"] == "use" else set()
                adds = [a for a in at if re.search(r"call:.*(checked_add|wrapping_add|saturating_add)$", a)]
                ok = ("field:" + field in at) and bool(adds) and not any(re.search(r"(_sub|_mul|_div|_rem|::sub|::mul)$", a) for a in at if a.startswith("call:"))
                why = f" (value atoms {sorted(at)[:5]})"
            ctx.inst(R, f"counter:{name}:{b.id}#{n}", ok, s["s"], f"{name} advances by a positive step from its previous value" if ok else
                     f"`{b.id}` writes {name} with something other than `{name} + k`{why}: identifiers / sequence numbers can repeat")
    if n == 0 and ctx.strict:
        ctx.bad(R, f"counter:{name}:anchor-missing", "", f"no write to `{field}` found: the counter is gone or never advanced")


def sibling_profile(ctx, fid, callee_filter=None):
    """(callees, fields written, fields read) of a function family, in-repo items only"""
    calls, writes, reads = set(), set(), set()
    for fb in ctx.w.family(fid):
        for bb, t in fb.calls():
            if is_macro_noise(t):
                continue
            f = t["f"]
            if in_repo(f) and "{closure" not in f and (callee_filter is None or callee_filter(f)):
                calls.add(f)
        for bb, i, s in fb.all_stmts():
            for f in place_fields(s["p"]):
                if in_repo(f) and not f.startswith("{env}"):
                    writes.add(f)
            r = s["r"]
            for o in [r.get("o"), r.get("a"), r.get("b")] + list(r.get("ops", [])):
                pl = op_place(o) if isinstance(o, dict) else None
                if pl:
                    for f in place_fields(pl):
                        if in_repo(f) and not f.startswith("{env}"):
                            reads.add(f)
    return calls, writes, reads


def sibling_rule(ctx, R, a, b, expected_diff=(), what=""):
    """Engler-style sibling check: two implementations of the same interface must use the same in-repo callees and touch the same
    fields, except for the enumerated, explained differences"""
    ba, bb_ = ctx.body(R, a), ctx.body(R, b)
    if not ba or not bb_:
        return
    pa, pb = sibling_profile(ctx, a), sibling_profile(ctx, b)
    exp = set(expected_diff)
    diffs = []
    for kind, xa, xb in (("calls", pa[0], pb[0]), ("writes", pa[1], pb[1]), ("reads", pa[2], pb[2])):
        d = (xa ^ xb) - exp
        d = {x for x in d if not x.startswith(a) and not x.startswith(b)}
        if d:
            diffs.append(f"{kind}: only in {a.rsplit('::', 1)[1]}: {sorted(xa - xb - exp)[:4]}, only in {b.rsplit('::', 1)[1]}: {sorted(xb - xa - exp)[:4]}")
    ctx.inst(R, f"siblings:{a.rsplit('::', 1)[1]}~{b.rsplit('::', 1)[1]}", not diffs, ba.span, (what or "siblings use the same callees and fields") if not diffs else
             f"sibling implementations `{a}` and `{b}` disagree ({'; '.join(diffs)}): one of them lacks a step the other performs")


def _uses_of(b, l):
    out = []
    for bb in sorted(b.live_blocks()):
        for st in b.blocks[bb]["st"]:
            r = st.get("r")
            if not r:
                continue
            for o in [r.get("o"), r.get("a"), r.get("b")] + list(r.get("ops", [])):
                if isinstance(o, dict) and op_base(o) == l:
                    out.append(bb)
            if isinstance(r.get("p"), dict) and r["p"]["l"] == l:
                out.append(bb)
        t = b.term(bb)
        if t["k"] == "call" and any(op_base(a) == l for a in t["args"]):
            out.append(bb)
        if t["k"] == "switch" and op_base(t["d"]) == l:
            out.append(bb)
    return out


def dropped_results_rule(ctx, R, callee_pat, allow, crates):
    """error discipline: the Result / Option / bool returned by the listed in-repo operations must be looked at (`?`, match, if, passed
    on, returned); the enumerated `let _ =` sites (root function -> reason) are the only places where it may be discarded"""
    n = 0
    for b in sorted(ctx.w.bodies.values(), key=lambda b: b.id):
        if b.crate not in crates:
            continue
        for bb, t in b.calls(callee_pat):
            if t["d"].get("p") or is_macro_noise(t):
                continue
            dl = t["d"]["l"]
            ty = b.tys[b.locals[dl]["ty"]]
            if ty.get("adt") not in ("std::result::Result", "std::option::Option") and ty.get("s") != "bool":
                continue
            n += 1
            root = b
            while root.parent and root.parent in ctx.w.bodies:
                root = ctx.w.bodies[root.parent]
            k = f"{root.id}<-{t['f'].rsplit('::', 2)[-2]}::{t['f'].rsplit('::', 1)[-1]}#{n}"
            if dl == 0 or _uses_of(b, dl):
                ctx.ok(R, f"consumed:{root.id}<-{t['f'].rsplit('::', 1)[-1]}", t["s"], "result is examined / propagated")
            elif root.id in allow:
                ctx.info(R, f"discarded:{root.id}<-{t['f'].rsplit('::', 1)[-1]}", t["s"], "allowed discard: " + allow[root.id])
            else:
                ctx.bad(R, f"discarded:{root.id}<-{t['f'].rsplit('::', 1)[-1]}", t["s"],
                        f"`{root.id}` discards the result of `{t['f']}`: a failure is silently swallowed where the caller is told the operation succeeded")
