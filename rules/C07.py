"""C07 - after a crash the filesystem holds exactly what was made durable (structural part)."""
from .common import *
from . import C04

DECIDED = ("R1 only the sync / crash code mutates durable state (persisted_files / persisted_dirs / persisted_symlinks / synced_entries); "
           "the pending log grows only in the operation functions and shrinks only in sync_* / crash; R2 Fs::crash clears the whole "
           "pending log on every path and retains only persisted entries whose path is in synced_entries, after the optional torn-write "
           "pass; Sim::crash reaches Fs::crash on every path (shared C04-R1); R3 every PendingOp kind has exactly one durability class: "
           "{Write, SetLen} flushed by sync_file and sync_file_data (siblings agree), the seven directory-entry kinds flushed by sync_dir, "
           "classes disjoint; in sync_dir each directory-entry kind updates synced_entries (creates / rename-to insert, removes / rename-"
           "from remove, the two halves of a rename decided independently) and every flushed op is applied to the persisted image; R4 "
           "background (random) sync is data-only: Fs::sync_dir is reachable only from the sync_dir shim; R5 torn writes are block-"
           "aligned prefixes: the surviving slice starts at 0 and ends at min(blocks * block_size, data.len()) and is applied only to "
           "files with a durable entry.")
NOT_DECIDED = ("that the durable image equals the crate's model for every history (path equality under rename chains, order of flushed "
               "ops, orphan reachability); SetPermissions durability (outside the property).")
DECIDED += "; R8 exhaustive scans: apply_torn_writes, sync_dir, sync_file, sync_file_data consider every pending record"
DECIDED += "; R9 inverse records of one name are selected alike by sync_dir (own CreateDir <=> own RemoveDir); R10 data syncs follow the file through a pending rename (recorded finding D15); R3's Rename clause: the durable entry moves as a whole"
DECIDED += "; R12 a namespace record never overtakes an earlier record on the same name: sync_dir's selection is closed over names or selects no foreign names (recorded finding D43); R2 also: the crash drops the page cache"
DECIDED += '; R13 a data sync inserts the placeholder inode only when persisted_files has none for the path; a truncating open logs its SetLen(0) whatever it created (shared C10-R5)'
DECIDED += "; R14 inside the syncs the pending log is only drained and re-assigned; apply_op_to_persisted's SetLen arm resizes to the recorded length and its Rename arm inserts the moved inode unconditionally"
DECIDED += '; a ring fsync flushes when its completion is reaped (shared C18-R12)'
DECIDED += '; R5 also: torn writes are applied in issue order; the tokio OpenOptions forwards each option to the std setter of the same name (shared C10-R7)'
ASSUMPTIONS = ["IndexMap / IndexSet / Vec API semantics"]

FS = "turmoil_fs::Fs::"
DURABLE = ["persisted_files", "persisted_dirs", "persisted_symlinks", "synced_entries"]
DURABLE_WRITERS = {FS + "new", FS + "apply_op_to_persisted", FS + "apply_torn_writes", FS + "sync_file", FS + "sync_file_data", FS + "sync_dir", FS + "crash"}
PENDING_GROW = {FS + x for x in ("mkdir_with_mode", "rmdir", "unlink", "rename", "write_file", "set_file_len", "create_file_with_mode",
                                  "create_symlink", "create_hard_link", "set_permissions")}
PENDING_SHRINK = {FS + "sync_file", FS + "sync_file_data", FS + "sync_dir", FS + "crash"}
MUT = re.compile(r"::(insert|remove|swap_remove|shift_remove|retain|clear|entry|push|pop|drain|get_mut|values_mut|iter_mut|extend|truncate|append|insert_full|"
                 r"get_index_mut|swap_remove_index|shift_remove_index|sort|sort_by|reverse|or_default|or_insert_with|split_off|remove_entry)$|IndexMut>::index_mut$")
OP = "turmoil_fs::PendingOp"
FILE_CLASS = {"Write", "SetLen"}
DIR_CLASS = {"CreateFile", "CreateDir", "CreateSymlink", "CreateHardLink", "RemoveFile", "RemoveDir", "Rename"}


def _root(ctx, b):
    while b.parent and b.parent in ctx.w.bodies:
        b = ctx.w.bodies[b.parent]
    return b


def _fields_of(b, op):
    o = deref_origin(b, op)
    if o["k"] == "place":
        return root_place(b, o["p"])[1]
    return []


def r1(ctx):
    R = "C07-R1"
    ctx.rule(R, "who-may-write: mutating calls / assignments on Fs::{persisted_*, synced_entries} only in {Fs::new, apply_op_to_persisted, "
                "apply_torn_writes, sync_file, sync_file_data, sync_dir, crash}; Fs::pending: push only in the ten operation functions, "
                "drain / clear / reassignment only in sync_* and crash")
    seen = set()
    for b in sorted(ctx.w.bodies.values(), key=lambda b: b.id):
        if b.crate not in ("turmoil_fs", "turmoil_io_uring", "turmoil"):
            continue
        root = _root(ctx, b).id
        hits = []
        for bb, t in b.calls(MUT):
            if not t["args"]:
                continue
            fs = _fields_of(b, t["args"][0])
            for f in fs:
                if f.startswith(FS):
                    hits.append((f[len(FS):], t["f"].rsplit("::", 1)[1], t["s"]))
        for bb, i, s in b.all_stmts():
            f = place_last_field(s["p"])
            if f and f.startswith(FS) and isinstance(s["p"]["p"][-1], dict) and s["p"]["p"][-1].get("f") == f[len(FS):]:
                hits.append((f[len(FS):], "assign", s["s"]))
        for fld, m, site in hits:
            if (root, fld, m) in seen:
                continue
            seen.add((root, fld, m))
            if fld in DURABLE:
                ok = root in DURABLE_WRITERS
                ctx.inst(R, f"{fld}<-{root}:{m}", ok, site, "durable state written by the sync / crash module" if ok else
                         f"`{root}` mutates durable filesystem state Fs::{fld} directly ({m}): the change bypasses the pending log and survives a crash without a sync")
            elif fld == "pending":
                grow = m in ("push", "extend", "insert", "append")
                ok = (grow and root in PENDING_GROW) or (not grow and root in PENDING_SHRINK)
                ctx.inst(R, f"pending<-{root}:{m}", ok, site, ("log appended by an operation" if grow else "log consumed by sync / crash") if ok else
                         f"`{root}` {'appends to' if grow else 'consumes / rewrites'} the pending log outside the {'operation' if grow else 'sync / crash'} functions")
    ctx.floor(R, 30)


def _rvops(r):
    return [o for o in [r.get("o"), r.get("a"), r.get("b")] + list(r.get("ops", [])) if isinstance(o, dict)]


def r2(ctx):
    R = "C07-R2"
    ctx.rule(R, "Fs::crash: Vec::clear on Fs::pending on every path; retain on persisted_files, persisted_dirs and persisted_symlinks on every "
                "path, each closure returning IndexSet::contains on synced_entries; apply_torn_writes (when block_size is Some) precedes the clear")
    b = ctx.body(R, FS + "crash")
    if not b:
        return
    cl = [bb for bb, t in b.calls(re.compile(r"^std::vec::Vec::clear$")) if FS + "pending" in _fields_of(b, t["args"][0])]
    ok = bool(cl) and not always_passes(b, cl)
    ctx.inst(R, "crash:clears-pending", ok, b.span, "the pending log is discarded on every path" if ok else
             "Fs::crash has a path that keeps pending operations: unsynced changes survive the crash")
    # the page cache is memory too: what was cached before the crash must not make the restarted host's first reads hits
    PC = FS + "page_cache"
    if True:
        clr = []
        for fb in ctx.w.family(b.id):
            for bb, t in fb.calls(re.compile(r"(IndexSet|IndexMap|HashSet|HashMap|VecDeque|Vec|BTreeSet|BTreeMap|PageCache)::(clear|drain)$|^std::option::Option::take$")):
                if t["args"] and "field:" + PC in Slicer(ctx.w).atoms(fb, t["args"][0]):
                    clr.append(t["s"])
            for bb, i, s2 in fb.all_stmts():
                if i != "term" and place_last_field(s2["p"]) in (PC, "turmoil_fs::page_cache::PageCache::pages"):
                    clr.append(s2["s"])
        has_cache = any(f.get("name") == "page_cache" for v in ctx.w.adts.get("turmoil_fs::Fs", {}).get("variants", []) for f in v["fields"])
        if has_cache:
            ctx.inst(R, "crash:clears-page-cache", bool(clr), clr[0] if clr else b.span, "cached pages are dropped with the crash" if clr else
                     "Fs::crash keeps the page cache: the restarted host's first reads are cache hits (1 ms instead of the configured io_latency) - state of the "
                     "crashed incarnation leaks into the next one")
    for fld in ("persisted_files", "persisted_dirs", "persisted_symlinks"):
        rt = [(bb, t) for bb, t in b.calls(re.compile(r"^indexmap::IndexMap::retain$")) if FS + fld in _fields_of(b, t["args"][0])]
        okr = bool(rt) and not always_passes(b, [x for x, _ in rt])
        okc = False
        for bb, t in rt:
            for cid in closure_args(b, t):
                cb = ctx.w.bodies.get(cid)
                if cb:
                    rets = cb.defs().get(0, [])
                    if len(rets) == 1 and rets[0][1] == "term" and re.search(r"IndexSet::contains$", rets[0][2]["f"]) and FS + "synced_entries" in _fields_of(cb, rets[0][2]["args"][0]):
                        okc = True
        ctx.inst(R, f"crash:orphans-{fld}", okr and okc, b.span, f"{fld}: only entries with a durable directory entry survive" if okr and okc else
                 f"Fs::crash does not reduce {fld} to the entries in synced_entries on every path")
    tw = [bb for bb, t in b.calls(FS + "apply_torn_writes")]
    ok = (not tw) or all(b.dominated_by_block(c, 0) and all(c in b.reachable(x) for x in tw) for c in cl)
    ves = [v for v in variant_edges(b, lambda p: place_last_field(p) == FS + "block_size")]
    okg = bool(tw) and bool(ves) and ves[0][1].get("Some") and all(b.dominated_by_edge(x, ves[0][1]["Some"]) for x in tw)
    ctx.inst(R, "crash:torn-before-clear", ok and okg, b.span, "torn writes (only when block_size is configured) are applied before the log is discarded" if ok and okg else
             "torn-write pass is not guarded by block_size / does not precede the clearing of the log")
    ctx.floor(R, 5)


def _ret_values(cb, start):
    """values the closure's bool result may take on paths that start at block `start`: forward propagation of constants
    and copies through whole (projection-free) locals; 'T' / 'F' constants, 'X' anything computed (a comparison, a call)"""
    state = {start: {}}
    work = [start]
    out = set()
    def val(st, o):
        c = op_const(o)
        if c is not None:
            return frozenset(["T" if c.get("v") == 1 else "F"]) if c.get("v") in (0, 1) else frozenset(["X"])
        pl = o.get("c") or o.get("m") if isinstance(o, dict) else None
        if isinstance(pl, dict) and not pl.get("p"):
            return st.get(pl["l"], frozenset(["X"]))
        return frozenset(["X"])
    while work:
        bb = work.pop()
        st = dict(state[bb])
        for s_ in cb.stmts(bb):
            if s_["p"].get("p"):
                continue
            st[s_["p"]["l"]] = val(st, s_["r"].get("o")) if s_["r"]["k"] == "use" else frozenset(["X"])
        t = cb.term(bb)
        if t["k"] == "call" and not t["d"].get("p"):
            st[t["d"]["l"]] = frozenset(["X"])
        if t["k"] == "return":
            out |= st.get(0, frozenset(["X"]))
        for nx in cb.succ(bb):
            old = state.get(nx)
            if old is None:
                state[nx] = dict(st)
                work.append(nx)
            else:
                ch = False
                for k_, v_ in st.items():
                    nv = old.get(k_, frozenset()) | v_ if k_ in old else v_
                    if old.get(k_) != nv:
                        old[k_] = nv
                        ch = True
                if ch:
                    work.append(nx)
    return out


def _partition_sets(ctx, fid):
    """variant set -> true of the partition closure in fid (switch on discr of a PendingOp)"""
    b = ctx.w.bodies.get(fid)
    out = None
    if not b:
        return None
    for bb, t in b.calls(re.compile(r"^std::iter::Iterator::partition$|Iterator>::partition$")):
        for cid in closure_args(b, t):
            cb = ctx.w.bodies.get(cid)
            if not cb:
                continue
            claimed = set()
            for sbb, m, els, adt, pl in variant_edges(cb, lambda p: True):
                if adt != OP:
                    continue
                for v, e in m.items():
                    if "T" in _ret_values(cb, e[1]) or "X" in _ret_values(cb, e[1]):
                        claimed.add(v)
            out = claimed
    return out


def r3(ctx):
    R = "C07-R3"
    ctx.rule(R, "durability classes from the partition closures: sync_file == sync_file_data == {Write, SetLen}; sync_dir == the seven directory-"
                "entry kinds; disjoint; sync_dir's per-op match updates synced_entries in every directory-entry arm; in the Rename arm "
                "the durable entry moves as a whole (`from` is never retired without `to` becoming durable, nor `to` inserted while `from` stays); "
                "apply_op_to_persisted on every iteration")
    sf = _partition_sets(ctx, FS + "sync_file")
    sd = _partition_sets(ctx, FS + "sync_file_data")
    dd = _partition_sets(ctx, FS + "sync_dir")
    for name, got, want in (("sync_file", sf, FILE_CLASS), ("sync_file_data", sd, FILE_CLASS), ("sync_dir", dd, DIR_CLASS)):
        ok = got == want
        ctx.inst(R, f"class:{name}", ok, (ctx.w.bodies.get(FS + name).span if ctx.w.bodies.get(FS + name) else ""),
                 f"{name} flushes exactly {sorted(want)}" if ok else f"{name} flushes {sorted(got) if got is not None else None}, expected {sorted(want)}: "
                 "a log record kind is made durable by the wrong sync (or by none / two)")
    # the two file-sync siblings must decide each record kind from the same inputs (sync_data is sync_all minus nothing, for data ops)
    def arm_inputs(fid):
        b = ctx.w.bodies.get(fid)
        res = {}
        if not b:
            return res
        for bb, t in b.calls(re.compile(r"^std::iter::Iterator::partition$|Iterator>::partition$")):
            for cid in closure_args(b, t):
                cb = ctx.w.bodies.get(cid)
                if not cb:
                    continue
                for sbb, m, els, adt, pl in variant_edges(cb, lambda p: True):
                    if adt != OP:
                        continue
                    for v, e in m.items():
                        ins = set()
                        for x in cb.reachable(e[1]):
                            if not cb.dominated_by_edge(x, e):
                                continue
                            for s2 in cb.stmts(x):
                                for o in [s2["r"].get("o"), s2["r"].get("a"), s2["r"].get("b")]:
                                    if isinstance(o, dict):
                                        ins |= {a for a in Slicer(ctx.w).atoms(cb, o) if a.startswith(("arg:", "field:turmoil_fs::PendingOp"))}
                            tt = cb.term(x)
                            if tt["k"] in ("call", "switch"):
                                for o in tt.get("args", []) + ([tt["d"]] if tt["k"] == "switch" else []):
                                    ins |= {a for a in Slicer(ctx.w).atoms(cb, o) if a.startswith(("arg:", "field:turmoil_fs::PendingOp"))}
                        res[v] = {re.sub(r"@.*$", "", a) for a in ins}
        return res
    ia, ib = arm_inputs(FS + "sync_file"), arm_inputs(FS + "sync_file_data")
    same = ia == ib and bool(ia)
    ctx.inst(R, "class:file-sync-siblings-agree", same, "", "sync_file and sync_file_data select their records from the same inputs" if same else
             f"sync_file and sync_file_data decide differently which records to flush (inputs per kind: {ia} vs {ib}): one of them leaves a synced change in the pending log")
    if sf is not None and dd is not None:
        ctx.inst(R, "class:disjoint", not (sf & dd), "", "file-sync and dir-sync classes are disjoint" if not (sf & dd) else f"{sorted(sf & dd)} is claimed by both sync classes")
    b = ctx.w.bodies.get(FS + "sync_dir")
    if b:
        se_ins = [(bb, t) for bb, t in b.calls(re.compile(r"^indexmap::IndexSet::(insert|insert_full)$")) if FS + "synced_entries" in _fields_of(b, t["args"][0])]
        se_rem = [(bb, t) for bb, t in b.calls(re.compile(r"^indexmap::IndexSet::(swap_remove|shift_remove|remove)$")) if FS + "synced_entries" in _fields_of(b, t["args"][0])]
        nxt = [bb for bb, t in b.calls(re.compile(r"slice::Iter as std::iter::Iterator>::next$"))]
        main = None
        for sbb, m, els, adt, pl in variant_edges(b, lambda p: True):
            if adt == OP and len(m) >= 6:
                main = (sbb, m, els)
        if not main:
            ctx.bad(R, "sync_dir:arms", b.span, "cannot find the per-op match in sync_dir")
        else:
            sbb, m, els = main
            want = {"CreateFile": "ins", "CreateDir": "ins", "CreateSymlink": "ins", "CreateHardLink": "ins", "RemoveFile": "rem", "RemoveDir": "rem"}
            for v, kind in want.items():
                e = m.get(v)
                sites = se_ins if kind == "ins" else se_rem
                cls_edges = [m[v2] for v2, k2 in want.items() if k2 == kind and v2 in m]
                ok = bool(e) and any(x in b.reachable(e[1], stop=nxt) and b.dominated_by_any(x, edges=cls_edges) for x, _ in sites)
                ctx.inst(R, f"sync_dir:arm:{v}", ok, b.term(e[1]).get("s", b.span) if e else b.span,
                         f"{v} {'marks its entry durable' if kind == 'ins' else 'retires the durable entry'}" if ok else
                         f"sync_dir's {v} arm does not {'insert into' if kind == 'ins' else 'remove from'} synced_entries: the entry's durability is wrong after a crash")
            e = m.get("Rename")
            if e:
                FROM, TO = "field:turmoil_fs::PendingOp::from", "field:turmoil_fs::PendingOp::to"
                ins_to = [(x, t) for x, t in se_ins if b.dominated_by_edge(x, e) and TO in Slicer(ctx.w).atoms(b, t["args"][1])]
                rem_from = [(x, t) for x, t in se_rem if b.dominated_by_edge(x, e) and FROM in Slicer(ctx.w).atoms(b, t["args"][1])]
                # the durable entry moves as a whole, like the inode does in the persisted image: on no path is `from` retired
                # without `to` becoming durable, and on no path does `to` become durable while `from` stays
                ends = nxt + b.exits(("return",))
                ib = [x for x, _ in ins_to]
                rb = [x for x, _ in rem_from]
                p1 = bool(rem_from) and bool(ins_to)
                for x, t in rem_from:
                    start = t["t"] if t.get("t") is not None else x
                    if not always_passes(b, ib, to_blocks=ends, frm=start):
                        continue            # unconditional insert after the removal
                    # `let was = set.swap_remove(from); if was || .. { set.insert(to) }`: the insert follows whenever something was removed
                    tested = False
                    for s2, te, fe, o in guards_on(b, lambda o: o["k"] == "call" and o.get("bb") == x):
                        if te and all(not always_passes(b, ib, to_blocks=ends, frm=e2[1]) for e2 in te):
                            tested = True
                    p1 = p1 and tested
                p2 = bool(ins_to) and all(x not in b.reachable(e[1], removed_blocks=rb) for x in ib)
                ok = p1 and p2
                ctx.inst(R, "sync_dir:arm:Rename", ok, b.term(e[1]).get("s", b.span),
                         "rename: the durable entry moves from the old name to the new one as a whole" if ok else
                         "sync_dir's Rename arm can " + ("retire `from` without making `to` durable (sync of the source directory of a cross-directory rename: "
                                                         "after a crash the file exists under neither name - synced data is lost)" if not p1 else "") +
                         (" and " if not p1 and not p2 else "") +
                         ("make `to` durable while `from` stays durable (a stale entry keeps an unrelated, never dir-synced file alive / the old name survives)" if not p2 else ""))
            else:
                ctx.bad(R, "sync_dir:arm:Rename", b.span, "no Rename arm in sync_dir")
        ap = [bb for bb, t in b.calls(FS + "apply_op_to_persisted")]
        if nxt and ap:
            best = None
            for nb in nxt:
                for sbb2, m2, els2, adt2, pl2 in variant_edges(b, lambda p: True):
                    if adt2 == "std::option::Option" and "Some" in m2 and b.dominated_by_block(sbb2, nb) and pl2["l"] == b.term(nb)["d"]["l"]:
                        pc = path_counts(b, m2["Some"][1], lambda x: x in ap, stop_blocks=[nb], only_stop=True)
                        if pc is not None and (best is None or pc == (1, 1)):
                            best = pc
            ctx.inst(R, "sync_dir:applies-every-op", best == (1, 1), b.span, "every flushed op is applied to the persisted image exactly once" if best == (1, 1) else
                     f"flushed ops are applied {best} times per iteration")
    for fid in (FS + "sync_file", FS + "sync_file_data"):
        fb = ctx.w.bodies.get(fid)
        if fb:
            ap = [bb for bb, t in fb.calls(FS + "apply_op_to_persisted")]
            if not ap:
                # `to_flush.iter().for_each(|op| self.apply_op_to_persisted(op))`: the body of the loop as a closure
                for bb, t in fb.calls(re.compile(r"Iterator::for_each$|Iterator>::for_each$")):
                    for cid in closure_args(fb, t):
                        cb = ctx.w.bodies.get(cid)
                        apb = [x for x, _ in cb.calls(FS + "apply_op_to_persisted")] if cb else []
                        if apb and all(r_ not in cb.reachable(0, removed_blocks=apb) for r_ in cb.exits()):
                            ap.append(bb)
            asg = [bb for bb, i, s in fb.all_stmts() if place_last_field(s["p"]) == FS + "pending"]
            ctx.inst(R, f"{fid.rsplit('::', 1)[1]}:applies-and-keeps", bool(ap) and bool(asg), fb.span, "flushed ops applied, the rest kept in the log" if ap and asg else
                     f"{fid} does not apply the flushed ops / keep the remainder")
    ctx.floor(R, 14)


def r4(ctx):
    R = "C07-R4"
    ctx.rule(R, "Fs::sync_dir is called only from shim::std::fs::sync_dir; the random background-sync sites (draws on sync_probability) reach "
                "only Fs::sync_file")
    callers = sorted({_root(ctx, b).id for b, bb, t in who_calls(ctx.w, FS + "sync_dir")})
    ok = set(callers) <= {"turmoil_fs::shim::std::fs::sync_dir"}
    ctx.inst(R, "sync_dir:callers", ok and bool(callers), "", f"Fs::sync_dir callers: {callers}" + ("" if ok else " - directory entries can become durable without an explicit directory sync"))
    n = 0
    for b in sorted(ctx.w.bodies.values(), key=lambda b: b.id):
        if b.crate not in ("turmoil_fs", "turmoil_io_uring"):
            continue
        draws = []
        for bb, t in b.calls(re.compile(r"FsContext::random_bool$|sim::sample_prob$|Rng::random_bool$")):
            at = set()
            for a in t["args"]:
                at |= Slicer(ctx.w).atoms(b, a)
            if any("sync_probability" in a for a in at):
                draws.append((bb, t))
        for bb, t in draws:
            n += 1
            root = _root(ctx, b)
            bad = [x for x in ctx.w.family(root.id) for _ in x.calls(re.compile(r"Fs::sync_dir$|shim::std::fs::sync_dir$"))]
            ctx.inst(R, f"random-sync:{root.id}", not bad, t["s"], "random background sync flushes file data only" if not bad else
                     f"the random sync in `{root.id}` can reach a directory sync")
    ctx.floor(R, 3)


def r5(ctx):
    R = "C07-R5"
    ctx.rule(R, "apply_torn_writes: the surviving slice is data[..n] (RangeTo: starts at 0) with n = min(surviving_blocks * block_size, data.len()); "
                "only writes to paths in synced_entries are considered; only Write ops are torn")
    b = ctx.body(R, FS + "apply_torn_writes")
    if not b:
        return
    ok_slice = ok_min = ok_synced = ok_write = False
    for fb in ctx.w.family(b.id):
        for bb, t in fb.calls(re.compile(r"Index>::index$")):
            rt = fb.tys[t["at"][1]]["s"] if len(t.get("at", ())) > 1 else ""
            if "RangeTo<" in rt and "RangeToInclusive" not in rt:
                at = Slicer(ctx.w).atoms(fb, t["args"][1])
                ok_slice = True
                ok_min = any(re.search(r"call:.*::min$", a) for a in at) and any("block_size" in a or a.startswith("arg:") or "upvar" in a for a in at)
        for sbb, te, fe, o in guards_on(fb, lambda o: o["k"] == "call" and re.search(r"IndexSet::contains$", o["t"]["f"])):
            if FS + "synced_entries" in _fields_of(fb, o["t"]["args"][0]):
                ok_synced = True
        for sbb, m, els, adt, pl in variant_edges(fb, lambda p: True):
            if adt == OP and set(m.keys()) == {"Write"}:
                ok_write = True
    # persisted content may only grow here: resize is behind `end > content.len()`
    okg = True
    rs = []
    for fb in ctx.w.family(b.id):
        gt = []
        for sbb, te, fe, o in guards_on(fb, lambda o: o["k"] == "bin" and o["op"] in ("Gt", "Lt")):
            gt += te
        for bb, t in fb.calls(re.compile(r"^std::vec::Vec::(resize|truncate|clear|set_len|drain|split_off)$")):
            at = Slicer(ctx.w).atoms(fb, t["args"][0])
            if "field:turmoil_fs::FileData::content" in at:
                rs.append(t)
                if not (t["f"].endswith("resize") and gt and fb.dominated_by_any(bb, edges=gt)):
                    okg = False
    ctx.inst(R, "torn:never-shrinks", okg and bool(rs), b.span, "a torn write can only extend the durable content (resize behind `end > len`)" if okg and rs else
             "apply_torn_writes can shrink already durable content (unguarded resize / truncate): synced bytes behind the torn prefix are lost")
    ctx.inst(R, "torn:prefix-slice", ok_slice and ok_min, b.span, "surviving bytes = data[..min(blocks * block_size, len)]" if ok_slice and ok_min else
             "the torn-write slice is not a prefix clipped to min(blocks * block_size, data.len())")
    ctx.inst(R, "torn:only-durable-entries", ok_synced, b.span, "only files with a durable directory entry receive torn data" if ok_synced else "torn writes are applied without the synced_entries test")
    # ... laid over the durable image in the order the writes were issued (an overlap ends up with the *newer* write's bytes)
    rev = sorted({t["f"].rsplit("::", 1)[1] for fb in ctx.w.family(b.id) for bb, t in fb.calls(re.compile(r"^std::vec::Vec::(pop|swap_remove|reverse|sort\w*)$|Iterator(>)?::rev$|^\[T\]::(reverse|sort\w*)$|VecDeque::pop_back$"))})
    ctx.inst(R, "torn:applied-in-issue-order", not rev, b.span, "surviving prefixes are applied oldest first" if not rev else
             f"apply_torn_writes walks the surviving writes out of issue order ({', '.join(rev)}): where two unsynced writes overlap and both survive, the overlap gets the older write's "
             "bytes under the newer write's tail - a state no sequence of block-aligned prefixes permits")
    ctx.inst(R, "torn:only-writes", ok_write, b.span, "only Write records are torn" if ok_write else "torn-write pass does not select exactly the Write records")
    ctx.floor(R, 5)


OP_TABLE = {"mkdir_with_mode": "CreateDir", "rmdir": "RemoveDir", "unlink": "RemoveFile", "rename": "Rename", "write_file": "Write",
            "set_file_len": "SetLen", "create_file_with_mode": "CreateFile", "create_symlink": "CreateSymlink",
            "create_hard_link": "CreateHardLink", "set_permissions": "SetPermissions"}


def r6(ctx):
    R = "C07-R6"
    ctx.rule(R, "every mutating Fs operation logs exactly its own record kind: the PendingOp variant pushed onto Fs::pending by each of the ten "
                "operation functions is the one of the table, and no Ok / normal return of an operation that changed nothing else skips the "
                "push (a change that is not in the log can neither be rolled back by crash nor flushed by sync)")
    for fn, want in OP_TABLE.items():
        b = ctx.body(R, FS + fn)
        if not b:
            continue
        kinds = set()
        pushes = []
        for bb, t in b.calls(re.compile(r"^std::vec::Vec::push$")):
            if FS + "pending" not in _fields_of(b, t["args"][0]):
                continue
            o = origin(b, t["args"][1])
            v = o["r"].get("variant") if o["k"] == "agg" and o["r"].get("adt") == OP else "?"
            kinds.add(v)
            pushes.append(bb)
        ok = kinds == {want}
        ctx.inst(R, f"{fn}:logs-{want}", ok, b.span, f"{fn} appends PendingOp::{want}" if ok else
                 f"`{FS}{fn}` appends {sorted(kinds)} instead of exactly PendingOp::{want}: the operation is rolled back / flushed as the wrong kind (or not at all)")
        if fn in ("create_file_with_mode", "set_file_len", "create_symlink", "create_hard_link", "set_permissions", "mkdir_with_mode", "rmdir", "unlink"):
            # every Ok(()) / unit return passes a push (error returns are exempt)
            okr = [x for x, i, st in b.all_stmts() if st["p"]["l"] == 0 and not st["p"].get("p") and
                   ((st["r"]["k"] == "agg" and st["r"].get("variant") == "Ok") or (st["r"]["k"] == "agg" and st["r"].get("ak") == "tuple" and not st["r"]["ops"]) or
                    (st["r"]["k"] == "use" and op_const(st["r"]["o"]) is not None and "()" in str(op_const(st["r"]["o"]).get("k"))))]
            miss = [x for x in okr if not b.dominated_by_any(x, blocks=pushes)]
            ctx.inst(R, f"{fn}:success-implies-logged", not miss and bool(pushes), b.span, "every successful return has logged the operation" if not miss and pushes else
                     f"`{FS}{fn}` can return success without having appended to the pending log")
    ctx.floor(R, 16)


def r7(ctx):
    R = "C07-R7"
    ctx.rule(R, "error discipline: the results of Fs::sync_file / sync_file_data / sync_dir / check_space are examined or propagated by the shims "
                "and io_uring executors; only the three random background-sync sites may discard sync_file's result (a sync that failed must not report success)")
    allow = {"turmoil_fs::shim::std::fs::File::set_len": "random background sync is best effort",
             "turmoil_fs::shim::std::fs::File::write_at_internal": "random background sync is best effort",
             "turmoil_io_uring::sim::exec_write": "random background sync is best effort"}
    dropped_results_rule(ctx, R, re.compile(r"^turmoil_fs::Fs::(sync_file|sync_file_data|sync_dir|check_space)$"), allow, ("turmoil_fs", "turmoil_io_uring", "turmoil"))
    ctx.floor(R, 6)


def r9(ctx):
    R = "C07-R9"
    ctx.rule(R, "a sync never flushes a log record past an earlier, still pending record of the same name: sync_dir(d) selects records of "
                "d's *entries* by `p.parent() == d` and d's own creation by `p == d`; when CreateDir is selected by its own path, the inverse "
                "record RemoveDir must be selected by its own path too (and retire the durable entry) - otherwise `rmdir d; mkdir d; "
                "sync_dir(d)` flushes the creation, leaves the older removal in the log, and the next sync of the parent durably removes the "
                "directory that was re-created and synced")
    b = ctx.body(R, FS + "sync_dir")
    if not b:
        return
    own = {}
    for bb, t in b.calls(re.compile(r"^std::iter::Iterator::partition$|Iterator>::partition$")):
        for cid in closure_args(b, t):
            cb = ctx.w.bodies.get(cid)
            if not cb:
                continue
            for sbb, m, els, adt, pl in variant_edges(cb, lambda p: True):
                if adt != OP:
                    continue
                for v, e in m.items():
                    for x, t2 in cb.calls(re.compile(r"PartialEq>::eq$|^std::cmp::PartialEq::eq$")):
                        if not cb.dominated_by_edge(x, e):
                            continue
                        at = Slicer(ctx.w).atoms(cb, t2["args"][0]) | Slicer(ctx.w).atoms(cb, t2["args"][1])
                        if not any(a.endswith("Path::parent") for a in at if a.startswith("call:")):
                            own[v] = t2["s"]
    for a_, inv in (("CreateDir", "RemoveDir"),):
        if a_ in own:
            ok = inv in own
            ctx.inst(R, f"sync_dir:own-path:{inv}", ok, own.get(inv, own[a_]), f"{a_} and {inv} of the directory itself are flushed together" if ok else
                     f"sync_dir flushes the directory's own {a_} (`p == path`) but not an earlier pending {inv} of the same path: the stale removal stays in the "
                     "log and later durably deletes the re-created, synced directory")
    ctx.floor(R, 1)


def r10(ctx):
    R = "C07-R10"
    ctx.rule(R, "a data sync finds the file's pending data whatever the file is called by now: pending Write / SetLen records are keyed by "
                "the path string they were issued under and sync_file / sync_file_data select them by `p == path`; with a Rename still "
                "pending between the write and the sync the names differ, so either the rename re-keys the pending data records "
                "(the function that logs PendingOp::Rename rewrites Fs::pending) or the selection follows pending renames (the sync family "
                "looks at PendingOp::Rename / calls a resolve_* / path_renamed_to helper). Neither -> sync_all returns Ok and the data is "
                "not durable")
    rn = [b for b in ctx.w.bodies.values() if b.crate == "turmoil_fs" and any(s["r"]["k"] == "agg" and s["r"].get("adt") == OP and s["r"].get("variant") == "Rename" for _, _, s in b.all_stmts())]
    rekeys = False
    for b in rn:
        for fb in ctx.w.family(b.id):
            for bb, t in fb.calls(re.compile(r"(iter_mut|for_each|retain_mut|drain)$")):
                if t["args"] and FS + "pending" in _fields_of(fb, t["args"][0]):
                    rekeys = True
    follows = {}
    for fid in (FS + "sync_file", FS + "sync_file_data"):
        b = ctx.body(R, fid)
        if not b:
            continue
        f = False
        for fb in ctx.w.family(fid):
            if any(True for _ in fb.calls(re.compile(r"turmoil_fs::Fs::(resolve_\w+|path_renamed_to)$"))):
                f = True
            for sbb, m, els, adt, pl in variant_edges(fb, lambda p: True):
                if adt == OP and "Rename" in m:
                    f = True
        follows[fid] = f
        ok = rekeys or f
        ctx.inst(R, f"{fid.rsplit('::', 1)[1]}:rename-aware", ok, b.span, "pending data records follow the file through a pending rename" if ok else
                 f"`{fid}` selects pending Write / SetLen records by the path it is called with and nothing re-keys them when the file is renamed: "
                 "write /a; rename /a -> /b; sync_all(/b); crash leaves the old contents (the synced data is lost)")
    ctx.floor(R, 2)


def r11(ctx):
    R = "C07-R11"
    ctx.rule(R, "(a) the pending log is append-only: a record is never modified after it was pushed - no `last_mut` / `iter_mut` / `get_mut` / "
                "`first_mut` / index-assignment on Fs::pending outside the crash-time tearing itself (torn writes are cut per record, so two writes merged into one "
                "record are torn on a grid the block-size knob does not permit; sync classes and timestamps are per record too); "
                "(b) sync_dir(d) selects the records of d's *entries*: every arm of its selection and of its durable-entry update compares "
                "`p.parent()` (or, for the directory itself, `p`) with d for equality - never a prefix test (`starts_with`, `ancestors`, "
                "`strip_prefix`), which would flush removals and creations in directories that were never synced")
    MUT = re.compile(r"^std::vec::Vec::(last_mut|first_mut|iter_mut|get_mut|swap|reverse|sort\w*|dedup\w*)$|slice::<impl \[T\]>::(last_mut|first_mut|iter_mut|get_mut|swap|reverse|sort\w*)$|IndexMut>::index_mut$")
    bad = []
    for b in sorted(ctx.w.bodies.values(), key=lambda b: b.id):
        if b.crate != "turmoil_fs" or "::tests::" in b.id:
            continue
        for bb, t in b.calls(re.compile(r"(::|>::)(last_mut|first_mut|iter_mut|get_mut|index_mut|split_last_mut|split_first_mut|swap|reverse|sort\w*|dedup\w*)$")):
            # the container the call works on is the log itself (the receiver chain, not the provenance of an index / range argument:
            # `window[dst_offset..][..len]` in read_file slices the caller's buffer with numbers that come from a record)
            if t["args"] and "field:" + FS + "pending" in Slicer(ctx.w).atoms(b, t["args"][0]) and \
                    (FS + "pending") in receiver_root(b, t["args"][0])[1]:
                root = b
                while root.parent and root.parent in ctx.w.bodies:
                    root = ctx.w.bodies[root.parent]
                if root.id == FS + "apply_torn_writes":
                    continue        # the crash itself cuts each record to the blocks that made it to disk: that is the tearing
                bad.append((root.id, t["f"].rsplit("::", 1)[1], t["s"]))
    ctx.inst(R, "pending:append-only", not bad, bad[0][2] if bad else "", "no record of the pending log is modified in place" if not bad else
             f"`{bad[0][0]}` modifies a record of the pending log in place (`{bad[0][1]}` on Fs::pending): records are torn, classified and timestamped one by one - "
             "two sequential writes coalesced into one record are torn on the grid of the first write (abc|def with block 4 can leave `abcd`)")
    sd = ctx.body(R, FS + "sync_dir")
    if sd:
        PREFIX = re.compile(r"Path::(starts_with|ancestors|strip_prefix|ends_with)$|PathBuf::(starts_with|ancestors|strip_prefix)$")
        pre = [(fb.id, t["s"]) for fb in ctx.w.family(sd.id) for bb, t in fb.calls(PREFIX)]
        par = [1 for fb in ctx.w.family(sd.id) for bb, t in fb.calls(re.compile(r"Path::parent$"))]
        ok = not pre and len(par) >= 6
        ctx.inst(R, "sync_dir:selects-by-parent", ok, pre[0][1] if pre else sd.span, f"sync_dir compares parents for equality ({len(par)} tests)" if ok else
                 "sync_dir selects records with a prefix test instead of `p.parent() == dir`: syncing an ancestor makes removals (or creations) in deeper, never-synced "
                 "directories durable - an unsynced remove is not rolled back by a crash and durably synced files are lost")
    ctx.floor(R, 2)


def r13(ctx):
    R = "C07-R13"
    ctx.rule(R, "a data sync never replaces durable data: sync_file / sync_file_data insert an empty placeholder inode into Fs::persisted_files so "
                "that flushed writes have somewhere to land while the file's CreateFile is still pending - that insertion hangs on the `absent` edge "
                "of a membership test on Fs::persisted_files itself (contains_key / get / entry on the same map). A test on another collection "
                "(synced_entries: is the directory entry durable?) lets every later data sync overwrite the inode that earlier syncs filled")
    PF = FS + "persisted_files"
    n = 0
    for fid in (FS + "sync_file", FS + "sync_file_data"):
        b = ctx.w.bodies.get(fid)
        if not b:
            continue
        for fb in ctx.w.family(fid):
            for bb, t in fb.calls(re.compile(r"^indexmap::IndexMap::(insert|insert_full)$|HashMap::insert$|BTreeMap::insert$")):
                if not t["args"] or PF not in _fields_of(fb, t["args"][0]):
                    continue
                n += 1
                ok = False
                for sbb, te, fe, o in guards_on(fb, lambda o: o["k"] == "call" and re.search(r"::(contains_key|contains)$", o["t"]["f"])):
                    if PF in _fields_of(fb, o["t"]["args"][0]) and fe and fb.dominated_by_any(bb, edges=fe):
                        ok = True
                for sbb, m, els, adt, pl in variant_edges(fb, lambda p: True):
                    if adt == "std::option::Option":
                        src = origin(fb, {"c": {"l": pl["l"]}})
                        if src["k"] == "call" and re.search(r"::(get|get_mut)$", src["t"]["f"]) and PF in _fields_of(fb, src["t"]["args"][0]):
                            ne = m.get("None") or els
                            if fb.dominated_by_edge(bb, ne):
                                ok = True
                ctx.inst(R, f"placeholder-only-when-absent:{fid.rsplit('::', 1)[1]}#{n}", ok, t["s"], "the placeholder inode is inserted only when the map has no inode for the path" if ok else
                         f"`{fid}` inserts a fresh inode into persisted_files without testing that map for the path: while the file's directory entry is not yet durable every sync_all / fsync "
                         "replaces the inode that earlier data syncs had filled - `AAAA` synced, `BBBB` synced, crash: the file holds \\0\\0\\0\\0BBBB")
    if ctx.strict and n < 1:
        ctx.bad(R, "placeholder-only-when-absent", "", "no placeholder insertion found in sync_file / sync_file_data: re-derive")
    ctx.floor(R, 1)


def r12(ctx):
    R = "C07-R12"
    ctx.rule(R, "a namespace record never overtakes an earlier record on the same name: sync_dir(d) selects the records of d's entries, but two "
                "kinds of record it selects also name an entry of a directory that is *not* being synced - a Rename with only one side in d (it "
                "is flushed whole) and d's own creation. If the selection is a per-record predicate (it sees one record and `d`), the earlier "
                "pending records on that foreign name - the creation of the rename's source, a removal of its target, the removal of the name "
                "d was created under - stay behind and are replayed later against the wrong entry. The selection must therefore be closed over "
                "names (it consults the log, not only the record), or select no foreign names")
    sd = ctx.body(R, FS + "sync_dir")
    if not sd:
        return
    OP = "turmoil_fs::PendingOp"
    sel = None
    for bb, t in sd.calls(re.compile(r"Iterator::(partition|filter|partition_in_place)$|Vec::(retain|retain_mut|extract_if|drain_filter)$")):
        src = Slicer(ctx.w).atoms(sd, t["args"][0])
        if "field:" + FS + "pending" not in src:
            continue
        for cid in closure_args(sd, t):
            cb = ctx.w.bodies.get(cid)
            if cb and any(adt == OP for sbb, m, els, adt, pl in variant_edges(cb, lambda p: True)):
                sel = (bb, t, cb)
    if not sel:
        ctx.inst(R, "sync_dir:selection-found", False, sd.span, "sync_dir no longer selects records with a predicate closure over Fs::pending: re-derive")
        ctx.floor(R, 1)
        return
    bb, t, cb = sel
    # what the predicate can see: its captures
    caps = set()
    for b2, i2, s2 in sd.all_stmts():
        r = s2["r"]
        if i2 != "term" and r["k"] == "agg" and r.get("def") == cb.id:
            for o in r["ops"]:
                caps |= Slicer(ctx.w).atoms(sd, o)
    per_record = "field:" + FS + "pending" not in caps and not any(a.startswith("call:") and ("collect" in a or "HashSet" in a or "IndexSet" in a) for a in caps)
    # foreign names: the Rename arm tests the parent of both ends; an arm compares a record's path with d itself
    foreign = []
    for sbb, m, els, adt, pl in variant_edges(cb, lambda p: True):
        if adt != OP:
            continue
        if "Rename" in m:
            r_ = cb.reachable(m["Rename"][1])
            ends = set()
            for x, t2 in cb.calls(re.compile(r"Path::parent$")):
                if x in r_:
                    at = Slicer(ctx.w).atoms(cb, t2["args"][0])
                    ends |= {f.rsplit("::", 1)[1] for f in (a[6:] for a in at if a.startswith("field:")) if f.startswith(OP + "::Rename::") or f.endswith("::from") or f.endswith("::to")}
            if {"from", "to"} <= ends:
                foreign.append("a Rename with one end in the directory")
    for x, t2 in cb.calls(re.compile(r"PartialEq.*::eq$")):
        a0, a1 = Slicer(ctx.w).atoms(cb, t2["args"][0]), Slicer(ctx.w).atoms(cb, t2["args"][1])
        both = a0 | a1
        if any(a.startswith("field:" + OP) or (a.startswith("field:") and a.endswith("::path")) for a in both) and not any(a.endswith("Path::parent") for a in both if a.startswith("call:")) \
                and any("{env}" in a or a.startswith("arg:1:") for a in both):
            foreign.append("the directory's own creation / removal")
            break
    ok = not (per_record and foreign)
    ctx.inst(R, "sync_dir:foreign-names-closed", ok, t["s"], "the selection is closed over names (or selects no foreign names)" if ok else
             f"sync_dir selects records one by one (the predicate sees the record and the directory only) and selects {sorted(set(foreign))}: such a record names an entry of "
             "a directory that is not being synced and is flushed past the earlier pending records on that name - create /d1/a; rename /d1/a -> /d2/b; sync_dir(/d2); "
             "crash leaves /d2/b absent, and remove /d2/b; rename /d1/a -> /d2/b; sync_dir(/d1); sync_dir(/d2); crash loses a synced file")
    ctx.floor(R, 1)


def r14(ctx):
    R = "C07-R14"
    ctx.rule(R, "what a sync takes out of the log it applies, and what it applies replaces what was durable: inside sync_file / "
                "sync_file_data / sync_dir the pending log is only drained as a whole and re-assigned (no retain / remove / clear: a "
                "record dropped there is neither rolled back nor made durable); in apply_op_to_persisted the SetLen arm resizes the "
                "content to the recorded length (extends as well as cuts) and the Rename arm inserts the moved inode under the new "
                "name unconditionally (replacing an inode that is already there)")
    DROPS = re.compile(r"::(retain|retain_mut|remove|swap_remove|shift_remove|clear|truncate|pop|pop_front|pop_back|split_off|dedup|dedup_by|dedup_by_key)$")
    n = 0
    for name in ("sync_file", "sync_file_data", "sync_dir"):
        if FS + name not in ctx.w.bodies:
            continue
        n += 1
        bad = []
        for fb in ctx.w.family(FS + name):
            for bb, t in fb.calls(DROPS):
                if t["args"] and FS + "pending" in _fields_of(fb, t["args"][0]):
                    bad.append(t)
        ctx.inst(R, f"{name}:log-only-drained", not bad, bad[0]["s"] if bad else ctx.w.bodies[FS + name].span,
                 "the log leaves the function as the kept remainder of one drain" if not bad else
                 f"Fs::{name} removes records from the pending log with `{bad[0]['f'].rsplit('::', 1)[1]}` without applying them: an unsynced write / truncate "
                 "of a file that re-uses the name is silently discarded - the next sync_all returns Ok and the data is gone after a crash")
    if ctx.strict and n < 3:
        ctx.bad(R, "log-only-drained", "", f"only {n} of the three sync functions found: re-derive")
    b = ctx.body(R, FS + "apply_op_to_persisted")
    if not b:
        return
    main = None
    for sbb, m, els, adt, pl in variant_edges(b, lambda p: True):
        if adt == OP and len(m) >= 6:
            main = m
    if not main:
        ctx.bad(R, "apply:arms", b.span, "cannot find the per-op match in apply_op_to_persisted")
        return
    e = main.get("SetLen")
    if e:
        rz = []
        for bb, t in b.calls(re.compile(r"^std::vec::Vec::resize$")):
            if b.dominated_by_edge(bb, e) and "field:turmoil_fs::FileData::content" in Slicer(ctx.w).atoms(b, t["args"][0]) and \
                    "field:turmoil_fs::PendingOp::len" in Slicer(ctx.w).atoms(b, t["args"][1]):
                rz.append(t)
        ctx.inst(R, "apply:SetLen:resizes-to-recorded-length", bool(rz), b.term(e[1]).get("s", b.span), "a flushed SetLen sets the durable length (resize)" if rz else
                 "the SetLen arm of apply_op_to_persisted does not resize the durable content to the recorded length: a synced set_len that extends the "
                 "file is lost (the file snaps back to its old length after the sync / a crash)")
    else:
        ctx.bad(R, "apply:SetLen", b.span, "no SetLen arm in apply_op_to_persisted")
    e = main.get("Rename")
    if e:
        MAPS = ("persisted_files", "persisted_dirs", "persisted_symlinks")
        took = {}
        for bb, t in b.calls(re.compile(r"^indexmap::IndexMap::(swap_remove|shift_remove|remove)$")):
            if b.dominated_by_edge(bb, e):
                for f in _fields_of(b, t["args"][0]):
                    if f.startswith(FS) and f[len(FS):] in MAPS:
                        took[f[len(FS):]] = t
        put = set()
        for bb, t in b.calls(re.compile(r"^indexmap::IndexMap::insert$")):
            if b.dominated_by_edge(bb, e) and "field:turmoil_fs::PendingOp::to" in Slicer(ctx.w).atoms(b, t["args"][1]):
                for f in _fields_of(b, t["args"][0]):
                    if f.startswith(FS):
                        put.add(f[len(FS):])
        for mp in MAPS:
            if mp not in took:
                if ctx.strict:
                    ctx.bad(R, f"apply:Rename:{mp}", b.span, f"the Rename arm does not take the inode out of {mp}: re-derive")
                continue
            ok = mp in put
            ctx.inst(R, f"apply:Rename:{mp}:replaces-destination", ok, took[mp]["s"], "the moved inode is inserted under the new name (replacing what is there)" if ok else
                     f"the Rename arm takes the inode out of Fs::{mp} but does not `insert` it under the new name unconditionally: renaming onto an existing durable "
                     "file keeps the old inode - after sync_dir and a crash the destination holds the old bytes and the synced new contents exist under no name")
    else:
        ctx.bad(R, "apply:Rename", b.span, "no Rename arm in apply_op_to_persisted")
    ctx.floor(R, 7)


def run(ctx):
    from . import C10
    r14(ctx)
    if ctx.config in ("all", "fs_iou"):
        from . import C18
        C18.r12(ctx)   # a ring fsync flushes when it is reaped - after the writes submitted before it
    C10.r7(ctx)   # ... through either front-end: the tokio OpenOptions forwards append / create_new / truncate to the std setter of the same name
    C10.r5(ctx)   # what reaches the log is what the caller asked for: a truncating open logs its SetLen(0) also for a file it just created
    r13(ctx)
    r12(ctx)
    r11(ctx)
    r10(ctx)
    r9(ctx)
    scan_rule(ctx, "C07")
    r7(ctx)
    r6(ctx)
    r1(ctx)
    r2(ctx)
    r3(ctx)
    r4(ctx)
    r5(ctx)
    C04.r1(ctx)   # Sim::crash reaches Fs::crash for every crashed host
