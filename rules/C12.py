"""C12 - turmoil::net pairs every connect with exactly one accept, or refuses it (structural part)."""
from .common import *
from engine.analysis.obligation import Obligations, Spec

DECIDED = ("R1 the listener's request queue is FIFO (push_back in receive_from_network, pop_front in accept, no other mutator); "
           "R2 a SYN is queued only behind the bind-address match, otherwise its one-shot sender is dropped (refusal); R3 the "
           "connector maps a dropped one-shot to ConnectionRefused and the acceptor loops again when the connector is gone; "
           "R4 every stream-table entry registered with Tcp::new_stream is owned on every exit - return, `?` error arm and the "
           "cancellation edge of every await - by a release call, a releasing guard or the TcpStream handle; R5 dropping the "
           "listener unbinds (discarding queued requests); R6 both ends mirror addresses: accept builds SocketPair(my_addr, origin).")
NOT_DECIDED = ("pairing of concrete addresses at run time, ordering across hosts under reordering latencies, the established "
               "counts as numbers.")
DECIDED += "; R7 reference-count agreement: ref_ct starts at N, close_stream_half decrements by one and is called by exactly the N Drop impls of the halves TcpStream::new builds; everything else removes an entry with reset_stream"
DECIDED += "; R8 the backlog counts only live requests and never holds a request for a pair that is still in the stream table"
DECIDED += "; R9 accept parks on the listener's Notify only on the queue-empty edge of its own pop, and every enqueue of a request notifies"
DECIDED += '; R10 every traversal of the hosts in Sim::step takes the due messages off the links (a SYN for a host whose software has returned is refused, not parked)'
DECIDED += '; a partition destroys every message on the link, held ones included (shared C03-R3)'
DECIDED += '; R11 a Config knob reaches the constructor parameter of its own name; the in-simulation and Sim-handle spellings of partition / repair reach the same operation (shared C03-R6); R4 also: ConnectGuard::drop releases on every path'
DECIDED += '; a bounced host always starts on a fresh runtime (shared C04-R2)'
DECIDED += '; R8 also: the capacity test is made before the enqueue; release frees both directions (shared C08-R9 as C12-R12)'
ASSUMPTIONS = ["dropping a oneshot::Sender makes the receiver resolve with RecvError (tokio contract)"]

DEQUE = "turmoil::host::ServerSocket::deque"


def _on_field(b, op, field):
    o = deref_origin(b, op)
    if o["k"] == "place":
        _, fields = root_place(b, o["p"])
        return field in fields
    return False


def r1(ctx):
    R = "C12-R1"
    ctx.rule(R, "ServerSocket::deque: enqueue only by push_back (Tcp::receive_from_network), dequeue only by pop_front (Tcp::accept); "
                "any other mutator (push_front, pop_back, insert, swap_remove.., retain, drain, sort, rotate) breaks arrival order")
    allowed = {"push_back": "turmoil::host::Tcp::receive_from_network", "pop_front": "turmoil::host::Tcp::accept"}
    readonly = re.compile(r"::(len|is_empty|iter|front|back|get|capacity|contains)$")
    n = 0
    for b in sorted(ctx.w.bodies.values(), key=lambda b: b.id):
        if b.crate != "turmoil":
            continue
        for bb, t in b.calls(re.compile(r"^std::collections::VecDeque::|VecDeque as ")):
            if not t["args"] or not _on_field(b, t["args"][0], DEQUE):
                continue
            m = t["f"].rsplit("::", 1)[1]
            if readonly.search(t["f"]):
                continue
            n += 1
            k = f"{b.id}:{m}"
            if m in allowed and b.id == allowed[m]:
                ctx.ok(R, k, t["s"], f"{m} on the request queue")
            elif t["f"] == "std::collections::VecDeque::new":
                continue
            elif m in ("retain", "retain_mut") and any(True for cid in closure_args(b, t) for fb in ctx.w.family(cid)
                                                      for _ in fb.calls(re.compile(r"oneshot::Sender<T>::is_closed$|oneshot::Sender::is_closed$"))):
                # order-preserving, and only requests whose connector is gone are dropped
                ctx.ok(R, k, t["s"], "purge of abandoned requests (retain keeps the arrival order of the others)")
            else:
                ctx.bad(R, k, t["s"], f"`{t['f']}` on the listener's request queue in `{b.id}`: requests are no longer accepted in arrival order")
    ctx.floor(R, 2)


def r2(ctx):
    R = "C12-R2"
    ctx.rule(R, "in Tcp::receive_from_network the push_back of a SYN is dominated by the true edge of matches(bind_addr, dst) "
                "with the listener's bind address and the packet's destination, and looked up by the destination port")
    b = ctx.body(R, "turmoil::host::Tcp::receive_from_network")
    if not b:
        return
    pushes = [(bb, t) for bb, t in b.calls("std::collections::VecDeque::push_back") if _on_field(b, t["args"][0], DEQUE)]
    te, fe = call_guard_edges(b, "turmoil::host::matches")
    for bb, t in pushes:
        ok = bool(te) and b.dominated_by_any(bb, edges=te)
        ctx.inst(R, "receive_from_network:syn-guard", ok, t["s"], "SYN queued only at a listener whose bind address matches" if ok else
                 "a SYN is queued without the bind-address match: a connect to an address the listener is not bound to succeeds instead of being refused")
    for sbb, t_e, f_e, o in guards_on(b, lambda o: o["k"] == "call" and callee_matches(o["t"], "turmoil::host::matches")):
        t = o["t"]
        a0 = Slicer(ctx.w).atoms(b, t["args"][0])
        a1 = Slicer(ctx.w).atoms(b, t["args"][1])
        if "field:turmoil::host::ServerSocket::bind_addr" not in a0 and "field:turmoil::host::UdpSocket::bind_addr" in a0:
            continue
        ok = "field:turmoil::host::ServerSocket::bind_addr" in a0 and any(":dst@" in a for a in a1)
        ctx.inst(R, "receive_from_network:match-args", ok, t["s"], "matches(bind_addr, dst)" if ok else "matches() is not applied to (listener bind address, packet destination)")
    if not pushes:
        ctx.bad(R, "receive_from_network:syn-guard", b.span, "no push_back onto the request queue found")
    ctx.floor(R, 2)


def r3(ctx):
    R = "C12-R3"
    ctx.rule(R, "connect: the awaited one-shot's error is mapped to ErrorKind::ConnectionRefused and propagated; accept: the "
                "loop is left (break) only on the Ok edge of ack.send(), the Err edge continues with the next request")
    cb = ctx.body(R, "turmoil::net::tcp::stream::TcpStream::connect::{closure#0}")
    if cb:
        fam = ctx.w.family(cb.id)
        has_refused = [s for fb in fam for _, _, s in fb.all_stmts() if s["r"]["k"] == "agg" and s["r"].get("variant") == "ConnectionRefused"]
        # the stream may be built only behind a test of the awaited acknowledgement (accepted idioms: `?` after map_err,
        # is_err()/is_ok() test, match on the Result)
        POLL = "call:<tokio::sync::oneshot::Receiver as std::future::Future>::poll"
        news = [bb for bb, t in cb.calls("turmoil::net::tcp::stream::TcpStream::new")]
        tested = False
        for sbb, t in switch_blocks(cb):
            o = origin(cb, t["d"])
            if o["k"] == "discr" and o.get("adt") == "std::task::Poll":
                continue
            at = Slicer(ctx.w).atoms(cb, t["d"])
            # `syn_ack.await` or `(&mut guard.syn_ack).await`: a Future::poll whose receiver is the one-shot of the SYN
            polled = POLL in at or (any(re.search(r"^call:<&mut \w+ as std::future::Future>::poll$", a) for a in at) and
                                    any(b2.tys[i]["s"].find("oneshot::Receiver") >= 0 for b2 in [cb] for bb2, t2 in cb.calls(re.compile(r"Future>::poll$")) for i in t2.get("at", ())))
            if not polled:
                continue
            edges = [(sbb, x) for x in cb.succ(sbb)]
            for e in edges:
                if news and all(cb.dominated_by_edge(nb, e) for nb in news) and len(edges) > 1:
                    tested = True
        ok = bool(has_refused) and tested and bool(news)
        site = has_refused[0]["s"] if has_refused else cb.span
        ctx.inst(R, "connect:refusal-mapping", ok, site, "the stream is built only behind a test of the acknowledgement; failure is reported as ConnectionRefused" if ok else
                 "connect can complete without the acceptor's acknowledgement, or no longer reports ConnectionRefused")
    ab = ctx.body(R, "turmoil::net::tcp::listener::TcpListener::accept::{closure#0}")
    if ab:
        sends = list(ab.calls(re.compile(r"^tokio::sync::oneshot::Sender::send$")))
        news = [bb for bb, t in ab.calls("turmoil::world::World::current") if any("closure#2" in c or "closure#1" in c for c in closure_args(ab, t))]
        # find the World::current call whose closure family calls new_stream
        ns_calls = []
        for bb, t in ab.calls("turmoil::world::World::current"):
            for cid in closure_args(ab, t):
                if may_call(ctx.w, [cid], "turmoil::host::Tcp::new_stream"):
                    ns_calls.append(bb)
        helper = None
        if not sends and ns_calls:
            # accepted idiom: the wait-and-acknowledge loop lives in an async helper awaited by accept
            for bb, t in ab.calls():
                hb = ctx.w.bodies.get(t["f"])
                if hb is not None and hb.is_async:
                    co = ctx.w.bodies.get(t["f"] + "::{closure#0}")
                    if co is not None and any(True for _ in co.calls(re.compile(r"^tokio::sync::oneshot::Sender::send$"))):
                        helper = (bb, co)
        if helper:
            hbb, co = helper
            hs = list(co.calls(re.compile(r"^tokio::sync::oneshot::Sender::send$")))
            te, fe = call_guard_edges(co, re.compile(r"^std::result::Result::is_ok$"))
            te2, fe2 = call_guard_edges(co, re.compile(r"^std::result::Result::is_err$"))
            good = te + fe2
            leak = always_passes(co, [], frm=hs[0][0], through_edges=good) if good else [0]
            ok = bool(good) and not leak and all(ab.dominated_by_block(x, hbb) for x in ns_calls)
            ctx.inst(R, "accept:skip-gone-connector", ok, hs[0][1]["s"], "the helper returns only after ack.send() succeeded and the stream is registered after awaiting it" if ok else
                     "the acknowledgement helper can return although the connector's channel is gone (a connector that gave up is not skipped)")
        elif not sends or not ns_calls:
            ctx.bad(R, "accept:skip-gone-connector", ab.span, "accept no longer has the shape ack.send(..) -> register stream")
        else:
            sbb, st = sends[0]
            # edges of is_ok(ack)
            te, fe = call_guard_edges(ab, re.compile(r"^std::result::Result::is_ok$"))
            te2, fe2 = call_guard_edges(ab, re.compile(r"^std::result::Result::is_err$"))
            good_edges = te + fe2
            ok = bool(good_edges) and all(ab.dominated_by_any(x, edges=good_edges) for x in ns_calls) and all(ab.dominated_by_block(x, sbb) for x in ns_calls)
            ctx.inst(R, "accept:skip-gone-connector", ok, st["s"], "the stream is registered only after ack.send() succeeded" if ok else
                     "accept registers a stream although the connector's acknowledgement channel is gone (a connector that gave up is not skipped)")
    ctx.floor(R, 2)


def r4(ctx):
    R = "C12-R4"
    ctx.rule(R, "obligation dataflow: acquire = Tcp::new_stream, release = Tcp::reset_stream / close_stream_half, discharge = "
                "TcpStream::new (its halves' Drop release), guards = types whose drop glue reaches a release; no Return, `?` error "
                "arm or Yield cancellation edge may be reached with the entry registered and un-owned")
    spec = Spec(acquire=["turmoil::host::Tcp::new_stream"],
                release=["turmoil::host::Tcp::reset_stream", "turmoil::host::Tcp::close_stream_half"],
                discharge=["turmoil::net::tcp::stream::TcpStream::new"])
    ob = Obligations(ctx.w, spec)
    spec.guard_types = {g for g in ob.discover_guard_types()
                        if g not in ("turmoil::net::tcp::stream::ReadHalf", "turmoil::net::tcp::stream::WriteHalf")}
    ctx.info(R, "guard-types", "", f"guard types (Drop reaches a release): {sorted(spec.guard_types)}")
    roots = set()
    for b, bb, t in who_calls(ctx.w, "turmoil::host::Tcp::new_stream"):
        r_ = b
        while r_.parent and r_.parent in ctx.w.bodies and ctx.w.bodies[r_.parent].kind in ("Closure", "AssocFn", "Fn"):
            par = ctx.w.bodies[r_.parent]
            # stop at the async fn's coroutine body (its parent merely constructs it)
            r_ = par
        roots.add(r_.id)
    for rid in sorted(roots):
        # analyse the outermost coroutine/closure bodies of the family
        fam = [b for b in ctx.w.family(rid)]
        tops = [b for b in fam if b.parent == rid] or [ctx.w.bodies[rid]]
        if not any(True for b in tops):
            tops = [ctx.w.bodies[rid]]
        checked = False
        for top in tops + [ctx.w.bodies[rid]]:
            ro, re_, leaks = ob.summary(top.id)
            inner = []
            for fb in ctx.w.family(top.id):
                if fb.id in ob._sum:
                    inner += ob._sum[fb.id][2]
            if not may_call(ctx.w, [top.id], "turmoil::host::Tcp::new_stream"):
                continue
            checked = True
            probs = []
            if ro:
                probs.append(("return", top.span, "returns normally with the stream-table entry registered and un-owned"))
            if re_:
                probs.append(("error-return", top.span, "an error return leaves the stream-table entry registered"))
            for lk in inner:
                probs.append((f"{lk.kind}@{lk.body.id.rsplit('::', 1)[-1]}", lk.site, lk.note))
            if probs:
                for kind, site, note in probs:
                    ctx.bad(R, f"{rid}:{kind}", site, f"`{rid}`: {note} (entry + ephemeral port leak: it still counts as established and the port stays assigned)")
            else:
                ctx.ok(R, rid, top.span, "every exit (return, error arm, cancellation edge) leaves the registered entry owned or released")
            break
        if not checked:
            ctx.bad(R, f"{rid}:not-analysed", "", "could not locate the body that registers the stream")
    # the handle's halves release: Drop for ReadHalf / WriteHalf reach a release on every path (inside current_if_set)
    for h in ("turmoil::net::tcp::stream::ReadHalf", "turmoil::net::tcp::stream::WriteHalf", "turmoil::net::tcp::stream::ConnectGuard"):
        d = ctx.w.drop_impl(h)
        if not d:
            ctx.bad(R, f"handle-drop:{h}", "", f"`{h}` has no Drop impl: the stream-table entry is never released")
            continue
        db = ctx.w.bodies[d]
        ok = False
        for bb, t in db.calls("turmoil::world::World::current_if_set"):
            for cid in closure_args(db, t):
                cb = ctx.w.bodies.get(cid)
                if cb and always_calls(ctx.w, cb, re.compile(r"Tcp::(reset_stream|close_stream_half)$")):
                    ok = True
        ctx.inst(R, f"handle-drop:{h}", ok, db.span, "Drop releases the entry on every path" if ok else
                 f"Drop for `{h}` has a path that releases nothing: the stream-table entry stays registered with no handle owning it - its (ephemeral) port counts as "
                 "in use for ever, also after the host was crashed and bounced")
    ctx.floor(R, 6)


def r5(ctx):
    R = "C12-R5"
    ctx.rule(R, "Drop for TcpListener unbinds on every path (the request queue and its one-shot senders are dropped with the "
                "ServerSocket, refusing queued connectors); Tcp::unbind removes the binds entry")
    d = ctx.w.drop_impl("turmoil::net::tcp::listener::TcpListener")
    if not d:
        ctx.bad(R, "listener-drop", "", "TcpListener has no Drop impl")
    else:
        db = ctx.w.bodies[d]
        ok = False
        for bb, t in db.calls("turmoil::world::World::current_if_set"):
            for cid in closure_args(db, t):
                cb = ctx.w.bodies.get(cid)
                if cb and always_calls(ctx.w, cb, "turmoil::host::Tcp::unbind"):
                    ok = True
        ctx.inst(R, "listener-drop", ok, db.span, "listener drop unbinds" if ok else "listener drop does not always unbind")
    ub = ctx.body(R, "turmoil::host::Tcp::unbind")
    if ub:
        rm = [t for bb, t in ub.calls(re.compile(r"^indexmap::IndexMap::(swap_remove|shift_remove|remove)$")) if _on_field(ub, t["args"][0], "turmoil::host::Tcp::binds")]
        ctx.inst(R, "unbind-removes", bool(rm) and not always_passes(ub, [bb for bb, t in ub.calls(re.compile(r"^indexmap::IndexMap::(swap_remove|shift_remove|remove)$"))]),
                 ub.span, "unbind removes the binds entry" if rm else "Tcp::unbind no longer removes the binds entry")
    ctx.floor(R, 2)


def r6(ctx):
    R = "C12-R6"
    ctx.rule(R, "accept registers SocketPair::new(my_addr, origin) - local first, connector second - mirroring the connector's "
                "SocketPair::new(local_addr, dst); Tcp::receive_from_network looks streams up by SocketPair::new(dst, src)")
    for cid, want in (("turmoil::net::tcp::listener::TcpListener::accept::{closure#0}::{closure#1}", ("my_addr", "origin")),):
        cb = None
        if cb is None:
            # locate by content
            # (the registration may live in a helper of the listener: any body of the listener module that calls new_stream)
            cands = [b for b in ctx.w.find(r"^turmoil::net::tcp::listener::") if any(True for _ in b.calls("turmoil::host::Tcp::new_stream"))]
            cb = cands[0] if cands else None
        if cb is None:
            if ctx.strict:
                ctx.bad(R, "accept:pair-order", "", "cannot find the closure registering the accepted stream")
            continue
        ns = list(cb.calls("turmoil::host::Tcp::new_stream"))
        LA = "field:turmoil::net::tcp::listener::TcpListener::local_addr"
        for bb, t in ns:
            ok = False
            # the SocketPair::new call feeding new_stream's key
            for bb2, t2 in cb.calls(re.compile(r"SocketPair::new$")):
                if not (bb in cb.reachable(bb2)):
                    continue
                a0 = Slicer(ctx.w).atoms(cb, t2["args"][0])
                a1 = Slicer(ctx.w).atoms(cb, t2["args"][1])
                # first = derived from the listener's own address; second = the connector address popped from the queue
                if LA in a0 and LA not in a1 and a1:
                    ok = True
                    break
                if LA in a1 and LA not in a0:
                    ok = False
                    break
            ctx.inst(R, "accept:pair-order", ok, t["s"], "accepted stream keyed (listener address, connector address)" if ok else
                     "accepted stream is not registered as SocketPair(local listener address, connector address)")
    rf = ctx.body(R, "turmoil::host::Tcp::receive_from_network")
    if rf:
        bad = 0
        n = 0
        for bb, t in rf.calls(re.compile(r"SocketPair::new$")):
            n += 1
            a0 = Slicer(ctx.w).atoms(rf, t["args"][0])
            a1 = Slicer(ctx.w).atoms(rf, t["args"][1])
            if not (any(":dst@" in a for a in a0) and any(":src@" in a for a in a1)):
                bad += 1
        # every lookup in the stream table is keyed by such a pair
        keyed = True
        nl = 0
        for fb in ctx.w.family(rf.id):
            for bb, t in fb.calls(re.compile(r"^indexmap::IndexMap::(get|get_mut|swap_remove|shift_remove|contains_key)$")):
                if "field:turmoil::host::Tcp::sockets" not in Slicer(ctx.w).atoms(fb, t["args"][0]):
                    continue
                nl += 1
                if not any(a.endswith("SocketPair::new") for a in Slicer(ctx.w).atoms(fb, t["args"][1]) if a.startswith("call:")):
                    keyed = False
        ctx.inst(R, "receive_from_network:lookup-order", bad == 0 and n >= 1 and keyed and nl >= 1, rf.span, f"{n} stream lookups use SocketPair(dst, src)" if bad == 0 else
                 f"{bad} stream lookup(s) do not use SocketPair(dst, src): segments are routed to the wrong stream")
    ctx.floor(R, 2)


def r7(ctx):
    R = "C12-R7"
    ctx.rule(R, "reference-count agreement: StreamSocket::new initialises ref_ct to N, Tcp::close_stream_half removes the entry only after N "
                "decrements of 1, and exactly N distinct owners - the Drop impls of the halves TcpStream::new builds - call it; everything "
                "else that must get rid of an entry (failed / cancelled connect, unread-data reset, RST) uses Tcp::reset_stream, which removes it outright")
    new = ctx.body(R, "turmoil::host::StreamSocket::new")
    n0 = None
    if new:
        for bb, i, s in new.all_stmts():
            r = s["r"]
            if r["k"] == "agg" and r.get("adt") == "turmoil::host::StreamSocket":
                m = dict(zip(r["fields"], r["ops"]))
                c = op_const(m.get("ref_ct"))
                if c is not None:
                    n0 = c.get("v")
        ctx.inst(R, "ref_ct:initial", isinstance(n0, int), new.span, f"ref_ct starts at {n0}" if isinstance(n0, int) else "StreamSocket::new does not initialise ref_ct with a constant")
    owners = {}
    for b, bb, t in who_calls(ctx.w, "turmoil::host::Tcp::close_stream_half"):
        root = b
        while root.parent and root.parent in ctx.w.bodies:
            root = ctx.w.bodies[root.parent]
        owners.setdefault(root.id, t["s"])
    a = ctx.w.adts.get("turmoil::net::tcp::stream::TcpStream")
    halves = set()
    if a:
        tys = ctx.w.tys[a["crate"]]
        halves = {tys[f["ty"]].get("adt") for v in a["variants"] for f in v["fields"] if "ty" in f and tys[f["ty"]].get("adt", "").startswith("turmoil::")}
    for rid, site in sorted(owners.items()):
        m = re.match(r"<(.+) as std::ops::Drop>::drop$", rid)
        m = m if m and m.group(1) in halves else None
        ctx.inst(R, f"half-release:{rid}", bool(m), site, "a stream half gives up its own reference" if m else
                 f"`{rid}` calls Tcp::close_stream_half but owns none of the entry's references: one decrement leaves the entry (and its port) registered forever - use reset_stream")
    if isinstance(n0, int):
        ok = len(owners) == n0
        ctx.inst(R, "ref_ct:owners", ok, new.span, f"{len(owners)} owners for ref_ct = {n0}" if ok else
                 f"ref_ct starts at {n0} but {len(owners)} owner(s) call close_stream_half: the entry is removed too early or never")
    ch = ctx.body(R, "turmoil::host::Tcp::close_stream_half")
    if ch:
        lin_ok = False
        for bb, i, s in ch.all_stmts():
            if place_last_field(s["p"]) == "turmoil::host::StreamSocket::ref_ct" and s["r"]["k"] == "use":
                lin = linear(ch, s["r"]["o"])
                lin_ok = bool(lin and lin[0] == ("field", "turmoil::host::StreamSocket::ref_ct") and lin[1] == -1)
        ctx.inst(R, "ref_ct:decrement", lin_ok, ch.span, "close_stream_half decrements ref_ct by exactly 1" if lin_ok else "close_stream_half no longer decrements ref_ct by exactly 1")
    ctx.floor(R, 5)


def r8(ctx):
    R = "C12-R8"
    ctx.rule(R, "the accept queue: (a) only live requests count against its capacity - the `len() == server_socket_capacity` test in the "
                "SYN arm of Tcp::receive_from_network is preceded by a purge of requests whose connector gave up (retain on !ack.is_closed()) "
                "- accept would skip them anyway; (b) Tcp::new_stream asserts that the pair is not in the stream table, and for an accepted "
                "stream the remote half of the pair is chosen by the other host, so a SYN for a pair that is still in the table must not "
                "reach accept: the SYN arm (or accept) tests Tcp::sockets for the pair first")
    rf = ctx.body(R, "turmoil::host::Tcp::receive_from_network")
    if not rf:
        return
    DQ = "turmoil::host::ServerSocket::deque"
    fam = ctx.w.family(rf.id)
    caps = []
    for sbb, te, fe, o in guards_on(rf, lambda o: o["k"] in ("bin", "call")):
        at = Slicer(ctx.w).atoms(rf, rf.term(sbb)["d"])
        if "field:turmoil::host::Tcp::server_socket_capacity" in at and any(a.endswith("VecDeque::len") for a in at):
            caps.append(sbb)
    purge = [bb for bb, t in rf.calls(re.compile(r"^std::collections::VecDeque::(retain|retain_mut)$"))
             if any(True for cid in closure_args(rf, t) for fb in ctx.w.family(cid) for _ in fb.calls(re.compile(r"oneshot::Sender<T>::is_closed$|oneshot::Sender::is_closed$")))]
    ok = bool(caps) and bool(purge) and all(rf.dominated_by_any(c, blocks=purge) for c in caps)
    ctx.inst(R, "backlog:capacity-counts-live-requests", ok, rf.site(caps[0]) if caps else rf.span,
             "abandoned requests are purged before the capacity test" if ok else
             "the backlog capacity test counts requests whose connector already gave up (they are only purged lazily by accept): `tcp_capacity` abandoned "
             "connects to a slow listener make the next SYN panic the simulation with `server socket buffer full` although nothing is pending")
    push = [bb for bb, t in rf.calls(re.compile(r"^std::collections::VecDeque::push_back$"))]
    # (a') the queue holds up to `capacity` requests: the test is made on the queue as it is *before* the new request goes in (it
    # dominates the push); a test after the push refuses the capacity-th pending request
    okb = bool(caps) and bool(push) and all(rf.dominated_by_any(x, blocks=caps) for x in push)
    ctx.inst(R, "backlog:capacity-tested-before-the-enqueue", okb, rf.site(caps[0]) if caps else rf.span, "the capacity test precedes the enqueue" if okb else
             "the `len() == server_socket_capacity` test is made after the request was pushed: the backlog is one short - the tcp_capacity-th pending connect (a burst released from a hold) "
             "panics the simulation with `server socket buffer full` although the queue never exceeded its capacity")
    fe_ck = []
    for sbb, te, fe, o in guards_on(rf, lambda o: o["k"] == "call" and re.search(r"IndexMap::contains_key$|Tcp::is_connected$", o["t"]["f"])):
        if "field:turmoil::host::Tcp::sockets" in Slicer(ctx.w, into_callees=1).atoms(rf, o["t"]["args"][0]):
            fe_ck += fe
    ac = ctx.w.bodies.get("turmoil::net::tcp::listener::TcpListener::accept")
    in_accept = False
    if ac:
        for fb in ctx.w.family(ac.id):
            ns = [bb for bb, t in fb.calls("turmoil::host::Tcp::new_stream")]
            for sbb, te, fe, o in guards_on(fb, lambda o: o["k"] == "call" and re.search(r"Tcp::is_connected$|IndexMap::contains_key$|World::current$", o["t"]["f"])):
                if ns and fe and all(fb.dominated_by_any(x, edges=fe) for x in ns):
                    in_accept = True
    ok2 = in_accept or (bool(push) and bool(fe_ck) and all(rf.dominated_by_any(x, edges=fe_ck) for x in push))
    ctx.inst(R, "backlog:no-request-for-a-pair-in-use", ok2, rf.site(push[0]) if push else rf.span,
             "a SYN for a pair that is still in the stream table is refused" if ok2 else
             "a SYN whose (listener address, connector address) pair is still in the stream table is queued, and accept() then hits the `already connected` assertion in "
             "Tcp::new_stream: the connector's ephemeral port came round again while the accepted end of the earlier stream was still open (or its FIN was lost)")
    ctx.floor(R, 2)


def r9(ctx):
    R = "C12-R9"
    ctx.rule(R, "a queued request is never left waiting while its listener sits in accept(): (a) TcpListener::accept parks on the listener's Notify "
                "only on the `queue was empty` edge of its own pop (every `Notify::notified()` is dominated by the None edge of the Option returned "
                "by the World::current closure that calls Tcp::accept) - after skipping an abandoned request it pops again instead of sleeping; "
                "(b) every push onto ServerSocket::deque in Tcp::receive_from_network is followed, on every path to the function's return, by "
                "Notify::notify_one / notify_waiters: a parked acceptor is woken for each request, not only for the first")
    ab = ctx.body(R, "turmoil::net::tcp::listener::TcpListener::accept::{closure#0}")
    if ab:
        # the wait loop may live in an async helper of the listener: every body of the listener module is looked at
        mod = [fb for fb in sorted(ctx.w.bodies.values(), key=lambda b: b.id) if fb.id.startswith("turmoil::net::tcp::listener::")]
        parks = [(fb, bb, t) for fb in mod for bb, t in fb.calls(re.compile(r"^tokio::sync::Notify::notified$"))]
        empty_edges = {}
        for fb in mod:
            es = []
            for sbb, m, els, adt, pl in variant_edges(fb, lambda p: True):
                if adt != "std::option::Option":
                    continue
                o = origin(fb, {"c": {"l": pl["l"]}})
                if o["k"] != "call":
                    continue
                src = o["t"]["f"] == "turmoil::host::Tcp::accept" or (o["t"]["f"] == "turmoil::world::World::current" and
                      any(may_call(ctx.w, [cid], "turmoil::host::Tcp::accept") for cid in closure_args(fb, o["t"])))
                if not src:
                    continue
                es.append(m["None"] if "None" in m else els)
            empty_edges[fb.id] = es
        for fb, bb, t in parks:
            es = empty_edges.get(fb.id, [])
            ok = bool(es) and fb.dominated_by_any(bb, edges=es)
            ctx.inst(R, f"accept:parks-only-when-empty:{fb.id}", ok, t["s"], "accept waits for a notification only after its pop found the queue empty" if ok else
                     f"`{fb.id}` awaits Notify::notified() on a path where the request queue was not just found empty (e.g. after skipping a connector that "
                     "gave up): live requests already queued are not accepted until some later SYN arrives - their connect hangs with the listener in accept()")
        ctx.inst(R, "accept:park-found", bool(parks), ab.span, f"{len(parks)} park site(s) analysed" if parks else "accept no longer parks on Notify::notified(): re-derive")
    rb = ctx.body(R, "turmoil::host::Tcp::receive_from_network")
    if rb:
        DEQ = "turmoil::host::ServerSocket::deque"
        n = 0
        for fb in ctx.w.family(rb.id):
            pushes = [(bb, t) for bb, t in fb.calls(re.compile(r"VecDeque::(push_back|push_front|insert|extend)$")) if t["args"] and _on_field(fb, t["args"][0], DEQ)]
            wakes = {bb for bb, t in fb.calls(re.compile(r"^tokio::sync::Notify::(notify_one|notify_waiters|notify_last)$"))}
            for bb, t in pushes:
                n += 1
                leak = any(fb.term(x)["k"] == "return" for x in fb.reachable(bb, removed_blocks=wakes - {bb}))
                ctx.inst(R, f"enqueue:always-notifies:{fb.id}#{n}", not leak, t["s"], "every enqueue is followed by a notification" if not leak else
                         f"`{fb.id}` can return after queueing a request without notifying the listener: with two tasks parked in accept() and two requests "
                         "delivered in one step only one is woken, and the other request stays queued - neither accepted nor refused")
        ctx.inst(R, "enqueue:found", n >= 1, rb.span, f"{n} enqueue site(s) analysed" if n else "no push onto ServerSocket::deque found in receive_from_network: re-derive")
    ctx.floor(R, 4)


def r10(ctx):
    R = "C12-R10"
    ctx.rule(R, "refusal needs a host that takes its mail: in this implementation a connect is refused when the SYN is handed to the destination "
                "host and finds no bind (the SYN, and with it the one-shot the connector waits on, is dropped). Sim::step must therefore take the "
                "due messages off the links for *every* host it visits, whether or not the host's software is still running - every traversal of "
                "a partition component of the hosts in Sim::step calls Topology::deliver_messages on every iteration. A SYN for a host whose "
                "software has returned (its listener dropped with it) otherwise waits on the link for ever and the connect hangs")
    from . import C05
    b = ctx.body(R, C05.STEP)
    if not b:
        return
    parts = list(b.calls(re.compile(r"^std::iter::Iterator::partition$|Iterator>::partition$")))
    if not parts:
        ctx.inst(R, "step:partition", False, b.span, "Sim::step no longer partitions the hosts: re-derive")
        ctx.floor(R, 1)
        return
    pl = parts[0][1]["d"]["l"]
    n = 0
    for v in C05.visits(ctx, b, pl):
        n += 1
        pc = v.per_iteration(re.compile(r"^turmoil::top::Topology::deliver_messages$"))
        ok = pc is not None and pc[0] >= 1
        ctx.inst(R, f"step:component-{v.comp}:takes-due-messages", ok, v.site, f"due messages are delivered on every iteration {pc}" if ok else
                 f"the traversal of partition component {v.comp} ({'running' if v.comp == 0 else 'stopped'} hosts) in Sim::step never calls Topology::deliver_messages {pc}: "
                 "messages for a host whose software has returned stay on the link for ever - a connect to it (its listener was dropped with the software, or nobody ever "
                 "listened) hangs instead of failing with ConnectionRefused")
    ctx.inst(R, "step:traversals-found", n >= 2, b.span, f"{n} host traversals analysed" if n >= 2 else f"only {n} host traversal(s) found in Sim::step: re-derive")
    ctx.floor(R, 3)


def r11(ctx, R="C12-R11"):
    ctx.rule(R, "configuration reaches the parameter of its own name: at every call inside crate turmoil whose callee has a parameter named "
                "like a field of turmoil::config::Config (tcp_capacity, udp_capacity, ephemeral_ports, ..), the argument in that position is "
                "read from that field and not from the field that names another parameter of the same callee - two same-typed knobs swapped at a constructor call compile and bound "
                "the accept queue by the UDP capacity")
    CF = "field:turmoil::config::Config::"
    n = 0
    for b in sorted(ctx.w.bodies.values(), key=lambda x: x.id):
        if b.crate != "turmoil":
            continue
        cnt = {}
        for bb, t in b.calls():
            cb = ctx.w.bodies.get(t["f"])
            if not cb or cb.crate != "turmoil" or len(t["args"]) != cb.argc:
                continue
            for i, a in enumerate(t["args"]):
                pn = cb.locals[i + 1].get("n")
                if not pn:
                    continue
                got = {x[len(CF):] for x in Slicer(ctx.w).atoms(b, a) if x.startswith(CF)}
                if not got or pn not in _config_fields(ctx):
                    continue
                ok = got == {pn}
                pnames = {cb.locals[j + 1].get("n") for j in range(cb.argc)}
                if not ok and not ((got - {pn}) & pnames):
                    continue   # a parameter that merely shares its name with an unrelated knob (`tick(duration)` fed from Config::tick)
                n += 1
                ctx.inst(R, f"{b.id}->{t['f'].rsplit('::', 2)[-2]}::{t['f'].rsplit('::', 1)[1]}:{pn}#{nth(cnt, (t['f'], pn))}", ok, t["s"],
                         f"parameter `{pn}` receives Config::{pn}" if ok else
                         f"`{b.id}` passes Config::{sorted(got)} for the parameter `{pn}` of `{t['f']}`: the knob that bounds one protocol's queue is "
                         "taken from the other one's setting (a listener refuses / panics on pending connects below tcp_capacity)")
    ctx.floor(R, 2)


def _config_fields(ctx):
    a = ctx.w.adts.get("turmoil::config::Config") or {}
    out = set()
    for v in a.get("variants", []):
        for f in v.get("fields", []):
            out.add(f.get("name") or f.get("n"))
    return out


def run(ctx):
    from . import C03
    C03.r7(ctx, ops=("hold", "release"), R="C12-R12")   # a release frees both directions: a connect in the direction left on Hold neither pairs nor is refused
    from . import C04
    C04.r2(ctx)   # a bounced host's listeners go with its old runtime: tasks that survive a bounce keep the port and strand queued connectors
    r11(ctx)
    C03.r6(ctx)   # the in-simulation and the Sim-handle spellings of partition / repair reach the same World operation (a oneway repair must not heal both directions)
    C03.r3(ctx, C03.Typestate(ctx.w, C03.CELLS))   # a request travelling (or held) on a link that is partitioned is destroyed with the partition: its connector is refused, not left hanging
    r10(ctx)
    r9(ctx)
    r8(ctx)
    r7(ctx)
    from . import C15
    C15.r1(ctx)   # connect allocates its local port through assign_ephemeral_port: an in-use port makes new_stream panic
    r1(ctx)
    r2(ctx)
    r3(ctx)
    r4(ctx)
    r5(ctx)
    r6(ctx)
