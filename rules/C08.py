"""C08 - held links deliver nothing until released, then everything exactly once in order (structural part)."""
from .common import *
from engine.analysis.typestate import Typestate
from . import C02

DECIDED = ("R1 a held message's status can become deliverable only in Sent::deliver, which is called only from Link::release and "
           "SentRef::deliver; Link::release is called only from Topology::release; R2 sends under Hold are queued with status Hold "
           "and Link::hold marks both directions and every queued message; R3 take_due removes a message only behind "
           "the DeliverAfter downcast and `time <= now`, moves it into exactly one push_back, and deliver_messages hands each "
           "drained envelope over once; R4 the in-flight and deliverable queues are used order-preservingly (push_back / indexed "
           "remove / front-to-back iteration only); R5 the in-flight queue is purged only by the explicit partition API or behind a "
           "test showing a direction is not held; R6 messages are move-only and SentRef::deliver consumes (type facts); R7 the "
           "receive queue has room for the un-gated FIN of a released batch (shared with C02-R4).")
NOT_DECIDED = ("independence of other links as behaviour, the combination with one-way partitions (documented unsupported), "
               "delivery instants.")
DECIDED += "; R10 exhaustive scans: for_pairs, Link::hold / release / take_due / deliver_messages, LinkIter::deliver_all and Topology::deliver_messages visit every element (no early exit, no truncating adaptor)"
DECIDED += "; R11 every container of in-flight messages is covered by hold and by the links iterator; R12 no message type carries a live channel endpoint (recorded finding D10: the SYN-ACK one-shot)"
DECIDED += '; the slot of a consumed parked datagram is free at once (shared C09-R10)'
DECIDED += '; R14 Link::release reschedules a message only under the Hold arm of a test of its status; nothing is put in flight past Link::enqueue (shared C03-R2)'
DECIDED += "; R15 LinkIter::next advances the queue's iterator by plain next; the receive slot is filled only when empty (shared C09-R6)"
DECIDED += '; the backlog capacity test precedes the enqueue (shared C12-R8)'
ASSUMPTIONS = ["Link::hold always marks both directions, so 'some direction Healthy' implies 'not held'"]

SENT = "turmoil::top::Link::sent"
STATUS = "turmoil::top::Sent::status"
CELLS = {"turmoil::top::Link::state_a_b": "turmoil::top::State", "turmoil::top::Link::state_b_a": "turmoil::top::State"}


def _on_field(b, op, field):
    o = deref_origin(b, op)
    if o["k"] == "place":
        _, fields = root_place(b, o["p"])
        return field in fields
    return False


def r1(ctx):
    R = "C08-R1"
    ctx.rule(R, "who-may-write Sent::status = DeliverAfter: Link::enqueue (new message, Healthy direction) and Sent::deliver; "
                "who-may-call Sent::deliver: Link::release, SentRef::deliver; who-may-call Link::release: Topology::release")
    for b in sorted(ctx.w.bodies.values(), key=lambda b: b.id):
        if b.crate != "turmoil":
            continue
        for bb, i, s in b.all_stmts():
            if place_last_field(s["p"]) == STATUS and isinstance(s["p"]["p"][-1], dict) and s["p"]["p"][-1].get("f") == "status":
                r = s["r"]
                v = r.get("variant") if r["k"] == "agg" else None
                if v is None and r["k"] == "use":
                    o = origin(b, r["o"])
                    v = o["r"].get("variant") if o["k"] == "agg" else "?"
                rootb = b
                while rootb.parent and rootb.parent in ctx.w.bodies:
                    rootb = ctx.w.bodies[rootb.parent]
                k = f"status-write:{rootb.id}:{v}"
                if v == "Hold":
                    ok = rootb.id == "turmoil::top::Link::hold"
                    ctx.inst(R, k, ok, s["s"], "hold() marks queued messages held" if ok else f"`{rootb.id}` marks messages held outside Link::hold")
                else:
                    ok = rootb.id == "turmoil::top::Sent::deliver"
                    ctx.inst(R, k, ok, s["s"], "status made deliverable in Sent::deliver" if ok else
                             f"`{rootb.id}` makes a queued message deliverable (status := {v}) outside Sent::deliver: a held message can be un-held without release")
    callers = {
        "turmoil::top::Sent::deliver": {"turmoil::top::Link::release", "turmoil::top::SentRef::deliver"},
        "turmoil::top::Link::release": {"turmoil::top::Topology::release"},
        "turmoil::top::SentRef::deliver": {"turmoil::top::LinkIter::deliver_all"},
        "turmoil::top::Topology::release": {"turmoil::world::World::release"},
    }
    for callee, allowed in callers.items():
        if callee not in ctx.w.bodies and ctx.strict:
            ctx.bad(R, f"anchor-missing:{callee}", "", f"`{callee}` not found")
        for b, bb, t in who_calls(ctx.w, callee):
            root = b
            while root.parent and root.parent in ctx.w.bodies:
                root = ctx.w.bodies[root.parent]
            ok = root.id in allowed
            ctx.inst(R, f"caller:{callee.rsplit('::', 2)[-2]}::{callee.rsplit('::', 1)[-1]}<-{root.id}", ok, t["s"],
                     "allowed caller" if ok else f"`{root.id}` calls `{callee}`: held messages can be released outside release / manual delivery")
    ctx.floor(R, 6)


def r2(ctx):
    R = "C08-R2"
    ctx.rule(R, "Link::enqueue constructs DeliveryStatus::Hold exactly on the Hold edge of the state match; Link::hold writes Hold to "
                "both direction cells and to the status of every element of `sent` (unfiltered iter_mut loop)")
    b = ctx.body(R, "turmoil::top::Link::enqueue")
    if b:
        gs = list(b.calls("turmoil::top::Link::get_state_for_message"))
        if gs:
            sl = gs[0][1]["d"]["l"]
            ves = variant_edges(b, lambda p: p["l"] == sl and not p.get("p"))
            if ves:
                sbb, m, els, adt, _ = ves[0]
                holds = [(bb, s) for bb, i, s in b.all_stmts() if s["r"]["k"] == "agg" and s["r"].get("adt") == "turmoil::top::DeliveryStatus" and s["r"].get("variant") == "Hold"]
                da = [(bb, s) for bb, i, s in b.all_stmts() if s["r"]["k"] == "agg" and s["r"].get("adt") == "turmoil::top::DeliveryStatus" and s["r"].get("variant") == "DeliverAfter"]
                he = m.get("Hold")
                ok = bool(he) and bool(holds) and all(b.dominated_by_edge(bb, he) for bb, _ in holds)
                ok2 = bool(he) and not any(bb in b.reachable(he[1]) for bb, _ in da)
                ctx.inst(R, "enqueue:hold-edge", ok and ok2, (holds[0][1]["s"] if holds else b.span),
                         "a send on a held direction is queued with status Hold" if ok and ok2 else
                         "a send on a held direction is not queued as held (it gets a delivery time, or Hold is built on another edge)")
    h = ctx.body(R, "turmoil::top::Link::hold")
    if h:
        ts = Typestate(ctx.w, CELLS)
        evs, _ = ts.analyze(h)
        cells = {e.cell.rsplit("::", 1)[1] for e in evs if e.new == frozenset(["Hold"])}
        ctx.inst(R, "hold:both-directions", cells == {"state_a_b", "state_b_a"} and not always_passes(h, [e.bb for e in evs]), h.span,
                 f"hold() sets Hold on {sorted(cells)}")
        # loop over sent.iter_mut() writing status = Hold without any guard inside the loop
        its = [bb for bb, t in h.calls(re.compile(r"VecDeque as std::iter::IntoIterator>::into_iter$|VecDeque::iter_mut$")) if _on_field(h, t["args"][0], SENT)]
        wr = [(bb, s) for bb, i, s in h.all_stmts() if place_last_field(s["p"]) == STATUS]
        nxt = [bb for bb, t in h.calls(re.compile(r"vec_deque::IterMut as std::iter::Iterator>::next$"))]
        ok = bool(its) and bool(wr) and bool(nxt)
        if ok:
            # from the Some edge of next() every path back to next() passes a status write
            for nb in nxt:
                ves = variant_edges(h, lambda p: True)
                for sbb, m, els, adt, pl in ves:
                    if adt == "std::option::Option" and "Some" in m and h.dominated_by_block(sbb, nb):
                        back = h.reachable(m["Some"][1], removed_blocks=[x for x, _ in wr], stop=[nb])
                        if nb in back:
                            ok = False
        if not ok:
            # accepted idiom: self.sent.iter_mut().for_each(|sent| sent.status = Hold) with no filtering adaptor in between
            fe = [(bb, t) for bb, t in h.calls(re.compile(r"Iterator>::for_each$|^std::iter::Iterator::for_each$"))]
            adapt = [t["f"] for bb, t in h.calls(re.compile(r"Iterator>::(filter|skip|take|step_by|skip_while|take_while|filter_map|rev)$|^std::iter::Iterator::(filter|skip|take|step_by|skip_while|take_while|filter_map)$"))]
            src = any("field:" + SENT in Slicer(ctx.w).atoms(h, t["args"][0]) and any(a.startswith("call:std::collections::VecDeque::iter_mut") for a in Slicer(ctx.w).atoms(h, t["args"][0])) for bb, t in fe)
            allw = False
            for bb, t in fe:
                for cid in closure_args(h, t):
                    cb = ctx.w.bodies.get(cid)
                    if cb:
                        w2 = [x for x, i, s2 in cb.all_stmts() if place_last_field(s2["p"]) == STATUS]
                        allw = bool(w2) and not always_passes(cb, w2)
            ok = bool(fe) and src and not adapt and allw
            wr = wr or [(fe[0][0], fe[0][1])] if fe else wr
        ctx.inst(R, "hold:marks-every-queued", ok, (wr[0][1]["s"] if wr else h.span), "every queued message is marked Hold" if ok else
                 "Link::hold no longer marks every queued message as held: messages in flight are delivered during the hold")
    ctx.floor(R, 3)


def r3(ctx):
    R = "C08-R3"
    ctx.rule(R, "take_due: VecDeque::remove on `sent` is dominated by the DeliverAfter edge of the status match and "
                "the true edge of `time <= now`; the removed message is pushed (push_back) exactly once; a Hold message reaches no "
                "removal; deliver_messages passes each drained envelope to receive_from_network exactly once per iteration")
    b = ctx.body(R, "turmoil::top::Link::take_due")
    if b:
        rms = [(bb, t) for bb, t in b.calls(re.compile(r"^std::collections::VecDeque::(remove|swap_remove_back|swap_remove_front|pop_front|pop_back|drain)$")) if _on_field(b, t["args"][0], SENT)]
        ves = [v for v in variant_edges(b, lambda p: place_last_field(p) == STATUS) if v[3] == "turmoil::top::DeliveryStatus"]
        le_t, le_f = call_guard_edges(b, re.compile(r"PartialOrd>::le$|^std::cmp::PartialOrd::le$"))
        for bb, t in rms:
            m = t["f"].rsplit("::", 1)[1]
            ok_m = m == "remove"
            da = [v[1].get("DeliverAfter") for v in ves if v[1].get("DeliverAfter")]
            ok_da = bool(da) and dominated_mod_flags(b, bb, edges=da)
            LE = re.compile(r"PartialOrd>::le$|^std::cmp::PartialOrd::le$")
            ok_le = guarded_by_pred(b, bb, lambda o: o["k"] == "call" and callee_matches(o["t"], LE))
            ctx.inst(R, f"take_due:{m}", ok_m and ok_da and ok_le, t["s"],
                     "message leaves the in-flight queue only when DeliverAfter(time) and time <= now" if ok_m and ok_da and ok_le else
                     "a message can leave the in-flight queue " + ("" if ok_da else "without being DeliverAfter (held messages mature) ") +
                     ("" if ok_le else "before its time ") + ("" if ok_m else f"through `{m}` (order not preserved)"))
            # `time <= now`: left operand from the status payload, right from Link::now
            for lbb, lt in b.calls(LE):
                a0 = Slicer(ctx.w).atoms(b, lt["args"][0])
                a1 = Slicer(ctx.w).atoms(b, lt["args"][1])
                okc = "field:turmoil::top::Link::now" in a1 and "field:turmoil::top::Link::now" not in a0 and "field:turmoil::top::DeliveryStatus::0" in a0
                ctx.inst(R, "take_due:maturity-test", okc, lt["s"], "maturity test is `time <= self.now`" if okc else
                         "maturity comparison is not `deliver-after time <= link clock`")
            pb = [x for x, t2 in b.calls(re.compile(r"^std::collections::VecDeque::push_back$|^std::vec::Vec::push$"))]
            pc = path_counts(b, t["t"], lambda x: x in pb, stop_blocks=[bb]) if t["t"] is not None else None
            # count pushes between the removal and the loop back edge
            succs = b.reachable(t["t"], removed_blocks=pb, stop=[bb])
            loops_back_without_push = any(x for x in succs if bb in b.succ(x)) or any(b.term(x)["k"] == "return" for x in succs)
            ctx.inst(R, "take_due:moved-once", not loops_back_without_push, t["s"],
                     "the removed message is pushed onto the destination's deliverable queue on every path" if not loops_back_without_push else
                     "a removed message can be dropped without being queued for delivery")
        if not rms:
            ctx.bad(R, "take_due:remove", b.span, "no removal from the in-flight queue found")
        # a host takes only what is addressed to it: the removal hangs on `sent.dst.ip() == dst`
        for bb, t in rms:
            def own(o):
                if o["k"] != "call":
                    return False
                mm = re.search(r"PartialEq>::(eq|ne)$|^std::cmp::PartialEq::(eq|ne)$", o["t"]["f"])
                if not mm:
                    return False
                at = Slicer(ctx.w).atoms(b, o["t"]["args"][0]) | Slicer(ctx.w).atoms(b, o["t"]["args"][1])
                if not (any(a.startswith("arg:2:") for a in at) and "field:turmoil::top::Sent::dst" in at):
                    return False
                return True if (mm.group(1) or mm.group(2)) == "eq" else "neg"
            okd = guarded_by_pred(b, bb, own)
            ctx.inst(R, "take_due:only-own-messages", okd, t["s"], "a host is handed only the messages addressed to it" if okd else
                     "a message can be taken off the link for a host it is not addressed to")
    d = ctx.body(R, "turmoil::top::Link::deliver_messages")
    if d:
        rf = [bb for bb, t in d.calls("turmoil::host::Host::receive_from_network")]
        dr = [t for bb, t in d.calls(re.compile(r"^turmoil::top::Link::take_due$"))]
        # the host argument of take_due is the address of the host being stepped
        own = bool(dr) and all("field:turmoil::host::Host::addr" in Slicer(ctx.w).atoms(d, t["args"][1]) for t in dr)
        ctx.inst(R, "deliver_messages:handover", len(rf) == 1 and len(dr) == 1 and own, d.span,
                 "each envelope taken for the host is handed to it exactly once" if len(rf) == 1 and len(dr) == 1 and own else
                 f"deliver_messages hands envelopes over {len(rf)} time(s) / takes due messages {len(dr)} time(s)" + ("" if own else " for another address than the host's own"))
    ctx.floor(R, 4)


ORDER_OK = re.compile(r"^std::collections::VecDeque::(new|push_back|remove|iter_mut|iter|len|is_empty|clear|retain|get|get_mut|front|drain|with_capacity)$|"
                      r"VecDeque as std::ops::Index(Mut)?>::index(_mut)?$|VecDeque as std::iter::IntoIterator>::into_iter$|"
                      r"VecDeque as std::default::Default>::default$")


def r4(ctx):
    R = "C08-R4"
    ctx.rule(R, "order-preserving use of Link::sent and the per-destination deliverable queues: only push_back, indexed remove, "
                "forward iteration, clear/retain, front-to-back drain (no push_front, swap_remove*, pop_back, rotate, sort, insert, rev)")
    n = 0
    cnt = {}
    for b in sorted(ctx.w.bodies.values(), key=lambda b: b.id):
        if b.crate != "turmoil" or not b.id.startswith(("turmoil::top::", "<turmoil::top::")):
            continue
        for bb, t in b.calls(re.compile(r"VecDeque")):
            if not t["args"]:
                continue
            on_sent = _on_field(b, t["args"][0], SENT)
            at = Slicer(ctx.w).atoms(b, t["args"][0])
            on_deliv = "field:turmoil::top::Link::deliverable" in at
            if not (on_sent or on_deliv):
                continue
            m = t["f"]
            k = f"{b.id}:{m.rsplit('::', 1)[1]}#{nth(cnt, (b.id, m))}"
            if ORDER_OK.search(m):
                ctx.ok(R, k, t["s"], "order-preserving queue operation")
            else:
                ctx.bad(R, k, t["s"], f"`{m}` on an in-flight / deliverable queue: per-direction send order is not preserved")
        for bb, t in b.calls(re.compile(r"Iterator>::rev$|^std::iter::Iterator::rev$|::sort|::reverse$|make_contiguous")):
            at = set()
            for a in t["args"]:
                at |= Slicer(ctx.w).atoms(b, a)
            if "field:turmoil::top::Link::sent" in at or "field:turmoil::top::Link::deliverable" in at:
                ctx.bad(R, f"{b.id}:{t['f']}", t["s"], f"`{t['f']}` reorders an in-flight / deliverable queue")
    ctx.floor(R, 8)


def r5(ctx):
    R = "C08-R5"
    ctx.rule(R, "Link::sent is purged (clear/retain/drain/truncate) only in the explicit partition API, or at a point where the "
                "typestate shows some direction is not Hold on every path (hold() marks both directions, so the link is not held)")
    ts = Typestate(ctx.w, CELLS)
    explicit = {"turmoil::top::Link::explicit_partition", "turmoil::top::Link::partition_oneway"}
    purge = re.compile(r"^std::collections::VecDeque::(clear|retain|retain_mut|drain|truncate|split_off)$")
    for b in sorted(ctx.w.bodies.values(), key=lambda b: b.id):
        if b.crate != "turmoil":
            continue
        ps = [(bb, t) for bb, t in b.calls(purge) if _on_field(b, t["args"][0], SENT)]
        if not ps:
            continue
        evs, sin = ts.analyze(b)
        for bb, t in ps:
            k = f"{b.id}:{t['f'].rsplit('::', 1)[1]}"
            if b.id in explicit:
                ctx.ok(R, k, t["s"], "explicit partition purges in-flight messages by specification")
                continue
            sts = ts.states_at_end(b, bb, sin)
            held_possible = any("Hold" in st["cell"]["turmoil::top::Link::state_a_b"] and "Hold" in st["cell"]["turmoil::top::Link::state_b_a"] for st in sts)
            ctx.inst(R, k, not held_possible, t["s"], "purge happens only when a direction is known not to be Hold" if not held_possible else
                     f"`{b.id}` purges the in-flight queue on a path where the link may be held: held messages are lost instead of being delivered after release")
    ctx.floor(R, 3)


def r6(ctx):
    R = "C08-R6"
    ctx.rule(R, "type facts: SentRef::deliver and LinkIter::deliver_all take `self` by value (a message reference is consumed by "
                "delivery); Sent / Envelope / Protocol are not Clone (shared with C02-R5)")
    for fid in ("turmoil::top::SentRef::deliver", "turmoil::top::LinkIter::deliver_all"):
        f = ctx.w.fns.get(fid)
        if not f:
            if ctx.strict:
                ctx.bad(R, f"anchor-missing:{fid}", "", f"`{fid}` not found")
            continue
        tys = ctx.w.tys[f["crate"]]
        t0 = tys[f["inputs"][0]] if f["inputs"] else {}
        ok = t0.get("k") == "adt"
        ctx.inst(R, f"by-value:{fid}", ok, f["span"], "receiver is `self` by value" if ok else "receiver is a reference: the same in-flight message can be delivered twice through one SentRef")
    for adt in ("turmoil::top::Sent", "turmoil::envelope::Envelope", "turmoil::envelope::Protocol", "turmoil::top::SentRef"):
        cl = ctx.w.implements(adt, "std::clone::Clone") or ctx.w.implements(adt, "std::marker::Copy")
        ctx.inst(R, f"not-clone:{adt}", not cl, ctx.w.adts.get(adt, {}).get("span", ""), "not Clone/Copy" if not cl else f"`{adt}` is Clone/Copy")
    ctx.floor(R, 6)


def r11(ctx):
    R = "C08-R11"
    ctx.rule(R, "every container of in-flight messages is covered: each field of turmoil::top::Link whose type holds Sent or Envelope "
                "values (a message that was sent and not yet handed to its host) is (a) visited by Link::hold, so that a hold reaches "
                "every message still in flight, and (b) read where the links iterator is built (LinksIter::next), so that the iterator "
                "shows every message in flight. A second queue that only the delivery path knows about lets messages escape a hold and "
                "hides them from Sim::links")
    a = ctx.w.adts.get("turmoil::top::Link")
    if not a:
        if ctx.strict:
            ctx.bad(R, "anchor-missing:turmoil::top::Link", "", "struct Link not found")
        return
    tys = ctx.w.tys[a["crate"]]
    inflight = [f["name"] for v in a["variants"] for f in v["fields"] if "ty" in f and re.search(r"\b(top::Sent|envelope::Envelope)\b", tys[f["ty"]]["s"])]

    def touches(fid, field):
        full = "turmoil::top::Link::" + field
        for fb in ctx.w.family(fid):
            for bb, i, s in fb.all_stmts():
                r = s["r"]
                pls = [s["p"]] + [op_place(o) for o in [r.get("o"), r.get("a"), r.get("b")] + list(r.get("ops", [])) if isinstance(o, dict)]
                if isinstance(r.get("p"), dict):
                    pls.append(r["p"])
                if any(pl and full in place_fields(pl) for pl in pls):
                    return True
            for bb, t in fb.calls():
                if any(op_place(x) and full in place_fields(op_place(x)) for x in t["args"]):
                    return True
        return False
    users = (("hold", "turmoil::top::Link::hold", "a hold does not reach the messages queued there: they are delivered while the link is held"),
             ("iterator", "<turmoil::top::LinksIter as std::iter::Iterator>::next", "Sim::links does not show the messages queued there although they are still in flight"))
    for field in inflight:
        for tag, fid, why in users:
            b = ctx.body(R, fid)
            if not b:
                continue
            ok = touches(fid, field)
            ctx.inst(R, f"in-flight:{field}:{tag}", ok, b.span, f"Link::{field} is covered by {fid.rsplit('::', 1)[-1] if tag == 'hold' else 'the links iterator'}" if ok else
                     f"Link::{field} holds in-flight messages but `{fid}` never looks at it: {why}")
    ctx.floor(R, 2)


def r12(ctx):
    R = "C08-R12"
    ctx.rule(R, "everything one host tells another travels as a message over the link: no type reachable from turmoil::envelope::Protocol "
                "(Protocol -> Segment -> Syn, Datagram ..) has a field holding a live channel endpoint or shared handle (oneshot / mpsc / "
                "watch / broadcast Sender or Receiver, Notify, Arc, Rc). A receiver that can answer through such a field bypasses hold, "
                "partition and latency, and its answer never shows in Sim::links")
    seen, work, n = set(), ["turmoil::envelope::Protocol"], 0
    SIDE = re.compile(r"\b(oneshot|mpsc|watch|broadcast)::(Sender|Receiver|UnboundedSender|UnboundedReceiver)\b|\bNotify\b|\bArc<|\bRc<|\bSemaphore\b")
    while work:
        aid = work.pop()
        if aid in seen:
            continue
        seen.add(aid)
        a = ctx.w.adts.get(aid)
        if not a or not a.get("local"):
            continue
        tys = ctx.w.tys[a["crate"]]
        for v in a["variants"]:
            for f in v["fields"]:
                if "ty" not in f:
                    continue
                ts = tys[f["ty"]]["s"]
                n += 1
                bad = SIDE.search(ts)
                who = f"{aid}::{v['name']}::{f['name']}" if a["kind"] == "enum" else f"{aid}::{f['name']}"
                ctx.inst(R, f"side-channel:{who}", not bad, a.get("span", ""), f"plain data ({ts})" if not bad else
                         f"`{who}` is a `{ts}` inside a network message: the receiving host answers through it without sending a message - "
                         "the TCP SYN-ACK is `syn.ack.send(())` in TcpListener::accept, so a connect completes across a held link and the reply is never in Sim::links")
                def adts_of(i, d=0):
                    t = tys[i]
                    out = [t["adt"]] if t.get("adt") else []
                    if d < 4:
                        for x in t.get("args", ()) or ():
                            if isinstance(x, int):
                                out += adts_of(x, d + 1)
                        if "inner" in t:
                            out += adts_of(t["inner"], d + 1)
                    return out
                work += [x for x in adts_of(f["ty"]) if x.startswith("turmoil")]
    if "turmoil::envelope::Protocol" not in ctx.w.adts and ctx.strict:
        ctx.bad(R, "anchor-missing:turmoil::envelope::Protocol", "", "message type not found")
    ctx.floor(R, 4)


def run(ctx):
    from . import C09
    C09.r10(ctx)  # a released burst of udp_capacity datagrams fits: the slot of a consumed parked datagram is free again at once
    r12(ctx)
    r11(ctx)
    scan_rule(ctx, "C08")
    r1(ctx)
    r2(ctx)
    r3(ctx)
    r4(ctx)
    r5(ctx)
    r6(ctx)
    from . import C03
    C03.r6(ctx, ops=("hold", "release"), R="C08-R8")
    ctx.floor("C08-R8", 14)
    C03.r7(ctx, ops=("hold", "release"), R="C08-R9")
    ctx.floor("C08-R9", 4)
    r14(ctx)
    r15(ctx)
    from . import C12
    C12.r8(ctx)   # a released burst of connects up to tcp_capacity fits the accept queue: the capacity test is made before the enqueue, on live requests
    from . import C09
    C09.r6(ctx)   # a released burst lands in the socket together: the datagram parked by readable() is not overwritten by the next one
    C03.r2(ctx, C03.Typestate(ctx.w, C03.CELLS))   # nothing is put in flight past the state test of Link::enqueue (an answer generated on a held link is parked too)
    C02.r4(ctx)   # R7: a released batch of `capacity` data segments + FIN fits the receive queue


def r15(ctx):
    R = "C08-R15"
    ctx.rule(R, "the links iterator lists what is in the queue: LinkIter::next advances the queue's own iterator by plain `next` (no find / "
                "filter / skip_while / position / nth on the way) - a message stays in flight until its host takes it, also after a release or "
                "a manual deliver re-stamped it with the current time")
    b = ctx.body(R, "<turmoil::top::LinkIter as std::iter::Iterator>::next")
    if not b:
        return
    sel = sorted({t["f"].rsplit("::", 1)[1] for fb in ctx.w.family(b.id) for bb, t in fb.calls(re.compile(r"Iterator(>)?::(find|find_map|filter|filter_map|skip_while|take_while|position|nth|skip|step_by)$"))})
    nx = [t for bb, t in b.calls(re.compile(r"Iterator>::next$|^std::iter::Iterator::next$"))]
    ok = bool(nx) and not sel
    ctx.inst(R, "LinkIter::next:lists-every-entry", ok, b.span, "every queued message of the link is listed" if ok else
             f"LinkIter::next selects among the queued messages ({', '.join(sel) or 'no plain next()'}): a message that is still in flight (released or hand-delivered, not yet "
             "taken by its host) is missing from the links iterator - the bookkeeping around hold / release / SentRef::deliver no longer adds up")
    ctx.floor(R, 1)


def r14(ctx, R="C08-R14"):
    ctx.rule(R, "release moves only what was parked: inside Link::release every rescheduling of a message (Sent::deliver / a write of "
                "Sent::status) happens under the `Hold` arm of a test of that message's status (or behind a filter on it) - a message that "
                "is already travelling keeps its sampled delivery time when a link that was not held is released")
    b = ctx.body(R, "turmoil::top::Link::release")
    if not b:
        return
    n = 0
    filt = False
    for fb in ctx.w.family(b.id):
        for bb, t in fb.calls(re.compile(r"Iterator::filter$|Iterator>::filter$")):
            for cid in closure_args(fb, t):
                cb = ctx.w.bodies.get(cid)
                if cb and any(adt == "turmoil::top::DeliveryStatus" and "Hold" in m for sbb, m, els, adt, pl in variant_edges(cb, lambda p: True)):
                    filt = True
    for fb in ctx.w.family(b.id):
        hold = [m["Hold"] for sbb, m, els, adt, pl in variant_edges(fb, lambda p: True) if adt == "turmoil::top::DeliveryStatus" and "Hold" in m]
        sites = [(bb, t["s"]) for bb, t in fb.calls("turmoil::top::Sent::deliver")]
        sites += [(bb, s_["s"]) for bb, i, s_ in fb.all_stmts() if place_last_field(s_["p"]) == "turmoil::top::Sent::status"]
        for bb, site in sites:
            ok = (bool(hold) and fb.dominated_by_any(bb, edges=hold)) or filt
            ctx.inst(R, f"release:reschedules-only-held#{n}", ok, site, "only messages parked by a hold are rescheduled" if ok else
                     "Link::release reschedules a message without testing that it is held: releasing a link that is not held (a redundant release, "
                     "`release` over all pairs) delivers every message in flight on it at once, before its latency has elapsed")
            n += 1
    ctx.floor(R, 1)


def extra(tier, repo, work, insts):
    """E5 compile-fail witnesses (thorough tier)"""
    if tier != "thorough":
        return []
    from engine.side import witnesses
    return witnesses("C08", repo, work)
