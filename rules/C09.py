"""C09 - turmoil::net UDP delivers datagrams whole, to the right sockets, at most once (structural part)."""
from .common import *

DECIDED = ("R1 receive filter: Udp::receive_from_network enqueues (try_send) only when matches(bind.bind_addr, dst) holds and, for a "
           "connected socket, matches(target, src) holds, looked up by the destination port; R2 payload integrity: datagrams are built "
           "from Bytes::copy_from_slice of the caller's buffer on every send route and the receive copy length is min(buf.len(), "
           "bytes.len()); R3 a full or closed queue drops only the offending datagram (no panic, no other state touched); R4 membership "
           "follows socket lifetime: only join / leave / leave_all mutate MulticastGroups, UdpSocket::drop leaves all groups under the "
           "address memberships are stored under and unbinds; multicast send targets exactly destination_addresses(group); R5 broadcast "
           "is sent only when the sender enabled it, else PermissionDenied; R6 the one-slot readiness buffer is filled only when empty "
           "(a datagram taken off the channel is never overwritten).")
NOT_DECIDED = "routing-class selection as behaviour, exactly-once per destination on healthy links, wildcard / localhost matching semantics."
DECIDED += "; R8 source / destination are never swapped on the UDP send path (broadcast and multicast fan-out included) and send_loopback builds Envelope{src, dst} in parameter order; R9 exhaustive scan of MulticastGroups::leave_all"
DECIDED += "; R10 a datagram parked outside the bounded queue keeps its slot; R11 group membership is evaluated at receipt (recorded finding D12)"
DECIDED += '; R12 a multicast group is dropped only when its member set is empty, and the broadcast / multicast fan-out of UdpSocket::send visits every address (left only on exhaustion or with an error for the caller)'
DECIDED += '; R13 the multicast group table is accessed only with keys built by SocketAddr::new(ip, port) (no IPv6 scope id / flow label in the key)'
DECIDED += '; R10 also the converse: taking the parked datagram releases its slot in the same function; R14 Udp::connect overwrites the stored peer'
DECIDED += "; R4 also: the multicast member key is (host address, the socket's port); R2 also: receive functions report the size Rx::try_recv_from computed"
DECIDED += "; R5 also: the broadcast target filter looks at the bound port only; the loop-back copy of a multicast datagram follows the member's own option"
DECIDED += '; R15 a refused multicast join records nothing; host::matches compares address and port'
ASSUMPTIONS = ["mpsc::Sender::try_send either enqueues or returns the value"]

RFN = "turmoil::host::Udp::receive_from_network"


def _on_field(b, op, field):
    o = deref_origin(b, op)
    if o["k"] == "place":
        _, fields = root_place(b, o["p"])
        return field in fields
    return False


def r1(ctx):
    R = "C09-R1"
    ctx.rule(R, "in Udp::receive_from_network the Sender::try_send is unreachable from the false edge of matches(bind_addr, dst) and, on the "
                "Some(target) path, from the false edge of matches(target, src); the bind is looked up by dst.port()")
    b = ctx.body(R, RFN)
    if not b:
        return
    ts = [(bb, t) for bb, t in b.calls(re.compile(r"^tokio::sync::mpsc::Sender::(try_send|send|blocking_send)$|mpsc::Permit::send$"))]
    bind_t, bind_f, tgt_t, tgt_f = [], [], [], []
    for sbb, te, fe, o in guards_on(b, lambda o: o["k"] == "call" and callee_matches(o["t"], "turmoil::host::matches")):
        a0 = Slicer(ctx.w).atoms(b, o["t"]["args"][0])
        a1 = Slicer(ctx.w).atoms(b, o["t"]["args"][1])
        if "field:turmoil::host::UdpBind::bind_addr" in a0 and any(":dst@" in a for a in a1):
            bind_t += te
            bind_f += fe
        elif "field:turmoil::host::UdpBind::target_addr" in a0 and any(":src@" in a for a in a1):
            tgt_t += te
            tgt_f += fe
    for bb, t in ts:
        ok_b = bool(bind_t) and b.dominated_by_any(bb, edges=bind_t)
        ctx.inst(R, "receive:bind-address-guard", ok_b, t["s"], "datagram queued only at a socket whose bind address matches the destination" if ok_b else
                 "a datagram can be queued without matches(bind_addr, dst): a socket bound to localhost / another address receives traffic not addressed to it")
        # connected filter: on the Some(target) path the false edge of matches(target, src) must not reach try_send
        ves = [v for v in variant_edges(b, lambda p: "turmoil::host::UdpBind::target_addr" in root_place(b, p)[1])]
        ok_t = False
        if ves and tgt_f:
            sbb, m, els, adt, pl = ves[0]
            se = m.get("Some")
            ok_t = bool(se) and not any(bb in b.reachable(e[1]) for e in tgt_f) and bb not in b.reachable(se[1], removed_edges=tgt_t)
        if not ok_t and not tgt_f:
            # accepted alternative: the filter is an Option combinator on target_addr - `is_some_and(|t| !matches(t, src))` (true = reject)
            # or `is_none_or(|t| matches(t, src))` (false = reject)
            for sbb, te, fe, o in guards_on(b, lambda o: o["k"] == "call" and re.search(r"^std::option::Option::(is_some_and|is_none_or)$", o["t"]["f"])):
                tt = o["t"]
                if "field:turmoil::host::UdpBind::target_addr" not in Slicer(ctx.w).atoms(b, tt["args"][0]):
                    continue
                neg = None
                for cid in closure_args(b, tt):
                    cb = ctx.w.bodies.get(cid)
                    if not cb:
                        continue
                    ms = [t2 for bb2, t2 in cb.calls() if callee_matches(t2, "turmoil::host::matches")]
                    if len(ms) != 1:
                        continue
                    a1 = Slicer(ctx.w).atoms(cb, ms[0]["args"][1])
                    a0 = Slicer(ctx.w).atoms(cb, ms[0]["args"][0])
                    if not (any(":src@" in a for a in a1) and any(a.startswith("arg:2:") for a in a0)):
                        continue
                    ro = origin(cb, {"c": {"l": 0}})
                    neg = ro["k"] == "not" if ro["k"] in ("not", "call") else None
                if neg is None:
                    continue
                reject = te if (tt["f"].endswith("is_some_and") and neg) else fe if (tt["f"].endswith("is_none_or") and not neg) else None
                if reject:
                    ok_t = not any(bb in b.reachable(e[1]) for e in reject)
        ctx.inst(R, "receive:connected-peer-filter", ok_t, t["s"], "a connected socket only receives from its peer" if ok_t else
                 "a datagram from a non-peer can be queued on a connected socket (the matches(target, src) filter is missing or bypassed)")
    if not ts:
        ctx.bad(R, "receive:enqueue", b.span, "no enqueue found in Udp::receive_from_network")
    g = [t for bb, t in b.calls(re.compile(r"^indexmap::IndexMap::get_mut$|^indexmap::IndexMap::get$")) if _on_field(b, t["args"][0], "turmoil::host::Udp::binds")]
    ok = bool(g) and "call:std::net::SocketAddr::port" in Slicer(ctx.w).atoms(b, g[0]["args"][1]) and any(":dst@" in a for a in Slicer(ctx.w).atoms(b, g[0]["args"][1]))
    ctx.inst(R, "receive:lookup-by-dst-port", ok, b.span, "socket looked up by the destination port" if ok else "receiving socket is not looked up by dst.port()")
    ctx.floor(R, 3)


def r2(ctx):
    R = "C09-R2"
    ctx.rule(R, "every Datagram construction in net::udp wraps Bytes::copy_from_slice(buf) (or a clone of such a packet); Rx::try_recv_from "
                "copies min(buf.len(), bytes.len()) bytes from offset 0")
    n = 0
    cnt = {}
    for b in sorted(ctx.w.bodies.values(), key=lambda b: b.id):
        if b.crate != "turmoil" or "net::udp" not in b.id:
            continue
        for bb, i, s in b.all_stmts():
            r = s["r"]
            if r["k"] == "agg" and r.get("adt") == "turmoil::envelope::Datagram":
                at = Slicer(ctx.w).atoms(b, r["ops"][0])
                ok = "call:bytes::Bytes::copy_from_slice" in at
                n += 1
                ctx.inst(R, f"{b.id}:datagram#{nth(cnt, b.id)}", ok, s["s"], "payload = copy of the caller's buffer" if ok else "Datagram payload is not Bytes::copy_from_slice(buf)")
    tr = ctx.body(R, "turmoil::net::udp::Rx::try_recv_from")
    if tr:
        mins = [t for bb, t in tr.calls(re.compile(r"^std::cmp::min$|Ord>::min$|Ord::min$|^(usize|u64|u32)::min$"))]
        ok = False
        for t in mins:
            a0 = Slicer(ctx.w).atoms(tr, t["args"][0])
            a1 = Slicer(ctx.w).atoms(tr, t["args"][1])
            if any(a.startswith("arg:2:") for a in a0 | a1) and any(a.startswith("call:bytes::Bytes::len") or "Bytes" in a and "len" in a for a in a0 | a1):
                ok = True
        cp = [t for bb, t in tr.calls(re.compile(r"copy_from_slice$"))]
        okc = bool(cp) and all(any(re.search(r"call:.*min$", a) for a in Slicer(ctx.w).atoms(tr, t["args"][1])) for t in cp)
        ctx.inst(R, "try_recv_from:clipped-copy", ok and okc, tr.span, "copies min(buffer length, datagram length) bytes" if ok and okc else
                 "the receive copy is not clipped to min(buf.len(), datagram.len())")
    # what the callers report is the number of bytes copied (the clip computed by Rx::try_recv_from), not the datagram's own length
    k = 0
    for b, bb, t in who_calls(ctx.w, "turmoil::net::udp::Rx::try_recv_from"):
        for bb2, i, st in b.all_stmts():
            r = st["r"]
            if i == "term" or r["k"] != "agg" or r.get("variant") != "Ok" or not r.get("ops"):
                continue
            at = Slicer(ctx.w).atoms(b, r["ops"][0])
            if "call:turmoil::net::udp::Rx::try_recv_from" not in at:
                continue
            lens = sorted(a for a in at if re.search(r"::len$", a))
            ctx.inst(R, f"{b.id}:reports-bytes-copied#{k}", not lens, st["s"], "the size returned is the one try_recv_from computed" if not lens else
                     f"`{b.id}` reports a length it computed itself ({', '.join(lens)}) instead of the number of bytes Rx::try_recv_from copied: a datagram longer than the "
                     "buffer is reported with its full length although only buf.len() bytes were written")
            k += 1
    ctx.floor(R, 5)


def r3(ctx):
    R = "C09-R3"
    ctx.rule(R, "Udp::receive_from_network: from the Err edge of try_send every path returns normally - no panic call, no mutation of "
                "Udp::binds or of another queue")
    b = ctx.body(R, RFN)
    if not b:
        return
    ves = [v for v in variant_edges(b, lambda p: True) if v[3] == "std::result::Result"]
    ok = False
    site = b.span
    for sbb, m, els, adt, pl in ves:
        ee = m.get("Err")
        if not ee:
            continue
        r_ = b.reachable(ee[1])
        panics = [x for x in r_ if b.term(x)["k"] == "call" and not is_macro_noise(b.term(x)) and (b.term(x).get("t") is None)]
        muts = [x for x in r_ for _ in [0] if b.term(x)["k"] == "call" and re.search(r"IndexMap::(swap_remove|shift_remove|remove|insert|clear|retain)$|Sender::(try_send|send)$", b.term(x)["f"])]
        rets = [x for x in r_ if b.term(x)["k"] == "return"]
        ok = not panics and not muts and bool(rets)
        site = b.term(ee[1]).get("s", b.span)
    ctx.inst(R, "receive:overflow-drops-only-offender", ok, site, "a full / closed queue silently drops that datagram" if ok else
             "on a full or closed receive queue the code panics or touches other state")
    ctx.floor(R, 1)


def r4(ctx):
    R = "C09-R4"
    ctx.rule(R, "MulticastGroups.0 is mutated only in MulticastGroups::{join, leave, leave_all}; Drop for UdpSocket calls leave_all(destination_"
                "address(world, self)) and Udp::unbind on every path; join / leave callers key memberships by destination_address; multicast "
                "send iterates destination_addresses(dst)")
    MG = "turmoil::net::udp::MulticastGroups::0"
    allowed = {"turmoil::net::udp::MulticastGroups::join", "turmoil::net::udp::MulticastGroups::leave", "turmoil::net::udp::MulticastGroups::leave_all"}
    mut = re.compile(r"^indexmap::(IndexMap|IndexSet)::(insert|swap_remove|shift_remove|remove|entry|retain|clear|iter_mut|swap_remove_index|shift_remove_index|get_mut|values_mut)$")
    seen = set()
    for b in sorted(ctx.w.bodies.values(), key=lambda b: b.id):
        if b.crate != "turmoil":
            continue
        for bb, t in b.calls(mut):
            if t["args"] and _on_field(b, t["args"][0], MG):
                root = b
                while root.parent and root.parent in ctx.w.bodies:
                    root = ctx.w.bodies[root.parent]
                if (root.id, t["f"]) in seen:
                    continue
                seen.add((root.id, t["f"]))
                ok = root.id in allowed
                ctx.inst(R, f"groups-writer:{root.id}:{t['f'].rsplit('::', 1)[1]}", ok, t["s"], "membership mutated inside MulticastGroups" if ok else
                         f"`{root.id}` mutates the multicast membership table directly")
    d = ctx.w.drop_impl("turmoil::net::udp::UdpSocket")
    if not d:
        ctx.bad(R, "udp-drop", "", "UdpSocket has no Drop impl")
    else:
        db = ctx.w.bodies[d]
        okall = False
        okkey = False
        for bb, t in db.calls("turmoil::world::World::current_if_set"):
            for cid in closure_args(db, t):
                cb = ctx.w.bodies.get(cid)
                if not cb:
                    continue
                la = [(x, tt) for x, tt in cb.calls("turmoil::net::udp::MulticastGroups::leave_all")]
                ub = [x for x, tt in cb.calls("turmoil::host::Udp::unbind")]
                okall = bool(la) and bool(ub) and not always_passes(cb, [x for x, _ in la]) and not always_passes(cb, ub)
                for x, tt in la:
                    at = Slicer(ctx.w).atoms(cb, tt["args"][1])
                    okkey = "call:turmoil::net::udp::destination_address" in at
        ctx.inst(R, "udp-drop:leaves-and-unbinds", okall, db.span, "dropping a socket leaves every group and unbinds" if okall else "Drop for UdpSocket does not always leave all groups and unbind")
        ctx.inst(R, "udp-drop:leave_all-key", okkey, db.span, "leave_all keyed by destination_address(world, self)" if okkey else
                 "leave_all is not keyed by destination_address(world, self) - the key memberships are stored under - so a dropped socket stays a member and a later socket on that port receives group traffic it never joined")
    # join / leave callers use destination_address as member key
    for callee in ("turmoil::net::udp::MulticastGroups::join", "turmoil::net::udp::MulticastGroups::leave"):
        for b, bb, t in who_calls(ctx.w, callee):
            at = Slicer(ctx.w).atoms(b, t["args"][2])
            ok = "call:turmoil::net::udp::destination_address" in at
            root = b
            while root.parent and root.parent in ctx.w.bodies:
                root = ctx.w.bodies[root.parent]
            ctx.inst(R, f"member-key:{root.id}:{callee.rsplit('::', 1)[1]}", ok, t["s"], "member keyed by destination_address" if ok else f"`{root.id}` joins / leaves with a member key other than destination_address(world, self)")
    # the member key itself: (address of the host the socket lives on, the socket's port). The unicast fan-out sends to that key over
    # the host's links, so its address part must be routable - only the port is taken from the socket's bind address
    da_ = ctx.w.bodies.get("turmoil::net::udp::destination_address")
    if da_:
        at = set()
        for bb in da_.exits():
            at |= Slicer(ctx.w, control=True).atoms(da_, {"c": {"l": 0}})
        host = "field:turmoil::host::Host::addr" in at
        from_bind = sorted(a for a in at if re.search(r"SocketAddr(V4|V6)?::(ip|set_ip)$|IpAddr::is_unspecified$|Ipv[46]Addr::is_unspecified$|is_loopback$", a))
        if not host:
            # `addr.set_ip(host)` writes through a reference: the slice of the return value does not see it - name the calls instead
            from_bind = sorted({t["f"] for bb, t in da_.calls(re.compile(r"SocketAddr(V4|V6)?::(ip|set_ip)$|is_unspecified$|is_loopback$"))})
            host = bool(from_bind)
        ctx.inst(R, "member-key:host-address-and-port", host and not from_bind, da_.span, "a membership is stored under (host address, port)" if host and not from_bind else
                 "destination_address builds the member key from the address the socket is *bound* to (" + ", ".join(from_bind) + "): a member bound to 127.0.0.1 is "
                 "registered under a loopback address, a sender on another host gets ConnectionRefused for that copy and the fan-out stops - members that joined later never get the datagram"
                 if host else "destination_address no longer takes the address from the current host: re-derive")
    elif ctx.strict:
        ctx.bad(R, "anchor-missing:destination_address", "", "turmoil::net::udp::destination_address not found")
    s = ctx.body(R, "turmoil::net::udp::UdpSocket::send")
    if s:
        da = list(s.calls("turmoil::net::udp::MulticastGroups::destination_addresses"))
        mte, mfe = call_guard_edges(s, re.compile(r"IpAddr::is_multicast$"))
        ok = len(da) == 1 and bool(mte) and s.dominated_by_any(da[0][0], edges=mte)
        ctx.inst(R, "send:multicast-targets-members", ok, s.span, "a multicast send goes to exactly the group's current members" if ok else "multicast send does not take its destinations from destination_addresses(group)")
    ctx.floor(R, 8)


def r5(ctx):
    R = "C09-R5"
    ctx.rule(R, "UdpSocket::send: every send_message / send_loopback of the broadcast branch (behind Ipv4Addr::is_broadcast) is dominated by "
                "the `true` edge of Udp::is_broadcast_enabled(src.port()); the `false` edge yields PermissionDenied; fan-out targets are "
                "the hosts with that port assigned")
    s = ctx.body(R, "turmoil::net::udp::UdpSocket::send")
    if not s:
        return
    fam = ctx.w.family(s.id)
    bte = []
    en_t, en_f = [], []
    for fb in fam:
        te, fe = call_guard_edges(fb, re.compile(r"Ipv4Addr::is_broadcast$"))
        bte += [(fb.id, e) for e in te]
        te, fe = call_guard_edges(fb, "turmoil::host::Udp::is_broadcast_enabled")
        en_t += [(fb.id, e) for e in te]
        en_f += [(fb.id, e) for e in fe]
    sends = []
    for fb in fam:
        for bb, t in fb.calls(re.compile(r"World::send_message$|udp::send_loopback$")):
            if dominated_in_family(ctx.w, fb, bb, edges=bte):
                sends.append((fb, bb, t))
    ok = bool(sends) and bool(en_t) and all(dominated_in_family(ctx.w, fb, bb, edges=en_t) for fb, bb, t in sends)
    pd = [(fb, bb) for fb in fam for bb, i, st in fb.all_stmts() if st["r"]["k"] == "agg" and st["r"].get("variant") == "PermissionDenied"]
    okp = bool(pd) and bool(en_f) and all(dominated_in_family(ctx.w, fb, bb, edges=en_f) for fb, bb in pd)
    ctx.inst(R, "send:broadcast-needs-option", ok and okp, s.span, "broadcast is sent only with SO_BROADCAST, otherwise PermissionDenied" if ok and okp else
             "broadcast fan-out is not guarded by is_broadcast_enabled / does not fail with PermissionDenied")
    flt = any(True for fb in fam for _ in fb.calls("turmoil::host::Udp::is_port_assigned"))
    # ... and nothing else decides who is a target: the sender's own host is a host like any other (a listener next to the broadcaster, or
    # the broadcasting socket itself when it is bound to the port, gets its copy)
    for fb in fam:
        for bb, t in fb.calls("turmoil::host::Udp::is_port_assigned"):
            if fb.id == s.id:
                continue
            extra = sorted({t2["f"] for _, t2 in fb.calls(re.compile(r"PartialEq.*::(eq|ne)$|IpAddr::is_loopback$"))})
            ctx.inst(R, f"send:broadcast-filter-only-the-port:{fb.id.rsplit('::', 1)[1]}", not extra, t["s"], "a host is a broadcast target exactly when it has the port bound" if not extra else
                     f"the broadcast target filter also compares addresses ({', '.join(extra)}): a host that has the port bound - the sender's own - is left out and its sockets never get the datagram")
    # the loop-back copy of a multicast datagram is governed by the *member's* option (IP_MULTICAST_LOOP of the receiving socket's port)
    for fb in fam:
        for bb, t in fb.calls("turmoil::host::Udp::is_multicast_loop_enabled"):
            at = Slicer(ctx.w).atoms(fb, t["args"][1])
            from_src = sorted(a for a in at if re.match(r"arg:\d+:src@", a) or a == "field:turmoil::net::udp::UdpSocket::local_addr")
            okm = not from_src and any(re.match(r"arg:\d+:dst@", a) or "destination_addresses" in a or (re.match(r"arg:[2-9]:\w+@", a) and "{closure" in a.rsplit("@", 1)[-1]) for a in at)
            ctx.inst(R, "send:multicast-loop-option-of-the-member", okm, t["s"], "the member's own loop option decides its local copy" if okm else
                     "is_multicast_loop_enabled is asked about the *sending* socket's port: a member on the sender's host misses (or gets) the datagram according to an option "
                     "another socket set")
    ctx.inst(R, "send:broadcast-targets-bound-ports", flt, s.span, "broadcast targets = hosts with the destination port bound" if flt else "broadcast fan-out no longer filters hosts by the bound port")
    ctx.floor(R, 2)


def r6(ctx):
    R = "C09-R6"
    ctx.rule(R, "every assignment Rx::buffer = Some(datagram) is dominated by a test that the buffer is empty (is_some false edge / is_none / a "
                "preceding take in the same function): the datagram already pulled off the channel is never overwritten")
    BUF = "turmoil::net::udp::Rx::buffer"
    n = 0
    for b in sorted(ctx.w.bodies.values(), key=lambda b: b.id):
        if b.crate != "turmoil" or "net::udp" not in b.id:
            continue
        wr = []
        for bb, i, s in b.all_stmts():
            if place_last_field(s["p"]) == BUF and isinstance(s["p"]["p"][-1], dict) and s["p"]["p"][-1].get("f") == "buffer":
                r = s["r"]
                v = r.get("variant") if r["k"] == "agg" else None
                if v is None and r["k"] == "use":
                    o = origin(b, r["o"])
                    v = o["r"].get("variant") if o["k"] == "agg" else "?"
                if v != "None":
                    wr.append((bb, s))
        if not wr:
            continue
        empty_edges = []
        fam = ctx.w.family(b.id)
        for sbb, te, fe, o in guards_on(b, lambda o: o["k"] == "call" and re.search(r"Option::(is_some|is_none)$", o["t"]["f"]) and _on_field(b, o["t"]["args"][0], BUF)):
            empty_edges += fe if o["t"]["f"].endswith("is_some") else te
        for sbb, m, els, adt, pl in variant_edges(b, lambda p: BUF in root_place(b, p)[1]):
            if adt == "std::option::Option" and m.get("None"):
                empty_edges.append(m["None"])
        takes = [bb for bb, t in b.calls(re.compile(r"^std::option::Option::take$")) if _on_field(b, t["args"][0], BUF)]
        for bb, s in wr:
            n += 1
            ok = (bool(empty_edges) and b.dominated_by_any(bb, edges=empty_edges)) or (bool(takes) and b.dominated_by_any(bb, blocks=takes))
            ctx.inst(R, f"{b.id}:buffer-fill#{n}", ok, s["s"], "readiness buffer filled only when empty" if ok else
                     f"`{b.id}` stores a datagram into Rx::buffer without checking that the slot is empty: a buffered datagram is overwritten and never received")
    ctx.floor(R, 1)


def r7(ctx):
    R = "C09-R7"
    ctx.rule(R, "sibling agreement: join_multicast_v4 ~ v6, leave_multicast_v4 ~ v6 and send_to ~ try_send_to use the same in-repo callees "
                "and touch the same fields (expected difference: the ipv4 / ipv6 interface validation helper)")
    d = ["turmoil::net::udp::verify_ipv4_bind_interface", "turmoil::net::udp::verify_ipv6_bind_interface"]
    U = "turmoil::net::udp::UdpSocket::"
    sibling_rule(ctx, R, U + "join_multicast_v4", U + "join_multicast_v6", d)
    sibling_rule(ctx, R, U + "leave_multicast_v4", U + "leave_multicast_v6", d)
    sibling_rule(ctx, R, U + "send_to", U + "try_send_to")
    ctx.floor(R, 3)


def r8(ctx):
    R = "C09-R8"
    ctx.rule(R, "source / destination are never swapped on the UDP send path: in every send_loopback / World::send_message call of UdpSocket::send "
                "(including the broadcast and multicast fan-out closures) the first address derives from the socket's own local address and the "
                "second does not; the Envelope handed to the host in send_loopback is built as {src, dst} from its parameters in order")
    LA = "field:turmoil::net::udp::UdpSocket::local_addr"
    s = ctx.body(R, "turmoil::net::udp::UdpSocket::send")
    n = 0

    def roles(fid):
        """(index of the parameter that becomes Envelope::src, index of the one that becomes Envelope::dst) of a sending function,
        read off the Envelope it builds - whatever the order of its parameters"""
        cb = ctx.w.bodies.get(fid)
        if not cb:
            return None
        sfx = "@" + cb.id
        for fb2 in ctx.w.family(cb.id):
            for bb2, i2, st2 in fb2.all_stmts():
                r2 = st2["r"]
                if i2 != "term" and r2["k"] == "agg" and r2.get("adt") == "turmoil::envelope::Envelope":
                    m2 = dict(zip(r2["fields"], r2["ops"]))
                    idx = lambda at: sorted({int(a.split(":")[1]) for a in at if a.startswith("arg:") and a.endswith(sfx)})
                    ks, kd = idx(Slicer(ctx.w).atoms(fb2, m2["src"])), idx(Slicer(ctx.w).atoms(fb2, m2["dst"]))
                    if len(ks) == 1 and len(kd) == 1 and ks != kd:
                        return ks[0] - 1, kd[0] - 1
        return None
    if s:
        for fb in ctx.w.family(s.id):
            for bb, t in fb.calls(re.compile(r"World::send_message$|udp::send_loopback$")):
                off = 1 if t["f"].endswith("send_message") else 0
                rl = roles(t["f"]) or (off, off + 1)
                a0 = Slicer(ctx.w).atoms(fb, t["args"][rl[0]])
                a1 = Slicer(ctx.w).atoms(fb, t["args"][rl[1]])
                n += 1
                ok = LA in a0 and LA not in a1
                ctx.inst(R, f"send:{t['f'].rsplit('::', 1)[1]}#{n}", ok, t["s"], "(source = own address, destination = target)" if ok else
                         f"`{t['f']}` is called with source and destination swapped / mixed: the datagram is delivered to the wrong socket and reports the wrong origin")
    sl = ctx.body(R, "turmoil::net::udp::send_loopback")
    if sl:
        ok = False
        for fb in ctx.w.family(sl.id):
            for bb, i, st in fb.all_stmts():
                r = st["r"]
                if r["k"] == "agg" and r.get("adt") == "turmoil::envelope::Envelope":
                    m = dict(zip(r["fields"], r["ops"]))
                    a_s = Slicer(ctx.w).atoms(fb, m["src"])
                    a_d = Slicer(ctx.w).atoms(fb, m["dst"])
                    sfx = "@" + sl.id
                    # the two address parameters in declaration order (whatever else is declared around them)
                    addr = [k + 1 for k, ti in enumerate(ctx.w.fns[sl.id]["inputs"]) if ctx.w.tys[sl.crate][ti]["s"].endswith("SocketAddr")] if sl.id in ctx.w.fns else [1, 2]
                    k1, k2 = (addr + [1, 2])[:2] if len(addr) >= 2 else (1, 2)
                    has = lambda at, k: any(a.startswith(f"arg:{k}:") and a.endswith(sfx) for a in at)
                    ok = has(a_s, k1) and not has(a_s, k2) and has(a_d, k2) and not has(a_d, k1)
        ctx.inst(R, "send_loopback:envelope-order", ok, sl.span, "Envelope { src: first address, dst: second address }" if ok else "send_loopback builds its Envelope with src / dst swapped")
    ctx.floor(R, 6)


def r10(ctx):
    R = "C09-R10"
    ctx.rule(R, "the receive capacity counts every datagram a socket holds: wherever a datagram is taken out of the bounded queue only to "
                "be parked in a field of Rx (readable() cannot peek an mpsc channel), a slot of the queue is reserved for it in the same "
                "function on every path (Sender::try_reserve_owned / reserve_owned kept in a field), and taking the parked datagram gives "
                "the slot back; otherwise a socket waiting in readable() accepts udp_capacity + 1 datagrams")
    BUF = "turmoil::net::udp::Rx::buffer"
    n = 0
    for b in sorted(ctx.w.bodies.values(), key=lambda b: b.id):
        if b.crate != "turmoil" or "net::udp::Rx" not in b.id:
            continue
        parks = []
        for bb, i, s in b.all_stmts():
            if place_last_field(s["p"]) != BUF:
                continue
            o = {"k": "agg", "r": s["r"]} if s["r"]["k"] == "agg" else origin(b, s["r"]["o"]) if s["r"]["k"] == "use" else {"k": "?"}
            if o["k"] == "agg" and o["r"].get("variant") == "Some":
                parks.append((bb, s))
        for bb, s in parks:
            n += 1
            root = b
            while root.parent and root.parent in ctx.w.bodies:
                root = ctx.w.bodies[root.parent]
            res = [x for x, t in b.calls(re.compile(r"mpsc::(bounded::)?Sender::(try_reserve_owned|reserve_owned|try_reserve|reserve)$|Sender<T>::(try_reserve_owned|reserve_owned)$"))]
            stored = [x for x, i2, s2 in b.all_stmts() if (place_last_field(s2["p"]) or "").startswith("turmoil::net::udp::Rx::") and place_last_field(s2["p"]) != BUF
                      and any(re.search(r"call:.*(try_reserve_owned|reserve_owned|try_reserve|reserve)$", a) for a in Slicer(ctx.w).atoms(b, s2["r"].get("o", {}) if s2["r"]["k"] == "use" else {}))]
            ok = bool(res) and bool(stored) and (not always_passes(b, stored, frm=bb) or any(b.dominated_by_block(bb, x) for x in stored))
            ctx.inst(R, f"{root.id}:parked-datagram-holds-slot", ok, s["s"], "the parked datagram keeps its queue slot occupied" if ok else
                     f"`{root.id}` moves a datagram out of the bounded receive queue into Rx::buffer without reserving its slot: while a datagram is parked "
                     "the queue accepts one more, so the socket holds udp_capacity + 1 datagrams")
        # the converse: whoever takes the parked datagram gives its slot back there and then (on the `Some` path, in the same function) -
        # a slot released later (at the next readable() / recv_from()) leaves an idle socket with udp_capacity - 1 free slots
        SLOT = "turmoil::net::udp::Rx::buffer_slot"
        for bb, t in b.calls(re.compile(r"^std::option::Option::take$")):
            if not t["args"] or not _on_field(b, t["args"][0], BUF):
                continue
            n += 1
            some = [m["Some"] for sbb, m, els, adt, pl in variant_edges(b, lambda p: True) if adt == "std::option::Option" and "Some" in m and
                    origin(b, {"c": {"l": pl["l"]}}).get("bb") == bb]
            rel = [x for x, i2, s2 in b.all_stmts() if i2 != "term" and place_last_field(s2["p"]) == SLOT]
            rel += [x for x, t2 in b.calls(re.compile(r"^std::option::Option::take$|^std::mem::(drop|take)$")) if t2["args"] and _on_field(b, t2["args"][0], SLOT)]
            ok = bool(some) and bool(rel) and not always_passes(b, rel, frm=some[0][1])
            ctx.inst(R, f"{b.id}:taken-datagram-frees-slot", ok, t["s"], "consuming the parked datagram releases its queue slot on the spot" if ok else
                     f"`{b.id}` takes the parked datagram out of Rx::buffer but has a path that returns without releasing Rx::buffer_slot: the slot stays reserved until some later "
                     "call, and in the meantime the socket accepts only udp_capacity - 1 datagrams (with capacity 1: none) - datagrams within the capacity are dropped as `Full buffer`")
    ctx.floor(R, 2)


def r11(ctx):
    R = "C09-R11"
    ctx.rule(R, "group membership is evaluated where the datagram is received: UdpSocket::send resolves a multicast destination to the member "
                "list at send time and re-addresses every copy to the member's unicast address, so with a non-zero latency the membership can "
                "change while the copy is in flight; the receive path (Host::receive_from_network -> Udp::receive_from_network) must then "
                "consult MulticastGroups again - or the copy must keep the group address - for 'only current members' to hold")
    hr = ctx.body(R, "turmoil::host::Host::receive_from_network")
    sd = ctx.body(R, "turmoil::net::udp::UdpSocket::send")
    if not hr or not sd:
        return
    snap = any(True for fb in ctx.w.family(sd.id) for _ in fb.calls(re.compile(r"MulticastGroups::destination_addresses$")))
    reach = reach_bodies(ctx.w, [hr.id])
    consults = any(True for bid in reach for _ in ctx.w.bodies[bid].calls(re.compile(r"^turmoil::net::udp::MulticastGroups::"))) or \
        any("turmoil::world::World::multicast_groups" in place_fields(pl) for bid in reach for bb, i, s in ctx.w.bodies[bid].all_stmts()
            for pl in [s["p"]] + ([s["r"]["p"]] if isinstance(s["r"].get("p"), dict) else []))
    ok = consults or not snap
    ctx.inst(R, "multicast:membership-at-receipt", ok, hr.span, "membership is (re)checked on receipt" if ok else
             "members are snapshotted at send time (MulticastGroups::destination_addresses in UdpSocket::send) and the receive path never consults "
             "MulticastGroups: a copy still in flight is delivered to a socket that has left the group - or to a fresh socket on that port that never joined")
    ctx.floor(R, 1)


def _err_blocks(fb):
    """blocks in which an error value is produced for the caller: `?` (FromResidual::from_residual) or an `Err(..)` aggregate"""
    out = set()
    for bb, t in fb.calls(re.compile(r"FromResidual>::from_residual$|::from_residual$")):
        out.add(bb)
    for bb, i, s2 in fb.all_stmts():
        r = s2["r"]
        if i != "term" and r["k"] == "agg" and r.get("variant") in ("Err", "Break") :
            out.add(bb)
    return out


def r12(ctx):
    R = "C09-R12"
    ctx.rule(R, "a multicast datagram reaches every current member: (a) MulticastGroups drops a group only when its member set is empty - every "
                "removal of a group entry (retain verdict, swap_remove_index / remove on the group map) is decided by `is_empty` of that group's "
                "members, never by whether the leaving socket was a member; (b) the fan-out in UdpSocket::send visits every address returned by "
                "destination_addresses: a `for` loop over them is left only on exhaustion or with an error for the caller, a closure given to "
                "try_for_each / try_fold builds no Err / Break of its own (it stops only by propagating a callee's error), and no truncating adaptor is applied")
    GROUPS = "turmoil::net::udp::MulticastGroups::"
    MEMBER_REMOVAL = re.compile(r"IndexSet::(swap_remove|shift_remove|remove|swap_take|shift_take|take)$|HashSet::(remove|take)$")
    n = 0
    for b in sorted(ctx.w.bodies.values(), key=lambda b: b.id):
        if not b.id.startswith(GROUPS) or b.kind == "Closure":
            continue
        for fb in ctx.w.family(b.id):
            for bb, t in fb.calls(re.compile(r"IndexMap::(retain|retain_mut|swap_remove|shift_remove|swap_remove_index|shift_remove_index|swap_remove_entry|shift_remove_entry|remove|pop|clear|drain|truncate)$|HashMap::(retain|remove|clear|drain)$")):
                n += 1
                op = t["f"].rsplit("::", 1)[1]
                if op.startswith("retain"):
                    cl = origin(fb, t["args"][1]) if len(t["args"]) > 1 else {"k": "?"}
                    cid = cl["r"].get("def") if cl["k"] == "agg" else None
                    cb = ctx.w.bodies.get(cid) if cid else None
                    at = set()
                    if cb:
                        rets = [s2 for bbx, i, s2 in cb.all_stmts() if i != "term" and s2["p"]["l"] == 0 and not s2["p"].get("p")]
                        for s2 in rets:
                            for o in _ops(s2["r"]):
                                at |= Slicer(ctx.w).atoms(cb, o)
                        for bbx, t2 in cb.calls(re.compile(".")):
                            if t2["d"]["l"] == 0:
                                at.add("call:" + t2["f"])
                                for a in t2["args"]:
                                    at |= Slicer(ctx.w).atoms(cb, a)
                    emp = any(a.startswith("call:") and a.endswith("::is_empty") or a.endswith("::len") for a in at)
                    rem = sorted(a for a in at if a.startswith("call:") and MEMBER_REMOVAL.search(a[5:]))
                    ok = bool(cb) and emp and not rem
                    why = "verdict is the emptiness of the member set"
                else:
                    ok = False
                    for sbb, te, fe, o in guards_on(fb, lambda o: True):
                        at = Slicer(ctx.w, into_callees=2).atoms(fb, fb.term(sbb)["d"])
                        if any(a.startswith("call:") and a.endswith("::is_empty") for a in at) and fb.dominated_by_any(bb, edges=te + fe):
                            ok = True
                    why = "removal is behind an emptiness test"
                ctx.inst(R, f"group-drop:{b.id}:{op}#{nth({}, b.id + op)}", ok, t["s"], why if ok else
                         f"`{b.id}` removes a multicast group entry ({op}) on a condition other than `its member set is empty`: when one member leaves (or its socket "
                         "is dropped) the group is forgotten together with its other members, who silently stop receiving")
    ctx.inst(R, "group-drop:found", n >= 2, "", f"{n} group removals analysed" if n >= 2 else "fewer than 2 group removals (leave, leave_all) found: re-derive")
    # (b) fan-out
    send = ctx.body(R, "turmoil::net::udp::UdpSocket::send")
    if send:
        fam = ctx.w.family(send.id)
        src = [(fb, bb) for fb in fam for bb, t in fb.calls(re.compile(r"MulticastGroups::destination_addresses$"))]
        ctx.inst(R, "fan-out:source", bool(src), send.span, "send enumerates the group's members with destination_addresses" if src else
                 "UdpSocket::send no longer calls MulticastGroups::destination_addresses: re-derive the fan-out rule")
        k = 0
        for fb in fam:
            eb = _err_blocks(fb)
            for comp in sorted(loops(fb), key=lambda c: min(c)):
                ex = loop_exits(fb, comp)
                if not any(is_exhaustion_exit(fb, u) for u, v in ex):
                    continue
                k += 1
                bad = [(u, v) for (u, v) in ex if not is_exhaustion_exit(fb, u) and
                       any(fb.term(x)["k"] == "return" for x in fb.reachable(v, removed_blocks=eb))]
                ctx.inst(R, f"fan-out:loop:{fb.id}#{k}", not bad, fb.term(min(comp)).get("s", fb.span), "left only on exhaustion or with an error" if not bad else
                         f"the member loop of `{fb.id}` can be left early without an error (exit from bb{bad[0][0]} at {fb.term(bad[0][0]).get('s', '')}): "
                         "members listed after that point never get the datagram while send_to returns Ok")
            for bb, t in fb.calls(re.compile(r"Iterator::(try_for_each|try_fold|all|any|find|find_map|position)$")):
                k += 1
                opn = t["f"].rsplit("::", 1)[1]
                cl = origin(fb, t["args"][-1])
                cid = cl["r"].get("def") if cl["k"] == "agg" else None
                cb = ctx.w.bodies.get(cid) if cid else None
                own = sorted(_err_blocks(cb)) if cb else []
                ok = opn in ("try_for_each", "try_fold") and cb is not None and not own
                ctx.inst(R, f"fan-out:{opn}:{fb.id}#{k}", ok, t["s"], "the closure stops the fan-out only by propagating a callee's error" if ok else
                         f"`{fb.id}` walks the members with `{opn}` whose closure can stop the walk itself"
                         + (f" (builds Err / Break in bb{own[0]})" if own else "") + ": the remaining members never get the datagram")
            tr = sorted({t["f"].rsplit("::", 1)[1] for bb, t in fb.calls(TRUNCATING)})
            if tr:
                ctx.bad(R, f"fan-out:truncated:{fb.id}", fb.span, f"`{fb.id}` truncates an iteration with {tr}")
        ctx.inst(R, "fan-out:found", k >= 1, send.span, f"{k} member walks analysed" if k >= 1 else "no walk over the members found in UdpSocket::send: re-derive")
    ctx.floor(R, 6)


def _ops(r):
    return [o for o in [r.get("o"), r.get("a"), r.get("b")] + list(r.get("ops", [])) if isinstance(o, dict)]


def r13(ctx):
    R = "C09-R13"
    ctx.rule(R, "the group table is keyed by (group address, port) and nothing else: join / leave build their key with SocketAddr::new(ip, port); the "
                "lookup at send time must use a key built the same way - a destination written with an IPv6 scope id or flow label (link-local "
                "multicast always carries a scope id) is otherwise a different key, the lookup finds no members and the datagram reaches nobody while send returns Ok")
    G0 = "turmoil::net::udp::MulticastGroups::0"
    n, bad = 0, []
    for b in sorted(ctx.w.bodies.values(), key=lambda b: b.id):
        if not b.id.startswith("turmoil::net::udp::MulticastGroups::"):
            continue
        for bb, t in b.calls(re.compile(r"IndexMap::(get|get_mut|entry|contains_key|swap_remove|shift_remove|insert|get_index_of)$")):
            if not t["args"] or not _on_field(b, t["args"][0], G0):
                continue
            n += 1
            at = Slicer(ctx.w).atoms(b, t["args"][1])
            if "call:std::net::SocketAddr::new" not in at:
                bad.append((b.id, t["f"].rsplit("::", 1)[1], t["s"]))
    ctx.inst(R, "group-key:normalised", n >= 3 and not bad, bad[0][2] if bad else "", f"{n} accesses of the group table use keys built by SocketAddr::new(ip, port)" if n >= 3 and not bad else
             (f"`{bad[0][0]}` accesses the group table ({bad[0][1]}) with the destination address as the caller wrote it, while join / leave key it by SocketAddr::new(ip, port): "
              "a send to ff02::1%2 finds no members although they joined - no current member receives the datagram" if bad else f"only {n} keyed accesses of the group table found: re-derive"))
    ctx.floor(R, 1)


def r14(ctx):
    R = "C09-R14"
    ctx.rule(R, "a connected socket receives from the peer it was *last* connected to: Udp::connect overwrites UdpBind::target_addr with Some(dst) on "
                "every path that returns Ok - an assignment from the argument, not a get_or_insert / or_insert that keeps an earlier peer")
    uc = ctx.body(R, "turmoil::host::Udp::connect")
    if not uc:
        return
    TA = "turmoil::host::UdpBind::target_addr"
    wr = []
    for fb in ctx.w.family(uc.id):
        for bb, i, s2 in fb.all_stmts():
            if i != "term" and place_last_field(s2["p"]) == TA and s2["r"]["k"] in ("agg", "use"):
                at = set()
                for o in _ops(s2["r"]):
                    at |= Slicer(ctx.w).atoms(fb, o)
                if any(a.startswith("arg:") for a in at):
                    wr.append(s2["s"])
    keep = [t["f"].rsplit("::", 1)[1] for fb in ctx.w.family(uc.id) for bb, t in fb.calls(re.compile(r"^std::option::Option::(get_or_insert|get_or_insert_with|or|or_else|insert)$")) if t["args"] and _on_field(fb, t["args"][0], TA)]
    keep = [k for k in keep if k != "insert"]
    ok = bool(wr) and not keep
    ctx.inst(R, "connect:replaces-peer", ok, uc.span, "connect stores the new peer unconditionally" if ok else
             f"Udp::connect does not overwrite the stored peer ({keep or 'no assignment of Some(dst) to UdpBind::target_addr'}): after connect(A); connect(B) the socket still "
             "filters on A - datagrams from B, the connected peer, are dropped and datagrams from A are still delivered")
    ctx.floor(R, 1)


def r15(ctx):
    R = "C09-R15"
    ctx.rule(R, "(a) a join that is refused leaves no trace: in join_multicast_v4 / v6 the membership is recorded (MulticastGroups::join) only "
                "after the interface check passed; (b) the connected-peer filter and the bind match compare ports: host::matches decides on "
                "address *and* port (the UDP peer filter calls it with nothing else having compared the ports)")
    n = 0
    for b in sorted(ctx.w.bodies.values(), key=lambda x: x.id):
        if b.crate != "turmoil" or not re.search(r"UdpSocket::join_multicast_v[46]", b.id):
            continue
        joins = [bb for bb, t in b.calls("turmoil::net::udp::MulticastGroups::join")]
        ver = [bb for bb, t in b.calls(re.compile(r"^turmoil::net::udp::verify_ipv[46]_bind_interface$"))]
        if not joins:
            continue
        n += 1
        ok = bool(ver) and all(b.dominated_by_any(j, blocks=ver) for j in joins)
        if not ok and b.parent in ctx.w.bodies:
            # the check is made by the enclosing function before it enters the world (v6)
            rb = ctx.w.bodies[b.parent]
            rv = [bb for bb, t in rb.calls(re.compile(r"^turmoil::net::udp::verify_ipv[46]_bind_interface$"))]
            wc = [bb for bb, t in rb.calls(re.compile(r"World::current$")) if b.id in closure_args(rb, t)]
            ok = bool(rv) and bool(wc) and all(rb.dominated_by_any(x, blocks=rv) for x in wc)
        ctx.inst(R, f"join:after-the-interface-check:{b.id.split('UdpSocket::', 1)[1].split('::', 1)[0]}", ok, b.term(joins[0])["s"], "the membership is recorded once the interface was accepted" if ok else
                 f"`{b.id}` records the membership before (or without) the interface check: a join that fails with AddrNotAvailable still makes the socket a member - it receives "
                 "every later datagram of a group it never joined")
    ctx.floor(R, 2)
    m = ctx.w.bodies.get("turmoil::host::matches")
    if m:
        ports = [t for bb, t in m.calls(re.compile(r"^std::net::SocketAddr::port$"))]
        whole = [t for bb, t in m.calls(re.compile(r"SocketAddr as std::cmp::PartialEq>::(eq|ne)$"))]
        ok = len(ports) >= 2 and (bool(whole) or len(ports) >= 4)
        ctx.inst(R, "matches:compares-ports", ok, m.span, "host::matches compares address and port" if ok else
                 "host::matches no longer compares the ports (only the ip): the connected-peer filter `matches(target, src)` lets every socket of the peer's host through - a "
                 "connected UDP socket receives datagrams from senders it is not connected to")
    elif ctx.strict:
        ctx.bad(R, "anchor-missing:host::matches", "", "turmoil::host::matches not found")


def run(ctx):
    r15(ctx)
    r14(ctx)
    r13(ctx)
    r12(ctx)
    r11(ctx)
    r10(ctx)
    scan_rule(ctx, "C09")
    r8(ctx)
    r7(ctx)
    r1(ctx)
    r2(ctx)
    r3(ctx)
    r4(ctx)
    r5(ctx)
    r6(ctx)
