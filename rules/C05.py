"""C05 - virtual clocks advance exactly one tick per step and agree with each other (structural part)."""
from .common import *

DECIDED = ("R1 in Sim::step the two host loops iterate the two components of one Iterator::partition over Sim::rts.iter_mut() "
           "(together: every registered host, each in exactly one loop) and every non-error path through each loop body calls "
           "World::tick exactly once; Sim::elapsed += tick and Topology::tick_by happen exactly once per Ok path; R2 one tick value: "
           "the arguments of Topology::tick_by, Rt::tick, both World::tick calls and the elapsed increment all derive only from "
           "Config::tick; World::tick forwards its duration to HostTimer::tick which adds it to elapsed; Rt::tick sleeps for its "
           "parameter; R3 timer wiring: sim_elapsed = start_offset + elapsed(), since_epoch = since_epoch + sim_elapsed(), "
           "Sim::since_epoch = since_epoch + elapsed; both HostTimer::new call sites (Sim::client, Sim::host - siblings) pass "
           "(Sim::elapsed field, Sim::since_epoch field) in that order; R4 the host's `now` instant is refreshed from its runtime "
           "before each Rt::tick; runtimes are paused (C01-R3).")
NOT_DECIDED = ("millisecond-exact firing of tokio timers, the window of times observable inside a step, monotonicity as a numeric fact.")
DECIDED += "; R6 exhaustive scan: Topology::tick_by ticks every link"
DECIDED += "; R7 the tokio clocks and the nominal clocks advance by the same amount per step (whole-millisecond ticks; recorded finding D16); R8 = C01-R7; R9 the step's start instant is cleared when the step ends and HostTimer::elapsed needs none"
DECIDED += '; R11 the old LocalSet is destroyed inside an entered runtime (destructors run by crash / bounce read the virtual clock)'
DECIDED += '; R3 also: since_epoch_at_step_start = since_epoch + start_offset + elapsed; R11 also: the runtime entered for the destruction is the old one'
DECIDED += '; R1 also: Sim::elapsed is advanced after the last host tick of the step'
DECIDED += "; R12 every FsContext pairs a filesystem with its own clock; the software factory runs inside the host's runtime on first start too (shared C04-R5)"
DECIDED += '; R13 HostTimer::now replaces the stored step-start instant'
ASSUMPTIONS = ["tokio start_paused + sleep(tick) advances the runtime clock by exactly tick"]

STEP = "turmoil::sim::Sim::step"
TICK = "field:turmoil::config::Config::tick"


def _loops(ctx, b):
    """[(into_iter bb, next bb, some_edge, source atoms)] for the `for` loops over Vec in step"""
    out = []
    for bb, t in b.calls(re.compile(r"^<std::vec::Vec as std::iter::IntoIterator>::into_iter$")):
        at = Slicer(ctx.w).atoms(b, t["args"][0])
        nxt = None
        for bb2, t2 in b.calls(re.compile(r"^<std::vec::IntoIter as std::iter::Iterator>::next$")):
            if b.dominated_by_block(bb2, bb):
                src = Slicer(ctx.w).atoms(b, t2["args"][0])
                nxt = bb2 if nxt is None or b.dominated_by_block(nxt, bb2) is False else nxt
        # choose the next() whose iterator local is this into_iter's destination
        cand = []
        for bb2, t2 in b.calls(re.compile(r"^<std::vec::IntoIter as std::iter::Iterator>::next$")):
            o = deref_origin(b, t2["args"][0])
            if o["k"] == "call" and o["bb"] == bb:
                cand.append(bb2)
            elif o["k"] == "place":
                l, _ = root_place(b, o["p"])
                d = origin(b, {"c": {"l": l}})
                if l == t["d"]["l"] or (d["k"] == "call" and d["bb"] == bb):
                    cand.append(bb2)
        # the iterator is moved into a loop variable: follow one move
        if not cand:
            for bb2, i, s in b.all_stmts():
                if s["r"]["k"] == "use" and op_local(s["r"]["o"]) == t["d"]["l"] and not s["p"].get("p"):
                    for bb3, t3 in b.calls(re.compile(r"^<std::vec::IntoIter as std::iter::Iterator>::next$")):
                        o = deref_origin(b, t3["args"][0])
                        if o["k"] == "place" and root_place(b, o["p"])[0] == s["p"]["l"]:
                            cand.append(bb3)
        if not cand:
            continue
        nb = cand[0]
        some = None
        for sbb, m, els, adt, pl in variant_edges(b, lambda p: True):
            if adt == "std::option::Option" and "Some" in m and b.dominated_by_block(sbb, nb) and pl["l"] == b.term(nb)["d"]["l"]:
                some = m["Some"]
        out.append((bb, nb, some, at, t))
    return out


class Visit:
    """one traversal of a host collection in Sim::step: an explicit `for` loop or `<iter>.for_each(closure)`"""
    def __init__(self, ctx, b, kind, comp, site, **kw):
        self.ctx, self.b, self.kind, self.comp, self.site = ctx, b, kind, comp, site
        self.__dict__.update(kw)

    def per_iteration(self, pat):
        """(min, max) number of calls matching pat on a path through one iteration"""
        if self.kind == "loop":
            hit = [bb for bb, t in self.b.calls(pat)]
            return path_counts(self.b, self.some[1], lambda x: x in hit, stop_blocks=[self.nb], only_stop=True) if self.some else None
        lo, hi = 0, 0
        for cid in self.closures:
            cb = self.ctx.w.bodies.get(cid)
            if cb is None:
                return None
            hit = [bb for bb, t in cb.calls(pat)]
            pc = path_counts(cb, 0, lambda x: x in hit)
            if pc is None:
                return None
            lo, hi = lo + pc[0], hi + pc[1]
        return (lo, hi)

    def calls(self, pat):
        """call sites matching pat inside one iteration: [(body, bb, term)]"""
        if self.kind == "loop":
            blocks = self.b.reachable(self.some[1], stop=[self.nb]) if self.some else set()
            return [(self.b, bb, t) for bb, t in self.b.calls(pat) if bb in blocks]
        out = []
        for cid in self.closures:
            for fb in self.ctx.w.family(cid):
                out += [(fb, bb, t) for bb, t in fb.calls(pat)]
        return out


def visits(ctx, b, pl):
    out = []
    for ib, nb, some, at, t in _loops(ctx, b):
        out.append(Visit(ctx, b, "loop", loop_component(b, t, pl), t["s"], ib=ib, nb=nb, some=some))
    for bb, t in b.calls(re.compile(r"^std::iter::Iterator::for_each$|Iterator>::for_each$")):
        comp = loop_component(b, t, pl)
        if comp is None:
            continue
        out.append(Visit(ctx, b, "for_each", comp, t["s"], closures=closure_args(b, t)))
    return out


def r1(ctx):
    R = "C05-R1"
    ctx.rule(R, "Sim::step: one Iterator::partition over rts.iter_mut(); loop A iterates component 0, loop B component 1; in each loop "
                "body every path back to the loop header passes exactly one World::tick; elapsed += and tick_by exactly once")
    b = ctx.body(R, STEP)
    if not b:
        return
    parts = list(b.calls(re.compile(r"^std::iter::Iterator::partition$|Iterator>::partition$")))
    okp = len(parts) == 1 and "field:turmoil::sim::Sim::rts" in Slicer(ctx.w).atoms(b, parts[0][1]["args"][0]) and \
        any(a.startswith("call:indexmap::IndexMap::iter_mut") for a in Slicer(ctx.w).atoms(b, parts[0][1]["args"][0]))
    ctx.inst(R, "step:partition-of-all-hosts", okp, parts[0][1]["s"] if parts else b.span, "hosts are split once by partition over rts.iter_mut()" if okp else
             "Sim::step no longer splits rts.iter_mut() with a single partition (a host can be in neither / both loops)")
    if not parts:
        return
    pl = parts[0][1]["d"]["l"]
    loops = visits(ctx, b, pl)
    comps = {}
    for n_, v in enumerate(loops):
        comp = v.comp
        comps[n_] = comp
        pc = v.per_iteration("turmoil::world::World::tick")
        t = {"s": v.site}
        ctx.inst(R, f"step:loop-component-{comp}:ticks-once", comp in (0, 1) and pc == (1, 1), t["s"],
                 f"loop over partition component {comp}: World::tick count per iteration {pc}" +
                 ("" if comp in (0, 1) and pc == (1, 1) else " - every registered host must be ticked exactly once per step; this loop's domain is not a partition component or a path ticks it 0/2 times"))
    okc = sorted(c for c in comps.values() if c is not None) == [0, 1] and len(loops) == 2
    ctx.inst(R, "step:both-components-visited", okc, b.span, "component 0 (running) and component 1 (stopped) are each visited by exactly one loop" if okc else
             f"the host loops of Sim::step do not visit partition components 0 and 1 exactly once each (found {sorted(str(c) for c in comps.values())}): "
             "some host's clock is advanced twice or not at all in a step")
    # elapsed += tick exactly once on the Ok path, after both loops
    aa = [bb for bb, t in b.calls(re.compile(r"Duration as std::ops::AddAssign>::add_assign$")) if "field:turmoil::sim::Sim::elapsed" in Slicer(ctx.w).atoms(b, t["args"][0])]
    tb = [bb for bb, t in b.calls("turmoil::top::Topology::tick_by")]
    okrets = [bb for bb, s in ret_aggs(b, "Ok")]
    ok = len(aa) == 1 and len(tb) == 1 and all(b.dominated_by_block(x, aa[0]) and b.dominated_by_block(x, tb[0]) for x in okrets) and bool(okrets)
    ctx.inst(R, "step:elapsed-and-network-once", ok, b.span, "Sim::elapsed and the topology clock advance once on every Ok path" if ok else
             "Sim::elapsed += tick / Topology::tick_by do not happen exactly once on every Ok path of step")
    # ... and only after every host was ticked: during the step Sim::elapsed is the time at the *start* of the step (what the hosts'
    # clocks, and the filesystem clock derived next to them, are measured against); a step that returns a host's error early has
    # not advanced it
    ticks = [bb for fb in [b] for bb, t in fb.calls(re.compile(r"^turmoil::world::World::tick$|^turmoil::rt::Rt::tick$"))]
    for v in loops:
        ticks += [v.ib] if getattr(v, "ib", None) is not None else []
    late = bool(aa) and not any(x in b.reachable(a) and x != a for a in aa for x in ticks)
    ctx.inst(R, "step:elapsed-advances-after-the-hosts", late, b.term(aa[0])["s"] if aa else b.span, "Sim::elapsed is advanced after the last host tick of the step" if late else
             "Sim::step advances Sim::elapsed before the hosts are ticked: during the step everything computed from it (the filesystem / io_uring clock handed to the "
             "tick) is one tick ahead of the hosts' own clocks, and a step that fails early has already counted its tick")
    ctx.floor(R, 6)


def json_key(p):
    return str(p.get("p"))


def loop_component(b, t, pl):
    """which tuple component of the partition result (local pl) feeds the into_iter call t"""
    comp = None
    seen = set()
    work = [op_place(t["args"][0])]
    while work:
        p = work.pop()
        if p is None:
            continue
        key = (p["l"], json_key(p))
        if key in seen:
            continue
        seen.add(key)
        if p["l"] == pl and p.get("p") and isinstance(p["p"][0], dict) and p["p"][0].get("o") == "(tuple)":
            comp = p["p"][0]["i"]
            break
        for bb2, i2, s2 in b.defs().get(p["l"], []):
            if i2 != "term" and s2["r"]["k"] in ("use", "ref") and not s2["p"].get("p"):
                work.append(op_place(s2["r"].get("o")) or s2["r"].get("p"))
            elif i2 == "term" and s2["k"] == "call" and re.search(r"IntoIterator>::into_iter$|::into_iter$|::iter$|::iter_mut$|::drain$", s2.get("f", "")) and s2["args"]:
                work.append(op_place(s2["args"][0]))
    return comp


def r2(ctx):
    R = "C05-R2"
    ctx.rule(R, "provenance: argument of Topology::tick_by, of Rt::tick (inside the World::enter closure), of both World::tick calls and the "
                "right operand of elapsed += are exactly Config::tick (no literal / other Duration); World::tick -> HostTimer::tick(duration) "
                "-> elapsed += duration; Rt::tick sleeps for its parameter; Topology::tick_by passes its parameter to Rt::tick")
    b = ctx.body(R, STEP)
    if not b:
        return
    sl = Slicer(ctx.w)

    def only_tick(at):
        return TICK in at and not any(a.startswith("call:std::time::Duration::") or (a.startswith("const:") and "Duration" in a) for a in at)
    sites = []
    for bb, t in b.calls("turmoil::top::Topology::tick_by"):
        sites.append(("tick_by", t["s"], sl.atoms(b, t["args"][1])))
    n = 0
    for fb in ctx.w.family(b.id):
        for bb, t in fb.calls("turmoil::world::World::tick"):
            sites.append((f"World::tick#{n}", t["s"], sl.atoms(fb, t["args"][2])))
            n += 1
    for bb, t in b.calls(re.compile(r"Duration as std::ops::AddAssign>::add_assign$")):
        if "field:turmoil::sim::Sim::elapsed" in sl.atoms(b, t["args"][0]):
            sites.append(("elapsed+=", t["s"], sl.atoms(b, t["args"][1])))
    for fb in ctx.w.family(b.id):
        for bb, t in fb.calls("turmoil::rt::Rt::tick"):
            sites.append(("Rt::tick", t["s"], sl.atoms(fb, t["args"][1])))
    for name, site, at in sites:
        ok = only_tick(at)
        ctx.inst(R, f"step:{name}", ok, site, "advances by Config::tick" if ok else
                 f"`{name}` in Sim::step is not fed (only) by Config::tick: the clocks of the simulation drift apart")
    if len(sites) < 5 and ctx.strict:
        ctx.bad(R, "step:tick-sites", b.span, f"expected 5 clock-advance sites in Sim::step, found {len(sites)}")
    wt = ctx.body(R, "turmoil::world::World::tick")
    if wt:
        ht = list(wt.calls("turmoil::host::HostTimer::tick"))
        ok = len(ht) == 1 and any(a.startswith("arg:3:") for a in sl.atoms(wt, ht[0][1]["args"][1])) and not always_passes(wt, [ht[0][0]])
        ctx.inst(R, "World::tick:forwards", ok, wt.span, "World::tick forwards its duration to the host's timer" if ok else "World::tick does not forward its duration to HostTimer::tick on every path")
        if ht:
            at = sl.atoms(wt, ht[0][1]["args"][0])
            ctx.inst(R, "World::tick:right-host", any(a.startswith("arg:2:") for a in at) and "field:turmoil::world::World::hosts" in at, wt.span, "timer of the host named by the address argument")
    hk = ctx.body(R, "turmoil::host::HostTimer::tick")
    if hk:
        aa = list(hk.calls(re.compile(r"Duration as std::ops::AddAssign>::add_assign$")))
        ok = len(aa) == 1 and "field:turmoil::host::HostTimer::elapsed" in sl.atoms(hk, aa[0][1]["args"][0]) and any(a.startswith("arg:2:") for a in sl.atoms(hk, aa[0][1]["args"][1]))
        ctx.inst(R, "HostTimer::tick:adds", ok, hk.span, "elapsed += duration" if ok else "HostTimer::tick is not `elapsed += duration`")
    rt = ctx.body(R, "turmoil::rt::Rt::tick")
    if rt:
        ok = False
        for fb in ctx.w.family(rt.id):
            for bb, t in fb.calls("tokio::time::sleep"):
                if any(a.startswith("arg:2:") and "Rt::tick" in a for a in sl.atoms(fb, t["args"][0])):
                    ok = True
        ctx.inst(R, "Rt::tick:sleeps-parameter", ok, rt.span, "the runtime is driven for exactly the duration parameter" if ok else "Rt::tick does not sleep for its duration parameter")
    tb = ctx.body(R, "turmoil::top::Topology::tick_by")
    if tb:
        rr = list(tb.calls("turmoil::rt::Rt::tick"))
        ok = len(rr) == 1 and any(a.startswith("arg:2:") for a in sl.atoms(tb, rr[0][1]["args"][1]))
        ctx.inst(R, "tick_by:forwards", ok, tb.span, "topology runtime advanced by the same duration" if ok else "Topology::tick_by does not advance its runtime by its parameter")
    ctx.floor(R, 9)


def _ret_add(ctx, b, want0, want1):
    rets = b.defs().get(0, [])

    def is_sum(d):
        if d[1] != "term" or not re.search(r"Duration as std::ops::Add>::add$", d[2]["f"]):
            return False
        t = d[2]
        a0 = Slicer(ctx.w, into_callees=2).atoms(b, t["args"][0])
        a1 = Slicer(ctx.w, into_callees=2).atoms(b, t["args"][1])
        return (want0 in a0 and want1 in a1 and want1 not in a0) or (want0 in a1 and want1 in a0 and want1 not in a1)
    if len(rets) == 1:
        return is_sum(rets[0])
    # `match self.step_start { Some(s) => self.elapsed + s.elapsed(), None => self.elapsed }`: the second addend is optional (an Option
    # that is None outside a step) - one definition is the sum, every other one is the first addend alone
    sums = [d for d in rets if is_sum(d)]
    rest = [d for d in rets if not is_sum(d)]
    if len(sums) != 1 or not want1.startswith("call:"):
        return False
    for d in rest:
        if d[1] == "term" or d[2]["r"]["k"] != "use":
            return False
        at = Slicer(ctx.w).atoms(b, d[2]["r"]["o"])
        if want0 not in at or want1 in at:
            return False
    return True


def r3(ctx):
    R = "C05-R3"
    ctx.rule(R, "HostTimer::sim_elapsed = Add(field start_offset, call elapsed); HostTimer::since_epoch = Add(field since_epoch, call "
                "sim_elapsed); HostTimer::elapsed = Add(field elapsed, now.elapsed()); Sim::since_epoch = Add(since_epoch, elapsed); at "
                "both HostTimer::new sites argument 0 is the field Sim::elapsed and argument 1 the field Sim::since_epoch (both Duration: "
                "a swap or the accessor method compiles)")
    H = "turmoil::host::HostTimer::"
    for fid, w0, w1 in ((H + "sim_elapsed", "field:" + H + "start_offset", "call:" + H + "elapsed"),
                        (H + "since_epoch", "field:" + H + "since_epoch", "call:" + H + "sim_elapsed"),
                        (H + "elapsed", "field:" + H + "elapsed", "call:tokio::time::Instant::elapsed"),
                        ("turmoil::sim::Sim::since_epoch", "field:turmoil::sim::Sim::since_epoch", "field:turmoil::sim::Sim::elapsed")):
        b = ctx.body(R, fid)
        if not b:
            continue
        ok = _ret_add(ctx, b, w0, w1)
        ctx.inst(R, f"{fid}:sum", ok, b.span, f"= {w0.split('::')[-1]} + {w1.split('::')[-1]}" if ok else
                 f"`{fid}` is no longer the sum of {w0} and {w1}: host, simulation and epoch time stop agreeing")
    ss = ctx.w.bodies.get(H + "since_epoch_at_step_start")
    if ss:
        at = Slicer(ctx.w).atoms(ss, {"c": {"l": 0}})
        need = ["field:" + H + "since_epoch", "field:" + H + "start_offset", "field:" + H + "elapsed"]
        miss = [x.rsplit("::", 1)[1] for x in need if x not in at]
        ctx.inst(R, H + "since_epoch_at_step_start:sum", not miss, ss.span, "= since_epoch + start_offset + elapsed" if not miss else
                 f"`{H}since_epoch_at_step_start` no longer adds {miss}: the epoch time handed to the filesystem / io_uring lags the host's own since_epoch() "
                 "(for a host registered mid-run by the whole registration offset)")
    shapes = {}
    for b, bb, t in who_calls(ctx.w, H + "new"):
        if b.crate != "turmoil" or not b.id.startswith("turmoil::sim::"):
            continue
        a0 = Slicer(ctx.w, through_calls=True).atoms(b, t["args"][0])
        a1 = Slicer(ctx.w, through_calls=True).atoms(b, t["args"][1])
        E, S = "field:turmoil::sim::Sim::elapsed", "field:turmoil::sim::Sim::since_epoch"
        ok = E in a0 and S not in a0 and S in a1 and E not in a1 and not any(a.startswith("call:turmoil::sim::Sim::") for a in a0 | a1)
        shapes[b.id] = ok
        ctx.inst(R, f"{b.id}:HostTimer::new-args", ok, t["s"], "HostTimer::new(self.elapsed, self.since_epoch)" if ok else
                 f"`{b.id}` does not register the host with (Sim::elapsed, Sim::since_epoch) read from the fields: its sim / epoch time is offset (e.g. registration time counted twice, or arguments swapped)")
    if ctx.strict and len(shapes) < 2:
        ctx.bad(R, "HostTimer::new-sites", "", f"expected 2 HostTimer::new call sites in Sim (client, host), found {len(shapes)}")
    sn = ctx.body(R, "turmoil::sim::Sim::new")
    if sn:
        ag = [s for bb, i, s in sn.all_stmts() if s["r"]["k"] == "agg" and s["r"].get("adt") == "turmoil::sim::Sim"]
        ok = False
        why = "Sim aggregate not found"
        if ag:
            m = dict(zip(ag[0]["r"]["fields"], ag[0]["r"]["ops"]))
            at = Slicer(ctx.w, into_callees=1).atoms(sn, m["since_epoch"])
            conv = sorted(a for a in at if re.search(r"call:std::time::Duration::(from_|as_|new|mul_|div_|saturating|checked)|call:.*Duration as std::ops::", a))
            ok = "call:std::time::SystemTime::duration_since" in at and "field:turmoil::config::Config::epoch" in at and not conv
            why = f"derived through {conv}" if conv else "not config.epoch.duration_since(UNIX_EPOCH)"
            c0 = op_const(m["elapsed"]) if "elapsed" in m else None
        ctx.inst(R, "Sim::new:epoch-base", ok, sn.span, "since_epoch base = config.epoch.duration_since(UNIX_EPOCH), unmodified" if ok else
                 f"Sim::new does not take the epoch base unmodified from the configured epoch ({why}): epoch time != configured epoch + sim time")
    hn = ctx.body(R, H + "new")
    if hn:
        ag = [s for bb, i, s in hn.all_stmts() if s["r"]["k"] == "agg" and s["r"].get("adt") == "turmoil::host::HostTimer"]
        ok = False
        if ag:
            r = ag[0]["r"]
            m = dict(zip(r["fields"], r["ops"]))
            ok = origin(hn, m["start_offset"]).get("arg") == 1 and origin(hn, m["since_epoch"]).get("arg") == 2
        ctx.inst(R, "HostTimer::new:fields", ok, hn.span, "start_offset := arg0, since_epoch := arg1" if ok else "HostTimer::new stores its arguments in the wrong fields")
    ctx.floor(R, 8)


def r4(ctx):
    R = "C05-R4"
    ctx.rule(R, "Sim::step: HostTimer::now(.., rt.now()) is called for the running host before the World::enter that ticks it, with the "
                "instant of that host's own runtime")
    b = ctx.body(R, STEP)
    if not b:
        return
    hn = list(b.calls("turmoil::host::HostTimer::now"))
    we = [bb for bb, t in b.calls("turmoil::world::World::enter") if any(may_call(ctx.w, [c], "turmoil::rt::Rt::tick") for c in closure_args(b, t))]
    ok = len(hn) == 1 and bool(we) and all(b.dominated_by_block(x, hn[0][0]) for x in we) and "call:turmoil::rt::Rt::now" in Slicer(ctx.w).atoms(b, hn[0][1]["args"][1])
    ctx.inst(R, "step:now-before-tick", ok, hn[0][1]["s"] if hn else b.span, "host `now` refreshed from its runtime before it runs" if ok else
             "the host's `now` instant is not refreshed (from Rt::now) before its software is ticked: elapsed() reads a stale instant")
    ctx.floor(R, 1)


def r5(ctx):
    R = "C05-R5"
    ctx.rule(R, "sibling agreement: Sim::client and Sim::host register a node through the same steps (lookup, World::register with a HostTimer, "
                "one seed draw, rt::Config) - expected difference: Rt::client vs Rt::host")
    sibling_rule(ctx, R, "turmoil::sim::Sim::client", "turmoil::sim::Sim::host", ["turmoil::rt::Rt::client", "turmoil::rt::Rt::host"])
    ctx.floor(R, 1)


def r7(ctx, R="C05-R7"):
    ctx.rule(R, "the two clock families advance by the same amount per step: Sim::elapsed and HostTimer::elapsed add the nominal "
                "Config::tick, every tokio clock is advanced by `sleep(tick)` in Rt::tick, and tokio timers fire on a millisecond grid - "
                "so the tick must be a whole number of milliseconds (Builder::build / tick_duration validate Config::tick and reject "
                "anything else) or the runtimes must be advanced by exactly the nominal duration (tokio::time::advance). Otherwise every "
                "step moves the tokio clocks - and the links, which are scheduled on the topology runtime's clock - further than virtual time")
    rt = ctx.body(R, "turmoil::rt::Rt::tick")
    bd = ctx.body(R, "turmoil::builder::Builder::build")
    if not rt or not bd:
        return
    sleeps = any(True for fb in ctx.w.family(rt.id) for _ in fb.calls("tokio::time::sleep"))
    advances = any(True for fb in ctx.w.family(rt.id) for _ in fb.calls(re.compile(r"^tokio::time::(advance|clock::advance)$")))
    TICKF = "field:turmoil::config::Config::tick"
    validated = False
    for fid in ("turmoil::builder::Builder::build", "turmoil::builder::Builder::tick_duration"):
        b = ctx.w.bodies.get(fid)
        if not b:
            continue
        for sbb, t in switch_blocks(b):
            at = Slicer(ctx.w).atoms(b, t["d"])
            arg_tick = fid.endswith("tick_duration") and any(a.startswith("arg:2:") for a in at)
            if (TICKF in at or arg_tick) and any(re.search(r"subsec_(nanos|micros)|as_nanos|as_micros|binop:Rem", a) for a in at):
                # one side of the test must diverge (panic) or return an error
                if any(not reaches_return(b, x) for x in b.succ(sbb)):
                    validated = True
    ok = (not sleeps) or advances or validated
    ctx.inst(R, "tick:whole-milliseconds", ok, rt.span, "tokio clocks and virtual time advance by the same amount per step" if ok else
             "Rt::tick advances every tokio clock with sleep(tick) (millisecond timer granularity) while Sim::elapsed / HostTimer add the nominal tick, and "
             "nothing restricts Config::tick to whole milliseconds: with tick = 250us a host's tokio clock reads 30 ms when sim_elapsed reads 7.5 ms, and a "
             "5 ms latency is delivered after 1.25 ms of virtual time")
    ctx.floor(R, 1)


def r9(ctx):
    R = "C05-R9"
    ctx.rule(R, "the step's start instant is valid only during the step: HostTimer::tick - the end-of-step accounting - clears "
                "HostTimer::now on every path, and HostTimer::elapsed treats `no step in progress` as zero in-step progress instead of "
                "reading a stale instant (or panicking). Host code also runs between steps - destructors executed by Sim::crash / "
                "Sim::bounce - and must then see exactly the accumulated time: not the last tick twice, not a clock going backwards "
                "across a bounce, not the wall clock")
    NOW = "turmoil::host::HostTimer::now"
    tk = ctx.body(R, "turmoil::host::HostTimer::tick")
    el = ctx.body(R, "turmoil::host::HostTimer::elapsed")
    if tk:
        clears = []
        for bb, i, s in tk.all_stmts():
            if place_last_field(s["p"]) != NOW:
                continue
            o = {"k": "agg", "r": s["r"]} if s["r"]["k"] == "agg" else origin(tk, s["r"]["o"]) if s["r"]["k"] == "use" else {"k": "?"}
            if o["k"] == "agg" and o["r"].get("variant") == "None":
                clears.append(bb)
        clears += [bb for bb, t in tk.calls(re.compile(r"^std::option::Option::take$")) if "field:" + NOW in Slicer(ctx.w).atoms(tk, t["args"][0])]
        ok = bool(clears) and not always_passes(tk, clears)
        ctx.inst(R, "tick:clears-step-instant", ok, tk.span, "the end of a step invalidates the step's start instant" if ok else
                 "HostTimer::tick adds the tick to `elapsed` but keeps the step's start instant: a destructor run by Sim::crash / bounce after the step computes "
                 "elapsed + (now - step start) again - the last tick counted twice (20 ms when Sim::elapsed is 15 ms), backwards across a bounce, or real time after a wall-clock pause")
    if el:
        exp = [bb for bb, t in el.calls(re.compile(r"^std::option::Option::(expect|unwrap)$")) if "field:" + NOW in Slicer(ctx.w).atoms(el, t["args"][0])]
        ctx.inst(R, "elapsed:no-step-is-zero-progress", not exp, el.span, "outside a step the host clock is the accumulated time" if not exp else
                 "HostTimer::elapsed demands a step start instant (`expect`): host code run before the first step (a destructor on crash) panics, and between steps a stale instant is used")
    ctx.floor(R, 2)


def r10(ctx):
    R = "C05-R10"
    ctx.rule(R, "a step that ticked the hosts also advances the simulation clock: every error that Sim::step itself raises (the "
                "`ran for duration` error - not a software error propagated by `?`) is returned only after `elapsed += tick` and "
                "Topology::tick_by, like the Ok returns; otherwise the hosts' clocks run ahead of Sim::elapsed on every step past the duration")
    b = ctx.body(R, STEP)
    if not b:
        return
    aa = [bb for bb, t in b.calls(re.compile(r"Duration as std::ops::AddAssign>::add_assign$")) if "field:turmoil::sim::Sim::elapsed" in Slicer(ctx.w).atoms(b, t["args"][0])]
    tb = [bb for bb, t in b.calls("turmoil::top::Topology::tick_by")]
    errs = [(bb, s) for bb, i, s in b.all_stmts() if s["r"]["k"] == "agg" and s["r"].get("variant") == "Err" and s["r"].get("adt") == "std::result::Result"]
    for n_, (bb, s) in enumerate(errs):
        ok = bool(aa) and bool(tb) and b.dominated_by_any(bb, blocks=aa) and b.dominated_by_any(bb, blocks=tb)
        ctx.inst(R, f"step:own-error#{n_}:after-clock-advance", ok, s["s"], "the step's own error is raised after the clocks were advanced" if ok else
                 "Sim::step returns its own error before `elapsed += tick` / tick_by although every host was already ticked in this step: Sim::elapsed and Sim::since_epoch "
                 "freeze while the hosts' sim_elapsed() goes on (step 5 with tick 5 ms, duration 20 ms: 20 ms vs 25 ms)")
    ctx.floor(R, 1)


def r11(ctx, R="C05-R11"):
    ctx.rule(R, "host code never runs outside its runtime - destructors included: the software's tasks live in Rt::local (the LocalSet); when "
                "Rt::cancel_tasks (crash / bounce) destroys the old LocalSet, every task's destructors run, and tokio's Instant::now() inside "
                "them is the virtual clock only while a runtime is entered - otherwise it is the machine's wall clock. The old LocalSet must "
                "therefore be destroyed after a tokio Runtime::enter on the function's path and before that guard is gone")
    ct = ctx.body(R, "turmoil::rt::Rt::cancel_tasks")
    if not ct:
        return
    LS = "tokio::task::LocalSet"
    # where the old LocalSet is destroyed: mem::drop(value of mem::replace(&mut self.local, ..)), the drop of that temporary, or an
    # assignment to the field (drop in place)
    sites = []
    reps = [(bb, t) for bb, t in ct.calls(re.compile(r"^std::mem::(replace|take)$")) if t["args"] and "field:turmoil::rt::Rt::local" in Slicer(ctx.w).atoms(ct, t["args"][0])]
    rep_locals = {t["d"]["l"] for bb, t in reps}
    # `mem::swap(&mut self.local, &mut fresh)`: afterwards the binding `fresh` holds the old LocalSet (likewise for the runtime)
    swapped = {}

    def borrowed_local(op):
        """the local a `&mut local` (possibly reborrowed) operand borrows, or None"""
        o = origin(ct, op)
        for _ in range(6):
            if o["k"] != "ref":
                return None
            p = o["p"]
            if not p.get("p"):
                return p["l"]
            if p["p"] == ["*"]:
                o = origin(ct, {"c": {"l": p["l"]}})
                continue
            return None
        return None
    for bb, t in ct.calls(re.compile(r"^std::mem::swap$")):
        os_ = [deref_origin(ct, a) for a in t["args"][:2]]
        bl = [borrowed_local(a) for a in t["args"][:2]]
        for x, y in ((0, 1), (1, 0)):
            if os_[x]["k"] == "place" and place_last_field(os_[x]["p"]) in ("turmoil::rt::Rt::local", "turmoil::rt::Rt::tokio") and bl[y] is not None:
                swapped[bl[y]] = (place_last_field(os_[x]["p"]).rsplit("::", 1)[1], bb)
    def swapped_root(op):
        """the swapped binding an operand is a (chain of) move(s) of, or None"""
        pl = op_place(op)
        for _ in range(6):
            if pl is None or pl.get("p"):
                return None
            if pl["l"] in swapped:
                return pl["l"]
            d = single_def(ct, pl["l"])
            if d is None or d[1] == "term" or d[2]["r"]["k"] != "use":
                return None
            pl = op_place(d[2]["r"]["o"])
        return None
    for bb, t in ct.calls(re.compile(r"^std::mem::drop$")):
        l = swapped_root(t["args"][0])
        if l is not None and swapped[l][0] == "local" and ct.dominated_by_block(bb, swapped[l][1]):
            sites.append((bb, t["s"]))
    for bb, t in ct.calls(re.compile(r"^std::mem::drop$")):
        o = origin(ct, t["args"][0])
        if o["k"] == "call" and o["t"]["d"]["l"] in rep_locals:
            sites.append((bb, t["s"]))
        elif "call:std::mem::replace" in Slicer(ctx.w).atoms(ct, t["args"][0]) and ct.tys[t["at"][0]]["s"].endswith("LocalSet") if t.get("at") else False:
            sites.append((bb, t["s"]))
    moved = {op_place(a)["l"] for bb, t in ct.calls() for a in t["args"] if isinstance(a, dict) and "m" in a and op_place(a) and not op_place(a).get("p")}
    moved |= {op_place(s2["r"]["o"])["l"] for bb, i, s2 in ct.all_stmts() if i != "term" and s2["r"]["k"] == "use" and isinstance(s2["r"]["o"], dict) and "m" in s2["r"]["o"] and op_place(s2["r"]["o"]) and not op_place(s2["r"]["o"]).get("p")}
    for bb in sorted(ct.reachable(0)):
        t = ct.term(bb)
        if t["k"] == "drop" and isinstance(t.get("ty"), int) and ct.tys[t["ty"]].get("s") == LS:
            l = t["p"]["l"]
            if t.get("replace") or (l in rep_locals and l not in moved):
                sites.append((bb, t.get("s") or ct.span))
    enters = [(bb, t) for bb, t in ct.calls(re.compile(r"^tokio::runtime::Runtime::enter$|^tokio::runtime::Handle::enter$"))]
    # ... and it is the *old* runtime that is entered: the value taken out of Rt::tokio, not the field (which already holds the
    # replacement the next incarnation will run on - anything a destructor spawns there survives the crash)
    def old_rt(t):
        o = deref_origin(ct, t["args"][0])
        if o["k"] == "place" and not o["p"].get("p") and o["p"]["l"] in swapped:
            return swapped[o["p"]["l"]][0] == "tokio"
        ro = origin(ct, t["args"][0])
        if ro["k"] == "ref" and not ro["p"].get("p") and ro["p"]["l"] in swapped:
            return swapped[ro["p"]["l"]][0] == "tokio"
        return not (o["k"] == "place" and place_last_field(o["p"]) == "turmoil::rt::Rt::tokio")
    wrong = [t for bb, t in enters if not old_rt(t)]
    enters = [(bb, t) for bb, t in enters if old_rt(t)]
    ok = False
    for sb, ss in sites:
        for eb, et in enters:
            g = et["d"]["l"]
            gdrops = [bb for bb in ct.reachable(0) if ct.term(bb)["k"] == "drop" and ct.term(bb)["p"]["l"] == g]
            gdrops += [bb for bb, t in ct.calls(re.compile(r"^std::mem::drop$")) if op_place(t["args"][0]) and origin(ct, t["args"][0]).get("bb") == eb]
            if ct.dominated_by_block(sb, eb) and (not gdrops or all(sb not in ct.reachable(x) or x == sb for x in gdrops)):
                ok = True
    ctx.inst(R, "cancel_tasks:tasks-dropped-inside-runtime", bool(sites) and ok, sites[0][1] if sites else ct.span,
             "the old LocalSet is destroyed while a runtime is entered" if sites and ok else
             ("Rt::cancel_tasks destroys the old LocalSet (the host's tasks) outside any runtime: a destructor run by Sim::crash / Sim::bounce that reads tokio::time::Instant "
              "(`start.elapsed()` in a guard's Drop) gets the machine's wall clock - 5-27 ms instead of the 2 s of virtual time that passed, different on every run"
              + (" [a runtime is entered, but it is Rt::tokio after the replacement: the destructors run inside the runtime of the next incarnation]" if wrong else "") if sites else
              "no destruction of the old LocalSet found in Rt::cancel_tasks: re-derive"))
    ctx.floor(R, 1)


def r12(ctx):
    R = "C05-R12"
    ctx.rule(R, "the filesystem context pairs a filesystem with *its* clock: every FsContext { fs, now } is built either from the thread-locals "
                "installed by `enter` (CURRENT_FS_ARC with CURRENT_NOW) or from a worker thread's handle (WorkerContext::fs with "
                "WorkerContext::time) - never the filesystem of one with the time of the other: CURRENT_NOW is only set on the simulation "
                "thread, a worker that reads it stamps every operation with epoch time zero")
    if ctx.config not in ("all", "fs", "fs_iou"):
        return
    n = 0
    for b in sorted(ctx.w.bodies.values(), key=lambda x: x.id):
        if b.crate != "turmoil_fs":
            continue
        for bb, i, st in b.all_stmts():
            r = st["r"]
            if i == "term" or r["k"] != "agg" or r.get("adt") != "turmoil_fs::FsContext" or list(r.get("fields", [])) != ["fs", "now"]:
                continue
            fa, na = Slicer(ctx.w).atoms(b, r["ops"][0]), Slicer(ctx.w).atoms(b, r["ops"][1])
            # by role, not by the worker struct's name: either both parts come from the thread-locals that `enter` installs, or neither does
            src_f = "entered" if "const:CURRENT_FS_ARC" in fa else "worker"
            src_n = "entered" if "const:CURRENT_NOW" in na else "worker"
            n += 1
            ok = src_f == src_n
            ctx.inst(R, f"fs-context:{b.id}#{n}", ok, st["s"], f"filesystem and clock both come from the {src_f} context" if ok else
                     f"`{b.id}` builds an FsContext from the {src_f} filesystem and the {src_n} clock: operations made through a worker thread's handle are stamped with the "
                     "thread-local time of a thread that never entered a step (zero) - file times disagree with since_epoch() and go backwards")
    ctx.floor(R, 2)


def r13(ctx):
    R = "C05-R13"
    ctx.rule(R, "a step's start instant replaces the last one: HostTimer::now stores the Instant it is given unconditionally - the slot is not "
                "always empty when a step begins (a step that returned a host's error never reached HostTimer::tick), and an Instant kept from "
                "the old runtime freezes elapsed() / since_epoch() for the first step of a bounced host")
    b = ctx.body(R, "turmoil::host::HostTimer::now")
    if not b:
        return
    lazy = [t for bb, t in b.calls(re.compile(r"Option::(get_or_insert|get_or_insert_with|or|or_else|xor)$"))]
    stores = [t for bb, t in b.calls(re.compile(r"Option::(replace|insert)$")) if any(a.startswith("arg:2:") for x in t["args"] for a in Slicer(ctx.w).atoms(b, x))]
    stores += [s2 for bb, i, s2 in b.all_stmts() if i != "term" and s2["r"]["k"] == "agg" and s2["r"].get("variant") == "Some"
               and any(a.startswith("arg:2:") for o in s2["r"].get("ops", []) for a in Slicer(ctx.w).atoms(b, o))]
    ok = bool(stores) and not lazy
    ctx.inst(R, "HostTimer::now:replaces", ok, lazy[0]["s"] if lazy else b.span, "the step's start instant overwrites the previous one" if ok else
             "HostTimer::now keeps an instant that is already stored: after a step that ended with a host's error (no HostTimer::tick) the next step of that host - bounced in "
             "between - measures against an Instant of the old runtime and its clocks stand still for a whole step")
    ctx.floor(R, 1)


def run(ctx):
    r13(ctx)
    r12(ctx)
    from . import C04 as _C04
    _C04.r5(ctx)   # the software factory runs inside the host's paused runtime on first start too: a clock read or a timer created there belongs to virtual time
    r11(ctx)
    r10(ctx)
    from . import C04
    C04.r2(ctx)   # a bounced host always starts on a fresh runtime: timers of the old one would be off by the whole idle time
    r9(ctx)
    from . import C01
    C01.r7(ctx, R="C05-R8")   # epoch time = epoch + sim time: the clock is never sampled outside a paused runtime
    r7(ctx)
    scan_rule(ctx, "C05")
    r5(ctx)
    r1(ctx)
    r2(ctx)
    r3(ctx)
    r4(ctx)
