"""C20 - barriers observe every matching trigger once and suspend only when asked (structural part)."""
from .common import *

DECIDED = ("R1 the barrier registry is an ordered list: appended by push (BarrierRepo::insert), removed by retain (BarrierRepo::drop), "
           "searched front to back with return at the first match; no other mutator or reordering call; R2 one report per trigger: in "
           "trigger and trigger_noop every non-panicking path after a match passes exactly one send on the barrier's channel, which is an "
           "unbounded channel (a report is never dropped for capacity), and the no-match path sends nothing; R3 reactions: the Noop arm "
           "releases the one-shot itself before the await, the Suspend arm moves the one-shot sender into the report, the Panic arm "
           "diverges before any report; trigger_noop diverges on Suspend; R4 dropping the Triggered handle sends the release when present; "
           "dropping the Barrier unregisters its id.")
NOT_DECIDED = "interleavings across tasks; exactly-once as observed through wait()."
DECIDED += "; R5 Barrier::wait performs one receive per call and hands the report to the caller; Barrier::build gives every barrier a fresh id (UUID or a counter that only grows)"
DECIDED += "; R3 re-derived: every matching trigger is reported whatever the reaction (Panic reports, then panics), and a Noop barrier reports and returns without awaiting"
DECIDED += '; R6 the corruption hook installed for a host step is only read by fire_corruption (every corrupted read of the step reaches the barriers)'
DECIDED += '; R7 the corruption hook is not called in place from code that holds the Fs mutex (recorded finding D62)'
DECIDED += "; R4 also: Drop for Barrier unregisters on every path (also while unwinding); a nested fs scope restores the outer scope's corruption hook (shared C01-R8)"
DECIDED += "; R1 also: BarrierRepo::barrier answers None only where its scan of the registry is exhausted; R6 also: turmoil_fs::enter installs the scope's own hook on every path"
DECIDED += '; R6 also: Sim::step installs the corruption hook on every path'
DECIDED += '; R4 also: the id the Barrier keeps is the id it registered; R8 a suspended source waits for its release handle only'
ASSUMPTIONS = ["tokio unbounded mpsc never rejects a send while the receiver lives"]

BR = "turmoil::barriers::BarrierRepo::"
LIST = BR + "barriers"


def _fields_of(b, op):
    o = deref_origin(b, op)
    if o["k"] == "place":
        return root_place(b, o["p"])[1]
    return []


def _on_list(b, op):
    at = Slicer(ctx_w).atoms(b, op)
    return "field:" + LIST in at


ctx_w = None


def r1(ctx):
    R = "C20-R1"
    ctx.rule(R, "who-may-mutate BarrierRepo::barriers: Vec::push in BarrierRepo::insert, Vec::retain in BarrierRepo::drop; BarrierRepo::barrier "
                "iterates slice::iter forward and returns inside the loop at the first condition hit; nothing else (insert(0,..), swap_remove, "
                "sort, rev) touches the list")
    allowed = {("turmoil::barriers::BarrierRepo::insert", "push"), ("turmoil::barriers::BarrierRepo::drop", "retain")}
    mut = re.compile(r"^std::vec::Vec::(push|insert|remove|swap_remove|retain|retain_mut|clear|drain|pop|truncate|sort|sort_by|sort_by_key|reverse|dedup|append|extend|split_off)$|^\[T\]::(sort|sort_by|reverse|swap|rotate_left|rotate_right)")
    n = 0
    for b in sorted(ctx.w.bodies.values(), key=lambda b: b.id):
        if b.crate != "turmoil" or "barriers" not in b.id:
            continue
        for bb, t in b.calls(mut):
            if not t["args"]:
                continue
            at = Slicer(ctx.w).atoms(b, t["args"][0])
            if "field:" + LIST not in at:
                continue
            root = b
            while root.parent and root.parent in ctx.w.bodies:
                root = ctx.w.bodies[root.parent]
            m = re.search(r"::(\w+)$", t["f"]).group(1)
            ok = (root.id, m) in allowed
            n += 1
            ctx.inst(R, f"{root.id}:{m}", ok, t["s"], f"{m} keeps creation order" if ok else
                     f"`{t['f']}` on the barrier registry in `{root.id}`: barriers are no longer kept / searched in creation order (a younger barrier can shadow an older live one)")
    bf = ctx.body(R, BR + "barrier")
    if bf:
        it = [t for bb, t in bf.calls(re.compile(r"^\[T\]::iter$"))]
        ad = [t["f"] for bb, t in bf.calls(re.compile(r"Iterator>::(rev|skip|filter)$|^std::iter::Iterator::(rev|skip)$"))]
        nx = [bb for bb, t in bf.calls(re.compile(r"slice::Iter as std::iter::Iterator>::next$"))]
        somes = [bb for bb, i, s in bf.all_stmts() if s["p"]["l"] == 0 and s["r"]["k"] == "agg" and s["r"].get("variant") == "Some"]
        ok = len(it) == 1 and not ad and bool(nx) and bool(somes)
        if ok:
            # the Some(..) result is produced inside the loop (dominated by next's Some edge) behind the condition call's true edge
            te, fe = [], []
            for sbb, t_e, f_e, o in guards_on(bf, lambda o: o["k"] == "call" and re.search(r"Fn>::call$|Fn::call$", o["t"]["f"])):
                te += t_e
            ok = bool(te) and all(bf.dominated_by_any(x, edges=te) for x in somes) and all(nx[0] not in bf.reachable(x) for x in somes)
        if not ok:
            # accepted idiom: guard.iter().find(|b| (b.condition)(t)) - lazy, first match in creation order
            fd = list(bf.calls(re.compile(r"Iterator>::find$|^std::iter::Iterator::find$")))
            okc = False
            for bb, t in fd:
                for cid in closure_args(bf, t):
                    cb = ctx.w.bodies.get(cid)
                    if cb and any(True for _ in cb.calls(re.compile(r"Fn>::call$|Fn::call$"))):
                        okc = True
            ok = len(it) == 1 and not ad and len(fd) == 1 and okc
        ctx.inst(R, "barrier:first-match-forward", ok, bf.span, "first matching barrier in creation order wins" if ok else
                 "BarrierRepo::barrier does not return the first match of a plain forward scan")
        # `no barrier matches` is answered by the scan alone: an explicit None is produced only where the iteration is exhausted - a
        # shortcut (a cached "registry is empty" flag, a counter) is a second copy of the registry's state that has to be kept right
        nspan = {bb: s["s"] for bb, i, s in bf.all_stmts() if i != "term" and s["p"]["l"] == 0 and not s["p"].get("p") and s["r"]["k"] == "agg" and s["r"].get("variant") == "None"}
        nones = sorted(nspan)
        done = [m["None"] for sbb, m, els, adt, pl in variant_edges(bf, lambda p: True) if adt == "std::option::Option" and "None" in m and nx and any(bf.dominated_by_block(sbb, x) for x in nx)]
        early = [x for x in nones if not (done and bf.dominated_by_any(x, edges=done))]
        ctx.inst(R, "barrier:none-only-after-the-scan", not early, nspan[early[0]] if early else bf.span, "`None` is returned only when every registered barrier was asked" if not early else
                 "BarrierRepo::barrier returns None on a path that has not scanned the registry (a fast path on a flag / counter kept next to it): when that copy goes stale "
                 "(a drop that leaves exactly one barrier clears it) every matching trigger is missed - the surviving barrier is told nothing, a Suspend no longer holds the code")
    ctx.floor(R, 3)


def r2(ctx):
    R = "C20-R2"
    ctx.rule(R, "path counts after the match: exactly one UnboundedSender::send per non-panicking path in trigger and trigger_noop, none on the "
                "no-match path; BarrierState::to_test is an UnboundedSender created by mpsc::unbounded_channel in Barrier::build")
    for fid in ("turmoil::barriers::trigger::{closure#0}", "turmoil::barriers::trigger_noop"):
        b = ctx.body(R, fid)
        if not b:
            continue
        sends = [bb for bb, t in b.calls(re.compile(r"^tokio::sync::mpsc::UnboundedSender::send$"))]
        other = [t["f"] for bb, t in b.calls(re.compile(r"^tokio::sync::mpsc::(Sender|Permit|OwnedPermit)::"))]
        ves = [v for v in variant_edges(b, lambda p: True) if v[3] == "std::option::Option"]
        pc_some = pc_none = None
        if ves:
            sbb, m, els, adt, pl = ves[0]
            se = m.get("Some")
            ne = m.get("None") or els
            if se:
                pc_some = path_counts(b, se[1], lambda x: x in sends)
            if ne:
                pc_none = path_counts(b, ne[1], lambda x: x in sends)
        if ves and fid.endswith("{closure#0}"):
            ne = ves[0][1].get("None") or ves[0][2]
            ys = [x for x in b.reachable(ne[1]) if b.term(x)["k"] == "yield" and b.dominated_by_edge(x, ne)]
            ctx.inst(R, "trigger:no-match-returns-immediately", not ys, b.span, "a trigger matching no live barrier never suspends" if not ys else "the no-match path of trigger awaits something")
        ok = pc_some == (1, 1) and pc_none in ((0, 0), None) and not other
        ctx.inst(R, f"{fid.split('::')[2]}:one-report", ok, b.span, "a matching trigger is reported exactly once, a non-matching one never" if ok else
                 f"after a match the number of reports per path is {pc_some} (no match: {pc_none}); other channel calls: {other} - a matching trigger can be unreported (dropped) or reported twice")
    a = ctx.w.adts.get("turmoil::barriers::BarrierState")
    if a:
        tys = ctx.w.tys[a["crate"]]
        f = [x for v in a["variants"] for x in v["fields"] if x["name"] == "to_test"]
        ok = bool(f) and tys[f[0]["ty"]].get("adt") == "tokio::sync::mpsc::UnboundedSender"
        ctx.inst(R, "channel:unbounded", ok, a.get("span", ""), "reports travel on an unbounded channel" if ok else
                 "the barrier's report channel is not an UnboundedSender: reports can be rejected when the test has not drained them")
    bb_ = ctx.body(R, "turmoil::barriers::Barrier::build")
    if bb_:
        uc = [t for bb, t in bb_.calls(re.compile(r"^tokio::sync::mpsc::unbounded_channel$"))]
        ctx.inst(R, "build:unbounded_channel", len(uc) == 1, bb_.span, "one unbounded channel per barrier" if len(uc) == 1 else "Barrier::build does not create exactly one unbounded channel")
    ctx.floor(R, 5)


def r3(ctx):
    R = "C20-R3"
    ctx.rule(R, "trigger: on the Noop edge the trigger is reported and no await is reachable (an observe-only barrier is not a yield point: "
                "awaiting an already completed one-shot still yields once the task's coop budget is used up); on the Suspend edge the "
                "one-shot sender is moved into Some(..) of the report; on the Panic edge the trigger is reported exactly once and then the "
                "code diverges (no await, no return) - every matching trigger is reported, whatever the reaction; the report precedes the "
                "Yield (await of the release); trigger_noop: the Suspend edge diverges, the Panic edge reports once and diverges")
    b = ctx.body(R, "turmoil::barriers::trigger::{closure#0}")
    if b:
        ves = [v for v in variant_edges(b, lambda p: True) if v[3] == "turmoil::barriers::Reaction"]
        sends = [bb for bb, t in b.calls(re.compile(r"^tokio::sync::mpsc::UnboundedSender::send$"))]
        os_ = [bb for bb, t in b.calls(re.compile(r"^tokio::sync::oneshot::Sender::send$"))]
        ys = [bb for bb in b.live_blocks() if b.term(bb)["k"] == "yield"]
        if ves:
            sbb, m, els, adt, pl = ves[0]
            ne, se, pe = m.get("Noop"), m.get("Suspend"), m.get("Panic")
            rn = b.reachable(ne[1]) if ne else set()
            ok_n = bool(ne) and any(s in rn for s in sends) and not any(y in rn for y in ys)
            ctx.inst(R, "trigger:noop-self-releases", ok_n, b.term(ne[1]).get("s", b.span) if ne else b.span, "a Noop barrier reports and returns without awaiting anything" if ok_n else
                     "the Noop arm of trigger() goes on to `rx.await`: the one-shot is already completed, but polling it consumes the task's coop budget and returns Pending "
                     "once the budget is used up - an observe-only barrier changes the interleaving of the code it observes (300 triggers: 2 forced yields)")
            ok_s = False
            if se:
                for x in b.reachable(se[1]):
                    if not b.dominated_by_edge(x, se):
                        continue
                    for s in b.stmts(x):
                        if s["r"]["k"] == "agg" and s["r"].get("variant") == "Some" and any("oneshot::Sender" in b.tys[b.locals[op_base(o)]["ty"]]["s"] for o in s["r"]["ops"] if op_base(o) is not None):
                            ok_s = True
                ok_s = ok_s and not any(b.dominated_by_edge(x, se) for x in os_)
            ctx.inst(R, "trigger:suspend-hands-over-release", ok_s, b.term(se[1]).get("s", b.span) if se else b.span, "a Suspend barrier hands the release to the test and does not release itself" if ok_s else
                     "the Suspend arm does not move the one-shot sender into the report (or releases it itself): the source is not suspended")
            rp = b.reachable(pe[1]) if pe else set()
            sp = [x for x in sends if pe and b.dominated_by_edge(x, pe)]
            div = bool(pe) and not any(x in rp for x in ys) and not any(b.term(x)["k"] == "return" for x in rp)
            ok_p = div and len(sp) == 1
            ctx.inst(R, "trigger:panic-diverges", ok_p, b.term(pe[1]).get("s", b.span) if pe else b.span, "a Panic barrier reports the trigger, then panics the triggering code" if ok_p else
                     ("the Panic arm does not diverge" if not div else
                      f"the Panic arm of trigger() panics {'without reporting' if not sp else 'after reporting more than once'}: a trigger that matched a live Panic barrier is never "
                      "shown to the test (wait() cannot return it) although every matching trigger is to be reported exactly once"))
        else:
            ctx.bad(R, "trigger:reaction-match", b.span, "no match on Reaction in trigger")
        ok_y = bool(ys) and bool(sends) and all(any(b.dominated_by_block(y, s) for s in sends) for y in ys)
        ctx.inst(R, "trigger:report-before-await", ok_y, b.span, "the report is sent before the source awaits its release" if ok_y else "trigger awaits the release before / without reporting")
    tn = ctx.body(R, "turmoil::barriers::trigger_noop")
    if tn:
        sends = [bb for bb, t in tn.calls(re.compile(r"^tokio::sync::mpsc::UnboundedSender::send$"))]
        ok, okp = True, None
        for sbb, m, els, adt, pl in [v for v in variant_edges(tn, lambda p: True) if v[3] == "turmoil::barriers::Reaction"]:
            for v in ("Suspend", "Panic"):
                e = m.get(v)
                if not e:
                    continue
                rets = any(tn.term(x)["k"] == "return" and tn.dominated_by_edge(x, e) for x in tn.reachable(e[1]))
                sv = [x for x in sends if x in tn.reachable(e[1]) and tn.dominated_by_edge(x, e)]
                if rets or (v == "Suspend" and sv):
                    ok = False
                if v == "Panic":
                    # the one report is sent in the Panic arm, or once on the way to the test (a send that every path to the test passes)
                    before = [x for x in sends if x != sbb and tn.dominated_by_block(sbb, x)]
                    okp = (not rets) and len(sv) + len(before) == 1
        ctx.inst(R, "trigger_noop:suspend-and-panic-diverge", ok, tn.span, "trigger_noop panics for Suspend / Panic barriers" if ok else "trigger_noop reports or returns for a Suspend barrier / returns for a Panic barrier")
        ctx.inst(R, "trigger_noop:panic-reports-first", bool(okp), tn.span, "trigger_noop reports the trigger to a Panic barrier before panicking" if okp else
                 "trigger_noop panics for a Panic barrier without reporting the trigger that matched it")
    ctx.floor(R, 5)


def r4(ctx):
    R = "C20-R4"
    ctx.rule(R, "Drop for Triggered: on the Some edge of release.take() the one-shot is sent; Drop for Barrier calls BarrierRepo::drop with "
                "self.id on every path; BarrierRepo::drop's retain keeps entries whose id differs")
    dt = ctx.w.drop_impl("turmoil::barriers::Triggered")
    if not dt:
        ctx.bad(R, "triggered-drop", "", "Triggered has no Drop impl: a suspended source is never released")
    else:
        db = ctx.w.bodies[dt]
        sd = [bb for bb, t in db.calls(re.compile(r"^tokio::sync::oneshot::Sender::send$"))]
        ves = [v for v in variant_edges(db, lambda p: True) if v[3] == "std::option::Option"]
        ok = bool(sd) and bool(ves) and ves[0][1].get("Some") and not always_passes(db, sd, frm=ves[0][1]["Some"][1])
        ctx.inst(R, "triggered-drop:releases", ok, db.span, "dropping the handle releases the suspended source" if ok else "Drop for Triggered does not send the release when it holds one")
    dbar = ctx.w.drop_impl("turmoil::barriers::Barrier")
    if not dbar:
        ctx.bad(R, "barrier-drop", "", "Barrier has no Drop impl: dropped barriers keep matching triggers")
    else:
        db = ctx.w.bodies[dbar]
        ok = False
        for fb in ctx.w.family(dbar):
            for bb, t in fb.calls(BR + "drop"):
                if "field:turmoil::barriers::Barrier::id" in Slicer(ctx.w).atoms(fb, t["args"][1]):
                    ok = True
        # ... on every path: the registry is reached through LocalKey::with in the Drop body, and no path returns around it (not even
        # while the thread is unwinding: a caught panic leaves the thread running with a stale entry that swallows later triggers)
        reach = [bb for bb, t in db.calls(re.compile(r"LocalKey<T>::with$|LocalKey::with$|LocalKey<T>::try_with$|LocalKey::try_with$"))] + [bb for bb, t in db.calls(BR + "drop")]
        if ok and (not reach or always_passes(db, reach)):
            ok = False
        ctx.inst(R, "barrier-drop:unregisters", ok, db.span, "dropping the barrier removes it from the registry" if ok else "Drop for Barrier does not unregister its id")
    # the id the handle keeps is the id that was registered: one id is drawn in Barrier::build and goes into both values - with two
    # draws Drop removes nothing, the dead entry stays first in the registry and swallows every later matching trigger on the thread
    bd = ctx.w.bodies.get("turmoil::barriers::Barrier::build")
    if bd:
        draws = [t for fb in ctx.w.family(bd.id) for bb, t in fb.calls(re.compile(r"^uuid::Uuid::new_v4$"))]
        ids = []
        for bb, i, s2 in bd.all_stmts():
            r = s2["r"]
            if i != "term" and r["k"] == "agg" and r.get("adt") in ("turmoil::barriers::BarrierState", "turmoil::barriers::Barrier") and "id" in list(r.get("fields", [])):
                og = origin(bd, r["ops"][list(r["fields"]).index("id")])
                ids.append(og.get("bb") if og.get("k") == "call" else None)
        same = len(draws) == 1 and len(ids) == 2 and ids[0] is not None and ids[0] == ids[1]
        ctx.inst(R, "build:registered-id-is-the-handle-id", same, draws[-1]["s"] if draws else bd.span, "one id is drawn and shared by the registry entry and the handle" if same else
                 "Barrier::build gives the registry entry and the handle different ids: dropping the barrier unregisters nothing - the stale entry outlives the barrier and, on a second "
                 "simulation on the same thread, takes every matching trigger before the live barrier sees it")
    rd = ctx.body(R, BR + "drop")
    if rd:
        ok = False
        for fb in ctx.w.family(rd.id):
            if fb.id == rd.id:
                continue
            rets = fb.defs().get(0, [])
            if len(rets) == 1 and rets[0][1] == "term" and re.search(r"PartialEq>::ne$|PartialEq::ne$", rets[0][2]["f"]):
                at = Slicer(ctx.w).atoms(fb, rets[0][2]["args"][0]) | Slicer(ctx.w).atoms(fb, rets[0][2]["args"][1])
                ok = "field:turmoil::barriers::BarrierState::id" in at
        ctx.inst(R, "repo-drop:by-id", ok, rd.span, "exactly the entries with that id are removed" if ok else "BarrierRepo::drop's retain predicate is not `entry.id != id`")
    ctx.floor(R, 3)


def r5(ctx):
    R = "C20-R5"
    ctx.rule(R, "Barrier::wait hands every report it takes out of the channel to the caller: one receive per call (after the receive "
                "completes no path leads back to it), and the Some path builds the Triggered handle from the received pair. Barrier::build "
                "gives every barrier a fresh id (Uuid::new_v4 or a counter that only grows), never a value derived from the current size "
                "of the registry, so BarrierRepo::drop's `retain(id != ..)` can only ever remove the barrier being dropped")
    wid = "turmoil::barriers::Barrier::wait"
    wb = ctx.body(R, wid)
    if wb:
        for fb in ctx.w.family(wid):
            rc = [bb for bb, t in fb.calls(re.compile(r"UnboundedReceiver::recv$|Receiver::recv$"))]
            if not rc:
                continue
            ready = [bb for bb, i, s in fb.all_stmts() if s["r"]["k"] == "use" and (op_place(s["r"]["o"]) or {}).get("p") and
                     any(isinstance(e, dict) and e.get("v") == "Ready" for e in op_place(s["r"]["o"])["p"])]
            again = [r_ for r_ in ready if any(x in fb.reachable(r_) for x in rc)]
            trig = [bb for bb, i, s in fb.all_stmts() if s["r"]["k"] == "agg" and s["r"].get("adt") == "turmoil::barriers::Triggered"]
            ok = len(rc) == 1 and bool(ready) and not again and bool(trig)
            ctx.inst(R, "wait:one-receive-per-call", ok, fb.term(rc[0])["s"], "a received report always goes to the caller" if ok else
                     "Barrier::wait can take a report out of the channel and go back for another one: the first report is never shown to the test "
                     "(a trigger that matched is lost / reported out of order)")
    bid = "turmoil::barriers::Barrier::build"
    bb_ = ctx.body(R, bid)
    if bb_:
        found = False
        for fb in ctx.w.family(bid):
            for x, i, s in fb.all_stmts():
                r = s["r"]
                if r["k"] == "agg" and r.get("adt") == "turmoil::barriers::BarrierState":
                    m = dict(zip(r["fields"], r["ops"]))
                    at = Slicer(ctx.w, into_callees=2).atoms(fb, m["id"])
                    found = True
                    fresh = any(re.search(r"call:uuid::Uuid::new_v\d$", a) for a in at)
                    sized = [a for a in at if re.search(r"call:.*::(len|count|capacity)$", a)]
                    if not fresh:
                        # a counter that only ever grows is as good as a fresh UUID
                        for a in at:
                            if not a.startswith("field:turmoil::barriers::"):
                                continue
                            F = a[len("field:"):]
                            wr = [(b2, s2) for b2 in ctx.w.bodies.values() for _, _, s2 in b2.all_stmts()
                                  if place_last_field(s2["p"]) == F and s2["r"]["k"] == "use" and b2.kind != "Ctor"]
                            lins = [linear(b2, s2["r"]["o"]) for b2, s2 in wr]
                            if wr and all(l and l[0] == ("field", F) and l[1] > 0 for l in lins):
                                fresh = True
                    ok = fresh and not sized
                    ctx.inst(R, "build:fresh-id", ok, s["s"], "barrier id is a fresh UUID" if ok else
                             f"a barrier's id is derived from {sorted(a for a in at if a.startswith('call:'))[:4]}, not generated fresh: after a barrier is dropped "
                             "a new one can receive the id of a live one, and dropping either removes both from the registry")
        if not found and ctx.strict:
            ctx.bad(R, "build:fresh-id", bb_.span, "BarrierState construction not found in Barrier::build")
    ctx.floor(R, 2)


def r8(ctx):
    R = "C20-R8"
    ctx.rule(R, "a suspended source is released by its handle and by nothing else: in trigger() the only thing awaited after the report is the "
                "oneshot receiver whose sender travels with the Triggered handle - no second wake-up source (the channel's closed(), a timer, a "
                "select!) that would let the source go while the test still holds the handle")
    tr = ctx.w.bodies.get("turmoil::barriers::trigger")
    if not tr:
        if ctx.strict:
            ctx.bad(R, "anchor-missing:trigger", "", "barriers::trigger not found")
        return
    extra = sorted({t["f"] for fb in ctx.w.family(tr.id) for bb, t in fb.calls(re.compile(r"Sender::closed$|UnboundedSender::closed$|::is_closed$|^tokio::time::(sleep|timeout|sleep_until)$|select|^tokio::macros::support::poll_fn$|::poll_fn$"))
                    if not is_macro_noise(t) or "select" in t["f"] or "poll_fn" in t["f"]})
    ctx.inst(R, "trigger:released-only-by-the-handle", not extra, tr.span, "the parked source waits for its Triggered handle only" if not extra else
             f"trigger() waits on something besides the release handle ({', '.join(extra)}): dropping the Barrier (or the other event) resumes a source whose Triggered handle the test "
             "still holds - the suspension ends before the handle is dropped")
    ctx.floor(R, 1)


def r6(ctx):
    R = "C20-R6"
    ctx.rule(R, "every corrupted read of a host step reaches the barriers: the corruption hook (thread-local turmoil_fs::CURRENT_CORRUPTION, installed by "
                "turmoil_fs::enter for the step and restored by FsEnterGuard::drop) is only *read* by fire_corruption - an accessor that takes or "
                "replaces it leaves later corruption events of the same step without a barrier")
    if ctx.config != "all":
        ctx.info(R, "feature-off", "", "unstable-fs not enabled together with unstable-barriers in this configuration")
        return
    from . import C01
    C01.ACCESSORS = C01.TABLE_ACCESSORS
    C01.r8(ctx)   # ... and leaving a nested fs scope puts the outer scope's hook back (the guard restores the value it saved, on every path)
    k = C01.scoped_cell_writers(ctx, R, keys={"turmoil_fs::CURRENT_CORRUPTION"})
    # the step installs the hook for every host tick, whatever the filesystem's settings look like when the tick begins: the host can turn
    # corruption on (FsContext::current(|c| c.fs.corruption_probability = ..)) and read in the same step
    st = ctx.w.bodies.get("turmoil::sim::Sim::step")
    n = 0
    for fb in (ctx.w.family(st.id) if st else []):
        for bb, i, s2 in fb.all_stmts():
            r = s2["r"]
            if i == "term" or r["k"] != "agg" or r.get("adt") != "turmoil_fs::EnterCtx" or "on_corruption" not in list(r.get("fields", [])):
                continue
            op = r["ops"][list(r["fields"]).index("on_corruption")]
            og = origin(fb, op)
            always = og["k"] == "agg" and og["r"].get("variant") == "Some"
            n += 1
            ctx.inst(R, f"step:installs-the-hook#{n}", always, s2["s"], "every host tick runs with the corruption hook installed" if always else
                     "Sim::step hands turmoil_fs::enter a hook that is not `Some(..)` on every path (it depends on what the filesystem looked like before the tick): corruption "
                     "switched on by the host during a step fires with no hook installed - the matching FsCorruption barrier is told nothing until the next tick")
    ctx.inst(R, "step:enters-fs-with-hook", n >= 1, st.span if st else "", "Sim::step builds the EnterCtx" if n else "no turmoil_fs::EnterCtx with a hook is built in Sim::step: re-derive")
    ctx.inst(R, "hook:accessors-found", k >= 2, "", f"{k} accessors of the corruption hook analysed" if k >= 2 else "the corruption hook's accessors (enter, fire_corruption) were not found: re-derive")
    ctx.floor(R, 5)


def r7(ctx):
    R = "C20-R7"
    ctx.rule(R, "a reaction to a trigger acts on the triggering code, not on shared state: the corruption hook (which ends in trigger_noop and may "
                "panic for a Panic barrier) must not be invoked while the host's Fs mutex is held - fire_corruption is called from inside the "
                "closures that FsContext::current / with_fs_and_io_uring run under the lock, so it must hand the event over (queue it) instead of "
                "calling the hook in place. A panic under the lock poisons the mutex: the File being dropped during the unwind panics again "
                "(process abort), and every later fs call of the host fails with `Fs mutex poisoned` even after the barrier is gone")
    if ctx.config != "all":
        ctx.info(R, "feature-off", "", "unstable-fs not enabled together with unstable-barriers in this configuration")
        return
    fc = ctx.w.bodies.get("turmoil_fs::fire_corruption")
    if not fc:
        if ctx.strict:
            ctx.bad(R, "anchor-missing:turmoil_fs::fire_corruption", "", "fire_corruption not found")
        return
    direct = [t for fb in ctx.w.family(fc.id) for bb, t in fb.calls(re.compile(r"^std::ops::Fn::call$|Fn>::call$|FnMut>::call_mut$|FnOnce>::call_once$")) if not str(t.get("x", "")).startswith("m:")]
    LOCKED = re.compile(r"^turmoil_fs::FsContext::current$|^turmoil_fs::FsContext::current_if_set$|with_fs_and_io_uring$")
    under = []
    for b in sorted(ctx.w.bodies.values(), key=lambda b: b.id):
        if b.crate not in ("turmoil_fs", "turmoil_io_uring") or "::tests::" in b.id:
            continue
        for bb, t in b.calls(LOCKED):
            for cid in closure_args(b, t):
                if may_call(ctx.w, [cid], "turmoil_fs::fire_corruption"):
                    under.append((b.id, t["s"]))
    # a call from a function that is itself only run under the lock (exec_read is handed &mut Fs by with_fs_and_io_uring)
    ok = not (direct and under)
    ctx.inst(R, "corruption-hook:not-under-the-fs-lock", ok, under[0][1] if under else fc.span,
             "the hook is not called in place from code that holds the Fs mutex" if ok else
             f"fire_corruption calls the installed hook in place and is reached from closures run under the Fs mutex ({len(under)} sites, e.g. `{under[0][0]}`): "
             "a Reaction::Panic barrier on FsCorruption panics with the mutex held - the process aborts when the open File is dropped during the unwind, "
             "or, if the software catches the panic, every later fs call of the host fails with `Fs mutex poisoned`")
    ctx.floor(R, 1)


def run(ctx):
    global ctx_w
    ctx_w = ctx.w
    if ctx.config not in ("all", "barriers"):
        ctx.info("C20-R1", "feature-off", "", "unstable-barriers not enabled in this configuration: nothing to analyse")
        return
    r1(ctx)
    r2(ctx)
    r3(ctx)
    r4(ctx)
    r5(ctx)
    r6(ctx)
    r7(ctx)
    r8(ctx)
