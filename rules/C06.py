"""C06 - turmoil-net TCP survives drops, delays, reordering without corruption or stall (safety part)."""
from .common import *
from . import C13

DECIDED = ("R1 in-order acceptance: bytes enter recv_buf only behind `seg.seq == rcv_nxt` and `!peer_fin`; rcv_nxt advances by "
           "exactly the accepted (clamped) length; a FIN is accepted only at `fin_seq == rcv_nxt`; R2 bytes leave send_buf only "
           "behind `acked > 0 && acked <= in_flight`, by an amount derived from the ACK; R3 in check_retx every candidate over the "
           "threshold is aborted, has its handshake resent, or has snd_nxt rewound to snd_una, and every aborted fd reaches "
           "abort_timed_out; R4 abort_with records reset/timed_out and wakes connect/read/write waiters; every parking syscall "
           "tests abort_error before it parks; R5 no lost wake-up: after accepting data or FIN, or processing an ACK, the "
           "corresponding wake flag is raised and acted upon; R6 every state the segmenter transmits in is a retransmit candidate.")
NOT_DECIDED = ("liveness as a whole (every byte and EOF delivered under bounded loss): only the three structural necessary conditions "
               "R9-R11 are decided - window arithmetic, retransmit sufficiency and timing are not; a connection that has a zero-window "
               "recovery channel is not thereby shown to be live (recorded finding D6 is reported by R9); byte equality.")
DECIDED += "; R8 exhaustive scans (check_retx, segment_all, Kernel::egress, Fabric::egress_all); three structural necessary conditions of the liveness half: R9 a zero window has a recovery channel (a spontaneous emission that is not window-gated / a re-advertisement independent of the read size), R10 every segment that occupies sequence space is answered whether or not it is accepted, R11 the retransmit budget restarts when the handshake completes"
DECIDED += "; R15 no window update once the peer's FIN has arrived; shared C16-R5 (handshake segments advertise the real receive window) and C16-R7 (a stale window is never taken: not from an older ack, and among equal acks only a wider one)"
DECIDED += '; R3 also: the round counter is re-armed on every retransmitting path (handshake included); a retransmission reaching an orphaned socket is re-ACKed (shared C13-R9)'
DECIDED += "; R16 no ordering comparison of two raw sequence numbers (tests are made on wrapping differences); the fixture's queue key is (deadline, emission number) (shared C19-R4)"
DECIDED += '; R17 poll_recv / poll_peek answer end-of-file only after abort_error was found None; R16 also: no raw sequence number is widened before arithmetic; an orphan in FIN_WAIT2 is not reaped (shared C13-R1)'
DECIDED += '; R18 the retransmission countdown is re-armed only where snd_una advances, and Kernel::egress sweeps for retransmissions before it segments'
ASSUMPTIONS = ["BytesMut::extend_from_slice / split_to semantics"]

T = "turmoil_net::kernel::socket::Tcb::"
HE = "turmoil_net::kernel::tcp::handle_established"


def _on_field(b, op, field):
    o = deref_origin(b, op)
    if o["k"] == "place":
        _, fields = root_place(b, o["p"])
        return field in fields
    return False


def _eq_guards(ctx, b, fa, fb):
    """true edges of switches on `Eq(x, y)` where one side derives from atom fa and the other from fb"""
    te = []
    for sbb, t_e, f_e, o in guards_on(b, lambda o: o["k"] == "bin" and o["op"] == "Eq"):
        a0 = Slicer(ctx.w).atoms(b, o["a"])
        a1 = Slicer(ctx.w).atoms(b, o["b"])
        if (fa in a0 and fb in a1) or (fa in a1 and fb in a0):
            te += t_e
    return te


def r1(ctx):
    R = "C06-R1"
    ctx.rule(R, "handle_established: extend_from_slice(recv_buf) dominated by the true edge of Eq(segment seq, rcv_nxt) and the false "
                "edge of peer_fin; the rcv_nxt update on that path adds the clamped accepted length; peer_fin := true dominated by "
                "Eq(seq + payload len, rcv_nxt)")
    b = ctx.body(R, HE)
    if not b:
        return
    ext = [(bb, t) for bb, t in b.calls(re.compile(r"^bytes::BytesMut::(extend_from_slice|put_slice|put|extend)$|BytesMut as .*::(extend|put)")) if _on_field(b, t["args"][0], T + "recv_buf")]
    seq_eq = _eq_guards(ctx, b, "field:turmoil_net::kernel::packet::TcpSegment::seq", "field:" + T + "rcv_nxt")
    pf_f = []
    for sbb, te, fe, o in guards_on(b, lambda o: o["k"] == "place" and place_last_field(o["p"]) == T + "peer_fin"):
        pf_f += fe
    if not ext:
        ctx.bad(R, "data:in-order", b.span, "no recv_buf growth found in handle_established")
    SEQ_, RN_ = "field:turmoil_net::kernel::packet::TcpSegment::seq", "field:" + T + "rcv_nxt"

    def p_seq(o):
        # `seq == rcv_nxt`, possibly folded into a flag by an extracted predicate (`carries_new_data(tcb, s)`)
        if o["k"] != "bin" or o["op"] not in ("Eq", "Ne"):
            return False
        a0, a1 = Slicer(ctx.w).atoms(b, o["a"]), Slicer(ctx.w).atoms(b, o["b"])
        if not ((SEQ_ in a0 and RN_ in a1) or (SEQ_ in a1 and RN_ in a0)) or any(x.startswith("call:bytes::Bytes::len") for x in a0 | a1):
            return False
        return True if o["op"] == "Eq" else "neg"

    def p_nofin(o):
        return "neg" if o["k"] == "place" and place_last_field(o["p"]) == T + "peer_fin" else False

    def in_order(x):
        return (bool(seq_eq) and b.dominated_by_any(x, edges=seq_eq)) or guarded_by_pred(b, x, p_seq)
    for bb, t in ext:
        ok1 = in_order(bb)
        ok2 = (bool(pf_f) and b.dominated_by_any(bb, edges=pf_f)) or guarded_by_pred(b, bb, p_nofin)
        ctx.inst(R, "data:in-order", ok1 and ok2, t["s"], "payload accepted only at seq == rcv_nxt and before the peer's FIN" if ok1 and ok2 else
                 "recv_buf grows " + ("" if ok1 else "without the `seq == rcv_nxt` test (gaps / overlaps / duplicates are accepted) ") +
                 ("" if ok2 else "after the peer's FIN"))
        # accepted length n: the slice end and the rcv_nxt increment
        at_slice = Slicer(ctx.w).atoms(b, t["args"][1])
        clamp = [a for a in at_slice if re.search(r"call:.*(::min$|Ord>::min$|cmp::min$)", a)]
        ctx.inst(R, "data:clamped-slice", bool(clamp) and "field:" + T + "recv_buf" in at_slice or bool(clamp), t["s"],
                 "accepted slice is clamped (min) against the free room" if clamp else "the accepted slice is not clamped")
        # rcv_nxt writes dominated by this acceptance region
        wr = [(x, s) for x, i, s in b.all_stmts() if place_last_field(s["p"]) == T + "rcv_nxt" and in_order(x) and x in b.reachable(bb) | {bb}
              and not any(b.dominated_by_edge(x, e) for e in _fin_edges(ctx, b))]
        okadv = False
        for x, s in wr:
            at = Slicer(ctx.w).atoms(b, s["r"].get("o") or {"c": s["p"]})
            # value = wrapping_add(rcv_nxt, n as u32) with n the clamped length
            o = origin(b, s["r"]["o"]) if s["r"]["k"] == "use" else {"k": "?"}
            if o["k"] == "call" and o["t"]["f"].endswith("wrapping_add"):
                a0 = Slicer(ctx.w).atoms(b, o["t"]["args"][0])
                a1 = Slicer(ctx.w).atoms(b, o["t"]["args"][1])
                if "field:" + T + "rcv_nxt" in a0 and any(re.search(r"call:.*(::min$|cmp::min$)", a) for a in a1) and "field:turmoil_net::kernel::packet::TcpSegment::seq" not in a0:
                    okadv = True
        ctx.inst(R, "data:rcv_nxt-advance", okadv, (wr[0][1]["s"] if wr else t["s"]), "rcv_nxt += accepted (clamped) length" if okadv else
                 "rcv_nxt is not advanced by exactly the accepted length (e.g. by the whole segment length): bytes that did not fit are acknowledged and silently lost")
    # FIN acceptance
    pfw = [(bb, s) for bb, i, s in b.all_stmts() if place_last_field(s["p"]) == T + "peer_fin" and s["r"]["k"] == "use" and (op_const(s["r"]["o"]) or {}).get("v") == 1]
    fe_ = _fin_edges(ctx, b)
    for bb, s in pfw:
        ok = bool(fe_) and b.dominated_by_any(bb, edges=fe_)
        ctx.inst(R, "fin:in-order", ok, s["s"], "FIN accepted only when it lands exactly at rcv_nxt" if ok else
                 "peer_fin is set without `fin_seq == rcv_nxt`: EOF can overtake bytes still missing")
    ctx.floor(R, 4)


def _fin_edges(ctx, b):
    te = []
    for sbb, t_e, f_e, o in guards_on(b, lambda o: o["k"] == "bin" and o["op"] == "Eq"):
        a0 = Slicer(ctx.w).atoms(b, o["a"])
        a1 = Slicer(ctx.w).atoms(b, o["b"])
        for x, y in ((a0, a1), (a1, a0)):
            if "field:" + T + "rcv_nxt" in y and "field:turmoil_net::kernel::packet::TcpSegment::seq" in x and any(a.startswith("call:bytes::Bytes::len") for a in x):
                te += t_e
    return te


def r2(ctx):
    R = "C06-R2"
    ctx.rule(R, "handle_established: split_to(send_buf) dominated by `acked > 0` and `acked <= in_flight`; its argument derives from the "
                "segment's ack minus snd_una; snd_una := ack on the same path")
    b = ctx.body(R, HE)
    if not b:
        return
    sp = [(bb, t) for bb, t in b.calls(re.compile(r"^bytes::BytesMut::(split_to|advance|truncate|clear|split_off)$|BytesMut as bytes::Buf>::advance$")) if _on_field(b, t["args"][0], T + "send_buf")]
    gt = []
    le = []
    for sbb, te, fe, o in guards_on(b, lambda o: o["k"] == "bin" and o["op"] in ("Gt", "Le", "Lt", "Ge")):
        a0 = Slicer(ctx.w).atoms(b, o["a"])
        a1 = Slicer(ctx.w).atoms(b, o["b"])
        ACK = "field:turmoil_net::kernel::packet::TcpSegment::ack"
        if o["op"] == "Gt" and ACK in a0 and all(x.startswith("const:") for x in a1):
            gt += te
        if o["op"] == "Le" and ACK in a0 and "field:" + T + "snd_nxt" in a1:
            le += te
    ACK_ = "field:turmoil_net::kernel::packet::TcpSegment::ack"
    gtp = lambda o: o["k"] == "bin" and o["op"] == "Gt" and ACK_ in Slicer(ctx.w).atoms(b, o["a"]) and all(x.startswith("const:") for x in Slicer(ctx.w).atoms(b, o["b"]))
    lep = lambda o: o["k"] == "bin" and o["op"] == "Le" and ACK_ in Slicer(ctx.w).atoms(b, o["a"]) and "field:" + T + "snd_nxt" in Slicer(ctx.w).atoms(b, o["b"])
    for bb, t in sp:
        ok = bool(gt) and bool(le) and b.dominated_by_any(bb, edges=gt) and b.dominated_by_any(bb, edges=le)
        if not ok:
            # the two tests may be folded into a flag (`let advanced = acked > 0 && acked <= in_flight; if advanced { .. }`)
            ok = guarded_by_pred(b, bb, gtp) and guarded_by_pred(b, bb, lep)
        at = Slicer(ctx.w).atoms(b, t["args"][1]) if len(t["args"]) > 1 else set()
        ok2 = "field:turmoil_net::kernel::packet::TcpSegment::ack" in at and "field:" + T + "snd_una" in at
        ctx.inst(R, f"ack:trim-{t['f'].rsplit('::', 1)[1]}", ok and ok2, t["s"], "send_buf trimmed only by a valid cumulative ACK, by the acknowledged amount" if ok and ok2 else
                 "send_buf is trimmed " + ("" if ok else "without `0 < acked <= in_flight` ") + ("" if ok2 else "by an amount not derived from ack - snd_una") + ": unacknowledged bytes can be discarded")
    if not sp:
        ctx.bad(R, "ack:trim", b.span, "no send_buf trim found")
    ctx.floor(R, 1)


def r3(ctx):
    R = "C06-R3"
    ctx.rule(R, "check_retx: from the `egress_since_ack >= threshold` edge every path through the loop body pushes to `abort`, pushes to "
                "`resend_handshake`, or writes snd_nxt := snd_una; every fd in `abort` is passed to abort_timed_out and every fd in "
                "`resend_handshake` to emit_handshake")
    b = ctx.body(R, "turmoil_net::kernel::tcp::check_retx")
    if not b:
        return
    # threshold test: Lt(egress_since_ack, threshold) -> continue on true
    over = []
    for sbb, te, fe, o in guards_on(b, lambda o: o["k"] == "bin" and o["op"] in ("Lt", "Ge")):
        a0 = Slicer(ctx.w).atoms(b, o["a"])
        if "field:" + T + "egress_since_ack" in a0:
            over += fe if o["op"] == "Lt" else te
    pushes = [bb for bb, t in b.calls(re.compile(r"^std::vec::Vec::push$"))]
    rew = [bb for bb, i, s in b.all_stmts() if place_last_field(s["p"]) == T + "snd_nxt" and "field:" + T + "snd_una" in Slicer(ctx.w).atoms(b, s["r"].get("o", {}))]
    nxt = [bb for bb, t in b.calls(re.compile(r"vec::IntoIter as std::iter::Iterator>::next$"))]
    if not over:
        ctx.bad(R, "check_retx:threshold", b.span, "no threshold test on egress_since_ack found")
    for e in over:
        esc = b.reachable(e[1], removed_blocks=pushes + rew, stop=nxt)
        leak = [x for x in esc if x in nxt or b.term(x)["k"] == "return"]
        ctx.inst(R, "check_retx:act-on-threshold", not leak, b.term(e[0]).get("s", b.span), "a candidate over the threshold is always aborted, re-handshaken or rewound" if not leak else
                 "a candidate that crossed the retransmit threshold can be skipped without retransmission or abort: lost segments are never resent")
    # the round counter is re-armed whenever a retransmission is decided - for a handshake segment as for data: otherwise the next
    # egress round is over the threshold again and the budget is used up in retx_max consecutive rounds
    zero = [bb for bb, i, s in b.all_stmts() if i != "term" and place_last_field(s["p"]) == T + "egress_since_ack" and s["r"]["k"] == "use" and (op_const(s["r"]["o"]) or {}).get("v") == 0]
    bud = []
    for sbb, te, fe, o in guards_on(b, lambda o: o["k"] == "bin" and o["op"] in ("Ge", "Lt")):
        if "field:" + T + "retx_attempts" in Slicer(ctx.w).atoms(b, o["a"]):
            bud += te if o["op"] == "Ge" else fe
    abort_push = [x for x in pushes if bud and b.dominated_by_any(x, edges=bud)]
    for e in over:
        esc = b.reachable(e[1], removed_blocks=zero + abort_push, stop=nxt)
        leak = [x for x in esc if x in nxt or b.term(x)["k"] == "return"]
        ctx.inst(R, "check_retx:rearms-round-counter", bool(zero) and not leak, b.term(e[0]).get("s", b.span), "egress_since_ack := 0 on every path that retransmits" if zero and not leak else
                 "a path through check_retx retransmits (handshake segment or rewind) without setting egress_since_ack back to 0: the connection is over the threshold again in the next "
                 "round and burns one attempt per round - a handshake whose round trip exceeds threshold + retx_max rounds (4 ms of latency) is aborted with TimedOut")
    at = [(fb, bb, t) for fb in ctx.w.family(b.id) for bb, t in fb.calls(re.compile(r"^turmoil_net::kernel::tcp::(abort_timed_out|abort_with)$"))]
    eh = [(fb, bb, t) for fb in ctx.w.family(b.id) for bb, t in fb.calls("turmoil_net::kernel::tcp::emit_handshake")]
    ctx.inst(R, "check_retx:abort-reaches-abort_timed_out", len(at) == 1, b.span, "abort list is drained into abort_timed_out" if at else "abort list is never acted upon")
    ctx.inst(R, "check_retx:resend-reaches-emit_handshake", len(eh) == 1, b.span, "resend list is drained into emit_handshake" if eh else "resend list is never acted upon")
    # budget test: the abort push hangs on the true edge of Ge(retx_attempts, retx_max)
    ge = []
    for sbb, te, fe, o in guards_on(b, lambda o: o["k"] == "bin" and o["op"] in ("Ge", "Gt", "Le", "Lt", "Eq")):
        a0 = Slicer(ctx.w).atoms(b, o["a"])
        a1 = Slicer(ctx.w).atoms(b, o["b"])
        if "field:" + T + "retx_attempts" in a0 and "field:turmoil_net::kernel::Kernel::retx_max" in a1:
            ge.append((o["op"], te))
    # `attempts >= max -> abort` or, the other way round, `attempts < max -> retransmit, else abort`
    okb = len(ge) == 1 and ge[0][0] in ("Ge", "Lt")
    if okb:
        ab_e = [e for sbb, te, fe, o in guards_on(b, lambda o: o["k"] == "bin" and o["op"] == ge[0][0] and "field:" + T + "retx_attempts" in Slicer(ctx.w).atoms(b, o["a"]))
                for e in (te if ge[0][0] == "Ge" else fe)]
        okb = bool(ab_e) and any(x in b.reachable(e[1], stop=nxt) for e in ab_e for x in pushes) and             not any((place_last_field(s["p"]) == T + "retx_attempts") for e in ab_e for x in b.reachable(e[1], stop=nxt) for s in b.stmts(x))
    ctx.inst(R, "check_retx:budget-test", okb, b.span, "a connection is aborted exactly when retx_attempts >= retx_max" if okb else
             f"the retransmit budget test is not `retx_attempts >= retx_max` (found {[g[0] for g in ge]}): the connection is aborted one attempt early / late or never")
    ctx.floor(R, 4)


PARKERS = {"turmoil_net::kernel::tcp::poll_send": "register_write_waker", "turmoil_net::kernel::tcp::poll_recv": "register_read_waker",
           "turmoil_net::kernel::tcp::poll_peek": "register_read_waker", "turmoil_net::kernel::tcp::poll_connect": "park_connect"}


def r4(ctx):
    R = "C06-R4"
    ctx.rule(R, "abort_with: writes reset or timed_out := true on every path with a TCB, and calls connect_waker.take().wake(), wake_read, "
                "wake_write on every path; each parking syscall (poll_send/poll_recv/poll_peek/poll_connect) evaluates abort_error (or "
                "the reset/timed_out flags) on a path that dominates its park call")
    b = ctx.body(R, "turmoil_net::kernel::tcp::abort_with")
    if b:
        flags = [bb for bb, i, s in b.all_stmts() if place_last_field(s["p"]) in (T + "reset", T + "timed_out") and (op_const(s["r"].get("o")) or {}).get("v") == 1]
        stw = [bb for bb, i, s in b.all_stmts() if place_last_field(s["p"]) == T + "state"]
        ok = bool(flags) and all(not always_passes(b, flags, frm=x) for x in stw) and bool(stw)
        ctx.inst(R, "abort_with:records-cause", ok, b.span, "abort records reset / timed_out whenever it closes the TCB" if ok else
                 "abort_with can close a TCB without recording reset / timed_out: the failure surfaces as silent loss, not as an error")
        for name in ("wake_read", "wake_write"):
            cb = [bb for bb, t in b.calls(f"turmoil_net::kernel::socket::Socket::{name}")]
            okw = bool(cb) and not always_passes(b, cb)
            ctx.inst(R, f"abort_with:{name}", okw, b.span, f"{name} on every path" if okw else f"abort_with has a path without {name}: a parked task never observes the abort")
        cw = [bb for bb, t in b.calls(re.compile(r"^std::option::Option::take$")) if _on_field(b, t["args"][0], "turmoil_net::kernel::socket::Socket::connect_waker")]
        ctx.inst(R, "abort_with:connect_waker", bool(cw) and not always_passes(b, cw), b.span, "connect waiter is woken" if cw else "connect waiter is not woken on abort")
    for fid, park in PARKERS.items():
        pb = ctx.body(R, fid)
        if not pb:
            continue
        parks = [bb for bb, t in pb.calls(re.compile(park + "$"))]
        tests = [bb for bb, t in pb.calls("turmoil_net::kernel::tcp::abort_error")]
        for sbb, te, fe, o in guards_on(pb, lambda o: o["k"] == "place" and place_last_field(o["p"]) in (T + "reset", T + "timed_out")):
            tests.append(sbb)
        if not parks:
            ctx.bad(R, f"{fid}:park", pb.span, f"`{fid}` no longer parks through {park} (re-derive the rule)")
            continue
        # accepted idioms besides abort_error: the park hangs on a handshake-state edge of a match on Tcb::state (abort moves the
        # state to Closed), or the TCB was created in this very call
        st_edges = []
        for sbb, m, els, adt, pl in variant_edges(pb, lambda p: place_last_field(p) == T + "state"):
            st_edges += [e for v, e in m.items() if v in ("SynSent", "SynReceived")]
        fresh = [bb for bb, i, s in pb.all_stmts() if s["r"]["k"] == "agg" and s["r"].get("adt") == "turmoil_net::kernel::socket::Tcb"]
        ok = all((bool(tests) and pb.dominated_by_any(p, blocks=tests)) or (st_edges and pb.dominated_by_any(p, edges=st_edges))
                 or (fresh and pb.dominated_by_any(p, blocks=fresh)) for p in parks)
        # the abort_error result must actually be branched on before the park
        ctx.inst(R, f"{fid}:abort-before-park", ok, pb.span, "abort state is examined before parking" if ok else
                 f"`{fid}` can park a task without first looking at reset / timed_out: after an abort it waits forever")
    ctx.floor(R, 8)


def r5(ctx):
    R = "C06-R5"
    ctx.rule(R, "handle_established: after recv_buf growth or peer_fin := true the read-wake flag is set to true on every path to its "
                "test, and the test's true edge calls Socket::wake_read (same for ACK processing and wake_write)")
    b = ctx.body(R, HE)
    if not b:
        return
    for name, evpred in (("wake_read", lambda bb, t: re.search(r"BytesMut::extend_from_slice$", t["f"]) and _on_field(b, t["args"][0], T + "recv_buf")),
                         ("wake_write", None)):
        calls = [(bb, t) for bb, t in b.calls(f"turmoil_net::kernel::socket::Socket::{name}")]
        if not calls:
            ctx.bad(R, f"{name}:call", b.span, f"handle_established never calls {name}")
            continue
        cbb = calls[0][0]
        # the flag: the bool local whose true edge dominates the call
        flag = None
        test_bb = None
        for sbb, te, fe, o in guards_on(b, lambda o: o["k"] == "place" and not o["p"].get("p")):
            if te and b.dominated_by_any(cbb, edges=te):
                flag = o["p"]["l"]
                test_bb = sbb
        if flag is None:
            ctx.bad(R, f"{name}:flag", calls[0][1]["s"], f"cannot find the flag guarding {name}")
            continue
        sets = [bb for bb, i, s in b.all_stmts() if s["p"]["l"] == flag and not s["p"].get("p") and s["r"]["k"] == "use" and (op_const(s["r"]["o"]) or {}).get("v") == 1]
        clears = [bb for bb, i, s in b.all_stmts() if s["p"]["l"] == flag and not s["p"].get("p") and s["r"]["k"] == "use" and (op_const(s["r"]["o"]) or {}).get("v") == 0]
        if name == "wake_read":
            events = [bb for bb, t in b.calls() if evpred(bb, t)]
            events += [bb for bb, i, s in b.all_stmts() if place_last_field(s["p"]) == T + "peer_fin" and (op_const(s["r"].get("o")) or {}).get("v") == 1]
        else:
            events = [bb for bb, i, s in b.all_stmts() if place_last_field(s["p"]) == T + "snd_wnd"]
        for n, ev in enumerate(sorted(set(events))):
            miss = always_passes(b, sets, to_blocks=[test_bb], frm=ev)
            late_clear = any(c in b.reachable(ev) and c != 0 and not (c in b.reachable(0, stop=[ev]) and ev not in b.reachable(c)) and test_bb in b.reachable(c) and ev in b.reachable(0) and c in b.reachable(ev) for c in clears if c != ev)
            ok = not miss and ev in b.reachable(0) and test_bb in b.reachable(ev)
            ctx.inst(R, f"{name}:event#{n}", ok, b.site(ev), f"{name} flag raised on every path from the event to its test" if ok else
                     f"after this event the {name} flag may stay false: a parked {'reader' if name == 'wake_read' else 'writer'} is never woken (lost wake-up)")
    ctx.floor(R, 3)


def r7(ctx):
    R = "C06-R7"
    ctx.rule(R, "sibling agreement: every write Tcb::fin_seq = Some(x) (poll_shutdown_write, on_close) computes x = snd_una.wrapping_add(send_buf.len()) - "
                "the sequence number right after the last byte accepted into send_buf - never from snd_nxt (with bytes in flight the FIN would never be emitted)")
    n = 0
    for b in sorted(ctx.w.bodies.values(), key=lambda b: b.id):
        if b.crate != "turmoil_net":
            continue
        for bb, i, s in b.all_stmts():
            if place_last_field(s["p"]) != T + "fin_seq" or not isinstance(s["p"]["p"][-1], dict) or s["p"]["p"][-1].get("f") != "fin_seq":
                continue
            o = origin(b, s["r"]["o"]) if s["r"]["k"] == "use" else {"k": "agg", "r": s["r"]} if s["r"]["k"] == "agg" else {"k": "?"}
            if o["k"] != "agg" or o["r"].get("variant") != "Some":
                continue
            n += 1
            at = Slicer(ctx.w).atoms(b, o["r"]["ops"][0])
            ok = "field:" + T + "snd_una" in at and "field:" + T + "send_buf" in at and "field:" + T + "snd_nxt" not in at
            ctx.inst(R, f"{b.id}:fin_seq#{n}", ok, s["s"], "fin_seq = snd_una + send_buf.len()" if ok else
                     f"`{b.id}` computes fin_seq from {sorted(a.rsplit('::', 1)[1] for a in at if a.startswith('field:' + T))}: with un-ACKed bytes in flight the FIN position is wrong and the FIN is never sent")
    ctx.floor(R, 2)


def r9(ctx):
    R = "C06-R9"
    ctx.rule(R, "zero-window recovery (necessary for 'neither side is left waiting forever'): a sender told `window = 0` with nothing in "
                "flight can only be restarted by a segment it receives or by a segment it sends on its own. (a) every emission the kernel "
                "makes spontaneously - reachable from Kernel::egress without passing through packet delivery - is classified: cut to the "
                "remaining send window (segment_one), handshake-only (emit_handshake, SynSent / SynReceived), or a reset; anything else "
                "counts as a persist probe / periodic re-advertisement; if there is none, one lost window update is fatal. (b) the "
                "receiver's only window re-advertisement (poll_recv) must not depend on the size of the reader's buffer")
    eg = ctx.body(R, "turmoil_net::kernel::Kernel::egress")
    if not eg:
        return
    spont = reach_bodies(ctx.w, [eg.id], stop=lambda i: re.search(r"::(Kernel::deliver|tcp::deliver|udp::deliver)$", i) is not None)
    EMIT = re.compile(r"^turmoil_net::kernel::tcp::emit$")
    sites, other = [], []
    for bid in sorted(spont):
        b = ctx.w.bodies[bid]
        for bb, t in b.calls(EMIT):
            root = b
            while root.parent and root.parent in ctx.w.bodies:
                root = ctx.w.bodies[root.parent]
            kind = None
            # window-gated: dominated by the true edge of a comparison whose value derives from snd_wnd
            gt = []
            for sbb, te, fe, o in guards_on(b, lambda o: o["k"] == "bin" and o["op"] in ("Gt", "Ne", "Ge", "Lt")):
                if "field:" + T + "snd_wnd" in Slicer(ctx.w).atoms(b, o["a"]) | Slicer(ctx.w).atoms(b, o["b"]):
                    gt += te if o["op"] != "Lt" else fe
            if gt and b.dominated_by_any(bb, edges=gt):
                kind = "cut to the remaining send window"
            if kind is None:
                # reset: the segment's flags carry rst = true
                seg = origin(b, t["args"][3]) if len(t["args"]) > 3 else {"k": "?"}
                at = Slicer(ctx.w).atoms(b, t["args"][3]) if len(t["args"]) > 3 else set()
                if root.id.endswith("::emit_rst"):
                    kind = "reset"
            if kind is None:
                # handshake-only: the function matches on Tcb::state and knows only SynSent / SynReceived
                for sbb, m, els, adt, pl in variant_edges(b, lambda p: place_last_field(p) == T + "state"):
                    names = {k for k in m if isinstance(k, str)}
                    if names and names <= {"SynSent", "SynReceived"} and not reaches_return(b, els[1]):
                        kind = "handshake retransmission"
            sites.append((root.id, t["s"], kind))
            if kind is None:
                other.append((root.id, t["s"]))
    for rid, site, kind in sites:
        ctx.info(R, f"spontaneous-emit:{rid}", site, kind or "not window-gated: counts as a probe / periodic advertisement")
    ok = bool(other)
    ctx.inst(R, "zero-window:no-persist-probe", ok, eg.span,
             f"a spontaneous emission independent of the send window exists ({other[0][0]})" if ok else
             "every segment the kernel sends on its own is cut to the remaining send window, a handshake retransmission or a reset "
             f"({len(sites)} sites): a sender whose peer advertised window 0 sends nothing more, and pure ACKs are never retransmitted - "
             "one lost window update (or one never sent) leaves writer and reader waiting forever with no error "
             "[findings/D6/demo_lost_window_update.rs: recv_buf_cap=8, 32 bytes, 1 dropped ACK -> 8 bytes delivered, no EOF]")
    pr = ctx.body(R, "turmoil_net::kernel::tcp::poll_recv")
    if pr:
        em = [bb for bb, t in pr.calls(EMIT)]
        dep = None
        for sbb, t in switch_blocks(pr):
            if len(pr.succ(sbb)) < 2 or not em:
                continue
            if not any(pr.dominated_by_edge(x, (sbb, s2)) for x in em for s2 in pr.succ(sbb)):
                continue
            at = Slicer(ctx.w, control=True).atoms(pr, t["d"])   # `n >= cap / 2 && ..` is a control dependence of the flag
            if any(a.startswith("arg:4:") for a in at) and "field:" + T + "recv_buf" in at:
                dep = pr.term(sbb).get("s") or pr.span
        okb = bool(em) and dep is None
        ctx.inst(R, "zero-window:update-depends-on-read-size", okb, dep or pr.span,
                 "poll_recv re-advertises the window independently of the reader's buffer size" if okb else
                 "poll_recv re-advertises the receive window only when a single read frees a given share of the cap: a reader that drains a "
                 "full buffer in smaller reads never re-opens the window it closed, and nothing else does (see no-persist-probe) "
                 "[findings/D6/demo_zero_window_stall.rs: recv_buf_cap=8, 1-byte reads, lossless link -> 8 of 32 bytes, then both sides wait forever]")
    ctx.floor(R, 2)


SEG = "turmoil_net::kernel::packet::"


def r10(ctx):
    R = "C06-R10"
    ctx.rule(R, "every segment that occupies sequence space is answered (RFC 793: an unacceptable segment is acknowledged): in "
                "handle_established the decision to reply with an ACK must hold for every segment that carries a SYN, a FIN or payload, "
                "whatever the connection state says about accepting it - with all `send_ack = true` assignments removed, the ACK test is "
                "reachable only across the syn-false, the fin-false and the payload-empty edge of tests that look at the segment alone. "
                "Otherwise a retransmission caused by a lost ACK (of data, of the SYN-ACK, of a FIN) is never re-acknowledged and the "
                "peer retransmits until it aborts")
    b = ctx.body(R, "turmoil_net::kernel::tcp::handle_established")
    if not b:
        return
    em = [bb for bb, t in b.calls(re.compile(r"^turmoil_net::kernel::tcp::emit$"))]
    # T: the test of the reply flag - a switch on a bool local with several definitions whose true edge dominates the emit
    T_, flag = None, None
    for sbb, t in switch_blocks(b):
        p = op_place(t["d"])
        o = origin(b, t["d"])
        if o["k"] == "place" and o.get("multi") and not o["p"].get("p"):
            tt, ft = bool_edges(b, sbb, t)
            if em and all(b.dominated_by_edge(x, (sbb, tt)) for x in em):
                T_, flag = sbb, o["p"]["l"]
    if T_ is None:
        ctx.bad(R, "reply:flag-test", b.span, "handle_established: no `if send_ack { emit(..) }` shape found (the reply decision was restructured: re-derive C06-R10)")
        return
    X = [bb for bb, i, s in b.all_stmts() if s["p"]["l"] == flag and not s["p"].get("p") and s["r"]["k"] == "use" and (op_const(s["r"]["o"]) or {}).get("v") == 1]
    preds = {"syn": lambda at: "field:" + SEG + "TcpFlags::syn" in at,
             "fin": lambda at: "field:" + SEG + "TcpFlags::fin" in at,
             "payload": lambda at: "field:" + SEG + "TcpSegment::payload" in at and any(a.endswith("::is_empty") for a in at if a.startswith("call:"))}
    for name, pr in preds.items():
        covered = False
        for sbb, te, fe, o in guards_on(b, lambda o: True):
            at = Slicer(ctx.w).atoms(b, b.term(sbb)["d"])
            if not pr(at) or any(a.startswith("field:turmoil_net::kernel::socket::") for a in at):
                continue
            # the edge on which the segment does NOT have the feature: syn / fin false, is_empty true
            neg = te if name == "payload" else fe
            pol = o
            for e in neg:
                r_ = b.reachable(0, removed_blocks=X, removed_edges=[e])
                if T_ not in r_:
                    covered = True
        ctx.inst(R, f"reply:{name}-always-answered", covered, b.term(T_).get("s", b.span),
                 f"a segment with {name} is acknowledged whether or not it is accepted" if covered else
                 {"syn": "a retransmitted SYN-ACK (the handshake ACK was lost) is never re-acknowledged: the accepting side stays in SynReceived until its SYN-ACK retransmissions run out - one lost packet loses the connection",
                  "fin": "a retransmitted FIN (its ACK was lost) is never re-acknowledged: the closing peer retransmits until it aborts with TimedOut",
                  "payload": "a retransmission of bytes already received (their ACK was lost) is never re-acknowledged: the sender retransmits until it aborts with TimedOut although every byte arrived - one lost ACK aborts an idle connection"}[name])
    ctx.floor(R, 3)


def r11(ctx):
    R = "C06-R11"
    ctx.rule(R, "the retransmit budget restarts when the handshake completes: every write Tcb::state := Established (SynSent on SYN-ACK, "
                "SynReceived on the handshake ACK) is accompanied in the same function, on every path, by retx_attempts := 0 and "
                "egress_since_ack := 0 - as every other ACK progress is (handle_established). Otherwise the SYN's retransmissions count "
                "against the first data segment and a round trip well below retx_threshold * (retx_max + 1) aborts the connection")
    n = 0
    for b in sorted(ctx.w.bodies.values(), key=lambda b: b.id):
        if b.crate != "turmoil_net" or "::tests::" in b.id:
            continue
        for wb, i, s in b.all_stmts():
            if place_last_field(s["p"]) != T + "state":
                continue
            o = {"k": "agg", "r": s["r"]} if s["r"]["k"] == "agg" else origin(b, s["r"]["o"]) if s["r"]["k"] == "use" else {"k": "?"}
            if o["k"] != "agg" or o["r"].get("variant") != "Established":
                continue
            n += 1
            res = {}
            for f in ("retx_attempts", "egress_since_ack"):
                zs = [x for x, j, s2 in b.all_stmts() if place_last_field(s2["p"]) == T + f and s2["r"]["k"] == "use" and (op_const(s2["r"]["o"]) or {}).get("v") == 0]
                res[f] = bool(zs) and (b.dominated_by_any(wb, blocks=zs) or not always_passes(b, zs, frm=wb))
            ok = all(res.values())
            ctx.inst(R, f"{b.id}:established#{n}", ok, s["s"], "handshake completion resets the retransmit counters" if ok else
                     f"`{b.id}` enters Established without resetting {[f for f, v in res.items() if not v]}: the handshake's retransmit attempts are "
                     "charged to the first data segment (5 ms one-way latency: SYN retransmitted 3 times, first write aborted with TimedOut after 2 more)")
    ctx.floor(R, 2)


def r13(ctx):
    R = "C06-R13"
    ctx.rule(R, "a retransmitted SYN / SYN-ACK carries the sequence number of the original: where the TCB is created (poll_connect, "
                "accept_syn) the handshake segment goes out with seq = isn while snd_una := isn + 1, so emit_handshake must send "
                "seq = snd_una - 1 - the same offset. A retransmission that is off by one makes the peer set rcv_nxt one too high: the "
                "first data byte is acknowledged but dropped (`ello world`), or the handshake ACK never matches")
    offs = {}
    for fid in ("turmoil_net::kernel::tcp::poll_connect", "turmoil_net::kernel::tcp::accept_syn"):
        b = ctx.body(R, fid)
        if not b:
            continue
        seq = una = None
        for bb, i, s in b.all_stmts():
            r = s["r"]
            if r["k"] == "agg" and r.get("adt") == "turmoil_net::kernel::packet::TcpSegment":
                m = dict(zip(r["fields"], r["ops"]))
                seq = linear(b, m["seq"])
            if r["k"] == "agg" and r.get("adt") == "turmoil_net::kernel::socket::Tcb":
                m = dict(zip(r["fields"], r["ops"]))
                una = linear(b, m["snd_una"])
        if seq and una and seq[0] == una[0]:
            offs[fid] = seq[1] - una[1]
        ctx.inst(R, f"{fid.rsplit('::', 1)[1]}:handshake-seq", bool(seq and una and seq[0] == una[0]), b.span,
                 f"first handshake segment: seq = snd_una {offs.get(fid, 0):+d}" if fid in offs else "cannot relate the handshake segment's seq to snd_una (re-derive C06-R13)")
    eh = ctx.body(R, "turmoil_net::kernel::tcp::emit_handshake")
    if eh and offs:
        got = None
        for bb, i, s in eh.all_stmts():
            r = s["r"]
            if r["k"] == "agg" and r.get("adt") == "turmoil_net::kernel::packet::TcpSegment":
                m = dict(zip(r["fields"], r["ops"]))
                got = linear(eh, m["seq"])
        want = set(offs.values())
        ok = bool(got) and got[0] == ("field", T + "snd_una") and want == {got[1]}
        ctx.inst(R, "emit_handshake:same-seq-as-original", ok, eh.span, f"retransmission: seq = snd_una {got[1]:+d}, as the original" if ok else
                 f"emit_handshake retransmits the SYN / SYN-ACK with seq = {got}, the original went out with seq = snd_una {sorted(want)[0]:+d}: the peer's rcv_nxt is off by one - "
                 "the stream loses its first byte without an error, or the handshake never completes after one lost SYN-ACK")
    ctx.floor(R, 3)


def r12(ctx):
    R = "C06-R12"
    ctx.rule(R, "the last ACK of a close handshake can be lost or late like any other packet: the side that reached Closed first must go on "
                "answering the peer's (retransmitted) FIN for a while (TIME-WAIT). In handle_on_connection the arm for TcpState::Closed "
                "must therefore reach an emission (re-ACK) for a FIN - today it ignores every segment, and once the handle is dropped the "
                "entry is reaped and a late segment is answered with a RST that clears the peer's receive buffer")
    hc = ctx.body(R, "turmoil_net::kernel::tcp::handle_on_connection")
    if not hc:
        return
    ok = False
    for sbb, m, els, adt, pl in variant_edges(hc, lambda p: True):
        if adt == "turmoil_net::kernel::socket::TcpState" and "Closed" in m:
            e = m["Closed"]
            for x in hc.reachable(e[1]):
                t = hc.term(x)
                if hc.dominated_by_edge(x, e) and t["k"] == "call" and re.search(r"tcp::(emit|handle_established)$", t["f"]):
                    ok = True
    ctx.inst(R, "closed:re-acks-fin", ok, hc.span, "a closed connection still acknowledges the peer's FIN" if ok else
             "there is no TIME-WAIT: the Closed arm ignores the peer's retransmitted FIN (the peer exhausts its budget: TimedOut), and once the handle is dropped a late segment "
             "gets a RST that wipes the peer's unread bytes - one dropped, or merely late, last ACK turns a clean half-close with a slow reader into ConnectionReset / TimedOut")
    ctx.floor(R, 1)


def r15(ctx):
    R = "C06-R15"
    ctx.rule(R, "nothing is sent for a direction that is finished: once the peer's FIN is in (Tcb::peer_fin) no more bytes can arrive, so the "
                "window update poll_recv emits after a large read has no addressee - the peer may have closed and forgotten the connection (the "
                "passive closer keeps no TIME-WAIT in any TCP) and answers with a RST, which wipes the bytes still unread here and turns EOF into "
                "ConnectionReset. The decision to emit in poll_recv must therefore depend on Tcb::peer_fin")
    pr = ctx.body(R, "turmoil_net::kernel::tcp::poll_recv")
    if not pr:
        return
    PF = "field:turmoil_net::kernel::socket::Tcb::peer_fin"
    n = 0
    for bb, t in pr.calls(re.compile(r"^turmoil_net::kernel::tcp::emit$|^turmoil_net::kernel::tcp::emit_ack$")):
        n += 1
        ok = False
        for sbb, tt in switch_blocks(pr):
            if len(pr.succ(sbb)) < 2 or not any(pr.dominated_by_edge(bb, (sbb, x)) for x in pr.succ(sbb)):
                continue
            if PF in Slicer(ctx.w, control=True).atoms(pr, tt["d"]):   # (`!peer_fin && n >= half` makes peer_fin a control dependence of the flag)
                ok = True
        ctx.inst(R, f"poll_recv:window-update-needs-open-direction#{n}", ok, t["s"], "no window update once the peer's FIN has arrived" if ok else
                 "poll_recv emits its window update without looking at Tcb::peer_fin: after both FINs a reader that drains a large buffer in pieces "
                 "pokes a peer that has already forgotten the connection, gets a RST back and loses the bytes it had not read yet (ConnectionReset instead of data + EOF) - with no fault at all")
    ctx.inst(R, "poll_recv:emission-found", n >= 1, pr.span, f"{n} emission(s) analysed" if n else "poll_recv no longer emits a window update: re-derive")
    ctx.floor(R, 2)


def r16(ctx):
    R = "C06-R16"
    ctx.rule(R, "sequence numbers are ordered modulo 2^32: no `<` / `<=` / `>` / `>=` in turmoil_net::kernel::tcp compares two raw sequence "
                "values (Tcb::snd_una / snd_nxt / rcv_nxt / fin_seq, TcpSegment::seq / ack) - an ordering test is made on a wrapping "
                "difference. A raw comparison agrees until a connection's window straddles the wrap; from then on no acknowledgement "
                "is acceptable and a loss-free connection times out; and the order of the fixture's delivery queue is (deadline, "
                "emission number), in that order")
    SEQ = ("field:turmoil_net::kernel::socket::Tcb::snd_una", "field:turmoil_net::kernel::socket::Tcb::snd_nxt", "field:turmoil_net::kernel::socket::Tcb::rcv_nxt",
           "field:turmoil_net::kernel::socket::Tcb::fin_seq", "field:turmoil_net::kernel::packet::TcpSegment::seq", "field:turmoil_net::kernel::packet::TcpSegment::ack")
    n = 0
    cnt = {}
    for b in sorted(ctx.w.bodies.values(), key=lambda x: x.id):
        if b.crate != "turmoil_net" or "kernel::tcp" not in b.id:
            continue
        for bb, i, st in b.all_stmts():
            r = st["r"]
            if i == "term" or r["k"] != "bin" or r["op"] not in ("Lt", "Le", "Gt", "Ge"):
                continue
            sl = Slicer(ctx.w, through_calls=False)
            a, c = sl.atoms(b, r["a"]), sl.atoms(b, r["b"])
            def raw(o):
                og = origin(b, o)
                return og["k"] == "place" and ("field:" + (place_last_field(og["p"]) or "")) in SEQ
            raw_a, raw_c = raw(r["a"]), raw(r["b"])
            if any(x.startswith(SEQ) or x == "call:u32::wrapping_sub" for x in a | c):
                n += 1
                bad = raw_a and raw_c
                ctx.inst(R, f"{b.id}:seq-order#{nth(cnt, b.id)}", not bad, st["s"], "ordering test on a wrapping difference / a length" if not bad else
                         f"`{b.id}` compares two raw sequence numbers with `{r['op']}`: once the unacknowledged window straddles 2^32 the test is false for every acceptable "
                         "acknowledgement - snd_una stops advancing and the connection times out on a link that lost nothing")
    # ... and never leave the 32-bit ring: widening a raw sequence number (`snd_una as u64 + window`) and comparing / subtracting there is
    # the same mistake in other clothes - right until snd_nxt wraps while snd_una has not
    wide = []
    for b in sorted(ctx.w.bodies.values(), key=lambda x: x.id):
        if b.crate != "turmoil_net" or "kernel::tcp" not in b.id:
            continue
        for bb, i, st in b.all_stmts():
            r = st["r"]
            if i == "term" or r["k"] != "cast":
                continue
            og = origin(b, r["o"])
            if og["k"] == "place" and ("field:" + (place_last_field(og["p"]) or "")) in SEQ and b.ty_str(r["ty"]) in ("u64", "i64", "usize", "u128", "i128", "isize"):
                wide.append((b.id, st["s"]))
    ctx.inst(R, "seq-never-widened", not wide, wide[0][1] if wide else "", "no raw sequence number is widened before arithmetic" if not wide else
             f"`{wide[0][0]}` widens a raw sequence number to a wider integer: arithmetic on it no longer wraps with the sequence space - once snd_nxt has passed 2^32 and snd_una "
             "has not, the remaining send window evaluates to ~4 * 10^9 and the whole send buffer goes out against a small advertised window")
    ctx.floor(R, 4)
    from . import C19
    C19.r4(ctx)   # the fixture's queue is ordered by (deadline, emission number): a packet parked for long must not block the ones due before it


def r17(ctx):
    R = "C06-R17"
    ctx.rule(R, "an abort is never read as a clean end-of-file: in tcp::poll_recv and tcp::poll_peek the test of the peer's FIN (which answers "
                "Ok(0)) is reached only after abort_error(tcb) was found to be None - an abort empties recv_buf but leaves peer_fin set, so "
                "the other order turns a reset / timed-out connection with unread data into a silent loss")
    n = 0
    for fid in ("turmoil_net::kernel::tcp::poll_recv", "turmoil_net::kernel::tcp::poll_peek"):
        b = ctx.w.bodies.get(fid)
        if not b:
            if ctx.strict:
                ctx.bad(R, f"anchor-missing:{fid}", "", "receive function not found")
            continue
        none_edges = []
        for sbb, m, els, adt, pl in variant_edges(b, lambda p: True):
            if adt != "std::option::Option":
                continue
            at = Slicer(ctx.w).atoms(b, {"c": pl})
            if "call:turmoil_net::kernel::tcp::abort_error" in at:
                none_edges.append(m.get("None") or els)
        fins = []
        for sbb, te, fe, o in guards_on(b, lambda o: True):
            at = Slicer(ctx.w).atoms(b, b.term(sbb)["d"])
            if "field:turmoil_net::kernel::socket::Tcb::peer_fin" in at and "call:turmoil_net::kernel::tcp::abort_error" not in at:
                fins.append(sbb)
        if not fins:
            continue
        n += 1
        ok = bool(none_edges) and all(b.dominated_by_any(x, edges=none_edges) for x in fins)
        ctx.inst(R, f"{fid.rsplit('::', 1)[1]}:abort-before-eof", ok, b.term(fins[0]).get("s", b.span), "end-of-file is reported only on a connection that was not aborted" if ok else
                 f"`{fid}` tests the peer's FIN before (or without) ruling out an abort: after a RST or a retransmission time-out that found data and the FIN unread, the reader gets "
                 "Ok(0) - a clean end-of-file in front of bytes that were acknowledged and then dropped")
    ctx.floor(R, 1)


def r18(ctx):
    R = "C06-R18"
    ctx.rule(R, "the retransmission countdown is driven by progress only: in handle_established `egress_since_ack` is re-armed only where "
                "`snd_una` advances (an ACK that acknowledges nothing new - any segment of a busy reverse direction - must not postpone the "
                "retransmission of a lost segment for ever); and Kernel::egress runs check_retx before the segmentation loop, so a rewind is "
                "re-emitted in the same pass (a rewind left for the next pass makes every ACK that arrives in between look unacceptable)")
    b = ctx.w.bodies.get("turmoil_net::kernel::tcp::handle_established")
    if b:
        TC = "turmoil_net::kernel::socket::Tcb::"
        adv = [bb for bb, i, s2 in b.all_stmts() if i != "term" and place_last_field(s2["p"]) == TC + "snd_una"]
        rearm = [(bb, s2) for bb, i, s2 in b.all_stmts() if i != "term" and place_last_field(s2["p"]) == TC + "egress_since_ack"]
        k = 0
        for bb, s2 in rearm:
            ok = bool(adv) and any(bb == a or b.dominated_by_block(bb, a) for a in adv)
            ctx.inst(R, f"handle_established:countdown-rearmed-only-on-progress#{k}", ok, s2["s"], "the countdown restarts where snd_una advances" if ok else
                     "handle_established re-arms egress_since_ack for an ACK that acknowledges nothing new: while the peer keeps sending (a heartbeat, its own data) a lost segment is never "
                     "retransmitted and never times out - one dropped packet stalls the direction for good")
            k += 1
        if not rearm and ctx.strict:
            ctx.bad(R, "handle_established:countdown", b.span, "no write of egress_since_ack in handle_established: re-derive")
    e = ctx.w.bodies.get("turmoil_net::kernel::Kernel::egress")
    if e:
        cr = [bb for bb, t in e.calls("turmoil_net::kernel::tcp::check_retx")]
        sa = [bb for bb, t in e.calls("turmoil_net::kernel::tcp::segment_all")]
        ok = bool(cr) and bool(sa) and all(e.dominated_by_any(x, blocks=cr) for x in sa)
        ctx.inst(R, "egress:retx-sweep-before-segmentation", ok, e.term(cr[0])["s"] if cr else e.span, "a rewound connection is re-segmented in the same egress pass" if ok else
                 "Kernel::egress segments before it sweeps for retransmissions: the rewind (snd_nxt = snd_una) waits a whole pass for its re-emission, ACKs that arrive in between "
                 "find nothing in flight and are discarded - with a round trip that is a multiple of retx_threshold passes a loss-free connection aborts with TimedOut")
    ctx.floor(R, 2)


def _same_arm(b, x, y):
    """x and y lie on the same side of every two-way branch: neither is reachable from the other's sibling edge only"""
    return b.dominated_by_block(x, y) or b.dominated_by_block(y, x)


def run(ctx):
    r18(ctx)
    r17(ctx)
    C13.r1(ctx)    # an orphan waiting for the peer's FIN (FIN_WAIT2) stays in the table: reaping it early answers that FIN with a RST, which wipes what the peer has not read yet
    r16(ctx)
    C13.r9(ctx)    # a retransmission reaching an orphaned socket is re-ACKed, not reset (the writer must see EOF, not ConnectionReset)
    r15(ctx)
    C13.r10(ctx, R="C06-R14")   # a connection with unacknowledged data / FIN never leaves the states that are retransmitted
    r13(ctx)
    r12(ctx)
    r11(ctx)
    r10(ctx)
    r9(ctx)
    scan_rule(ctx, "C06")
    r1(ctx)
    r2(ctx)
    r3(ctx)
    r4(ctx)
    r5(ctx)
    C13.r6(ctx, R="C06-R6")
    r7(ctx)
    from . import C16
    C16.r5(ctx)     # the window a host advertises reflects its *receive* buffer (a wrong window stalls both directions)
    C16.r7(ctx)     # the window a host believes in is never older than what it already processed (a stale zero is never corrected: no persist timer)
