"""C14 - messages arrive within the configured latency window, in order on equal latency (structural part)."""
from .common import *
from . import C08

DECIDED = ("R1 Link::delay returns cmp::min(min_latency + sample, max_latency) with all three taken from the one selected config; "
           "R2 the config selected by delay / rand_partition / rand_repair is the link's own override when present, else the "
           "global one, and the per-link setters write through the link's override; R3 the delivery instant is Link::now + delay, "
           "Link::now is written only by Link::new / Link::tick, tick updates it unconditionally and Topology::tick_by ticks every "
           "link with the topology clock; R4 a message matures only when `time <= now`; queue discipline is FIFO (shared C08-R3/R4).")
NOT_DECIDED = "the +-tick numeric window, the latency distribution, 'every message is delivered on a healthy link' as behaviour."
DECIDED += "; R5 exhaustive scans: take_due and Topology::tick_by"
DECIDED += "; R6 = C05-R7 (link deliveries are timed on a tokio clock that must not run ahead of virtual time; recorded finding D16)"
DECIDED += '; R2 also: per-link overrides (top::Link::config) are written only through Link::latency / Link::message_loss; R5 also for_pairs'
DECIDED += '; R1 also: the width of the latency window is computed with a saturating subtraction (a maximum below the inherited minimum is a reachable configuration)'
DECIDED += '; R2 also: a setter stores its argument (no normalisation against the inherited minimum)'
DECIDED += '; a release reschedules only held messages (shared C08-R14), in-flight messages are purged only by a partition (shared C03-R3), the receive slot is filled only when empty (shared C09-R6)'
DECIDED += '; the datagram parked by readable() is handed out before anything still queued (shared C09-R10)'
DECIDED += '; R7 a topology setter never rebuilds a configuration struct from Default; accept looks at the backlog before it parks (shared C12-R9)'
ASSUMPTIONS = ["std::cmp::min / Duration arithmetic behave as documented"]

LAT = "turmoil::config::Latency"


def r1(ctx):
    R = "C14-R1"
    ctx.rule(R, "the value returned by Link::delay is defined by cmp::min(x, m): m reads Latency::max_message_latency, x = "
                "Add(read of Latency::min_message_latency, _), both through the same selected config local")
    b = ctx.body(R, "turmoil::top::Link::delay")
    if not b:
        return
    rets = b.defs().get(0, [])
    if len(rets) != 1 or rets[0][1] != "term" or not callee_matches(rets[0][2], re.compile(r"^std::cmp::min$|Ord>::min$|^std::cmp::Ord::min$|Ord>::clamp$")):
        ctx.bad(R, "delay:clamp", b.span, "Link::delay's return value is not produced by a clamp (cmp::min / Ord::min / clamp): "
                "samples of the latency distribution beyond the configured maximum are no longer cut off")
    else:
        t = rets[0][2]
        args = t["args"]
        ats = [Slicer(ctx.w).atoms(b, a) for a in args]
        fmax = f"field:{LAT}::max_message_latency"
        fmin = f"field:{LAT}::min_message_latency"
        has_max = any(fmax in a and fmin not in a for a in ats)
        xs = [a for a in ats if fmin in a]
        has_x = bool(xs) and any(any(z.startswith("call:<std::time::Duration as std::ops::Add>::add") or z == "binop:Add" for z in a) for a in xs)
        ctx.inst(R, "delay:clamp", has_max and has_x, t["s"], "delay = min(min_latency + sample, max_latency)" if has_max and has_x else
                 "the clamp does not have the shape min(min_message_latency + .., max_message_latency)")
        # the base: Duration::add(min_message_latency, from_millis(range * mult))
        adds = list(b.calls(re.compile(r"Duration as std::ops::Add>::add$")))
        okb = False
        for bb, t2 in adds:
            a0 = Slicer(ctx.w).atoms(b, t2["args"][0])
            a1 = Slicer(ctx.w).atoms(b, t2["args"][1])
            if fmin in a0 and any(z.startswith("call:<rand_distr::Exp as rand_distr::Distribution>::sample") for z in a1):
                okb = True
        ctx.inst(R, "delay:base", okb, b.span, "sampled offset is added to min_message_latency" if okb else
                 "the sampled offset is not added to the configured minimum latency")
    # the width of the window is computed without a panicking subtraction: the setters overwrite only the maximum (the minimum is
    # inherited from the builder, which is the only place that validates max >= min), so max < min is a reachable configuration
    subs = [t2 for bb, t2 in b.calls(re.compile(r"Duration as std::ops::Sub>::sub$")) if any(a.startswith("field:turmoil::config::Latency::") for x in t2["args"] for a in Slicer(ctx.w).atoms(b, x))]
    # `if max > min { max - min } else { ZERO }` is the saturating subtraction spelled out
    def _guarded(bb, t2):
        sl = Slicer(ctx.w)
        x, y = sl.atoms(b, t2["args"][0]), sl.atoms(b, t2["args"][1])
        if x == y:
            return False
        for sbb, te, fe, o in guards_on(b, lambda o: o["k"] == "call" and re.search(r"PartialOrd.*::(gt|ge|lt|le)$", o["t"]["f"])):
            ga, gb = sl.atoms(b, o["t"]["args"][0]), sl.atoms(b, o["t"]["args"][1])
            if o["t"]["f"].rsplit("::", 1)[1] in ("lt", "le"):
                ga, gb = gb, ga
            if (ga, gb) == (x, y) and te and b.dominated_by_any(bb, edges=te):
                return True
        return False
    subs = [t2 for bb, t2 in b.calls(re.compile(r"Duration as std::ops::Sub>::sub$")) if t2 in subs and not _guarded(bb, t2)]
    ctx.inst(R, "delay:window-width-saturates", not subs, subs[0]["s"] if subs else b.span, "max - min is computed with a saturating / checked subtraction" if not subs else
             "Link::delay computes max_message_latency - min_message_latency with the panicking `-`: after set_link_max_message_latency / set_max_message_latency "
             "with a value below the inherited minimum every send on the link panics (`overflow when subtracting durations`) and takes the simulation down")
    ctx.floor(R, 3)


def r2(ctx):
    R = "C14-R2"
    ctx.rule(R, "per-link configuration wins: delay / rand_partition / rand_repair select `self.config.<x>.as_ref().unwrap_or(global)`; "
                "Topology::set_link_* write through Link::latency / Link::message_loss (get_or_insert_with(clone of global))")
    sel = {"turmoil::top::Link::delay": "turmoil::config::Link::latency",
           "turmoil::top::Link::rand_partition": "turmoil::config::Link::message_loss",
           "turmoil::top::Link::rand_repair": "turmoil::config::Link::message_loss"}
    for fid, fld in sel.items():
        b = ctx.body(R, fid)
        if not b:
            continue
        uo = list(b.calls(re.compile(r"^std::option::Option::(unwrap_or|unwrap_or_else|map_or)$")))
        ok = False
        site = b.span
        for bb, t in uo:
            a0 = Slicer(ctx.w).atoms(b, t["args"][0])
            a1 = Slicer(ctx.w).atoms(b, t["args"][1])
            if f"field:{fld}" in a0 and any(a.startswith("arg:2:") for a in a1) and f"field:{fld}" not in a1:
                ok = True
                site = t["s"]
                cfg_local = t["d"]["l"]
                # every read of a Latency / MessageLoss field in this function goes through the selected config
                stray = []
                for bb2, i2, s2 in b.all_stmts():
                    for o in _ops(s2["r"]):
                        pl = op_place(o)
                        if pl and any(f.startswith(("turmoil::config::Latency::", "turmoil::config::MessageLoss::")) for f in place_fields(pl)):
                            if pl["l"] != cfg_local and not _derives_from_select(ctx, b, pl["l"]):
                                stray.append(s2["s"])
                    if "p" in s2["r"] and isinstance(s2["r"].get("p"), dict):
                        pl = s2["r"]["p"]
                        if any(f.startswith(("turmoil::config::Latency::", "turmoil::config::MessageLoss::")) for f in place_fields(pl)) and pl["l"] != cfg_local \
                                and not _derives_from_select(ctx, b, pl["l"]):
                            stray.append(s2["s"])
                if stray:
                    ok = False
                    site = stray[0]
        if not ok and not uo:
            ok, site = _select_by_match(ctx, b, fld)
        if not ok:
            # the selection may live in a private helper of Link that returns the configuration to use: the helper selects
            # (unwrap_or form or match form) and every configuration read here goes through its result
            for bb, t in b.calls(re.compile(r"^turmoil::top::Link::\w+$")):
                hb = ctx.w.bodies.get(t["f"])
                if not hb or hb.argc != 2 or len(t["args"]) != 2 or not any(a.startswith("arg:2:") for a in Slicer(ctx.w).atoms(b, t["args"][1])):
                    continue
                hsel = _select_by_match(ctx, hb, fld, ret=True)[0]
                for hbb, ht in hb.calls(re.compile(r"^std::option::Option::(unwrap_or|unwrap_or_else|map_or)$")):
                    h0, h1 = Slicer(ctx.w).atoms(hb, ht["args"][0]), Slicer(ctx.w).atoms(hb, ht["args"][1])
                    if f"field:{fld}" in h0 and any(a.startswith("arg:2:") for a in h1) and f"field:{fld}" not in h1 and ht["d"]["l"] == 0:
                        hsel = True
                if not hsel:
                    continue
                stray = []
                for bb2, i2, s2 in b.all_stmts():
                    pls = [op_place(o) for o in _ops(s2["r"])] + ([s2["r"]["p"]] if isinstance(s2["r"].get("p"), dict) else [])
                    for pl in pls:
                        if pl and any(f.startswith(("turmoil::config::Latency::", "turmoil::config::MessageLoss::")) for f in place_fields(pl)):
                            if "call:" + t["f"] not in Slicer(ctx.w).atoms(b, {"c": {"l": pl["l"]}}):
                                stray.append(s2["s"])
                ok, site = (not stray), (stray[0] if stray else t["s"])
        ctx.inst(R, f"{fid}:select", ok, site, "uses the link override when present, else the global config" if ok else
                 f"`{fid}` does not (only) read the configuration selected by `link override or global`: a per-link setting is ignored")
    for fid, via in (("turmoil::top::Topology::set_link_message_latency", "turmoil::top::Link::latency"),
                     ("turmoil::top::Topology::set_link_max_message_latency", "turmoil::top::Link::latency"),
                     ("turmoil::top::Topology::set_link_fail_rate", "turmoil::top::Link::message_loss")):
        b = ctx.body(R, fid)
        if not b:
            continue
        ok = any(True for _ in b.calls(via))
        ctx.inst(R, f"{fid}:through-override", ok, b.span, "setter writes the link's own override" if ok else f"setter does not go through `{via}`")
    for fid, fld in (("turmoil::top::Link::latency", "turmoil::config::Link::latency"), ("turmoil::top::Link::message_loss", "turmoil::config::Link::message_loss")):
        b = ctx.body(R, fid)
        if not b:
            continue
        g = [t for bb, t in b.calls(re.compile(r"^std::option::Option::(get_or_insert_with|get_or_insert)$")) if f"field:{fld}" in Slicer(ctx.w).atoms(b, t["args"][0])]
        okc = bool(g)
        if not g:
            # the same spelled out: `match self.config.<x> { Some(ref mut c) => c, None => self.config.<x>.insert(global.clone()) }` -
            # every write of the override (Option::insert / assignment) hangs on the None edge of a test of that override
            ves = variant_edges(b, lambda p: fld in root_place(b, p)[1])
            none_edges = [m["None"] for _, m, _, adt, _ in ves if "None" in m] or [els for _, m, els, adt, _ in ves if "Some" in m and "None" not in m]
            wr = [bb for bb, t in b.calls(re.compile(r"^std::option::Option::(insert|replace)$")) if f"field:{fld}" in Slicer(ctx.w).atoms(b, t["args"][0])]
            wr += [bb for bb, i, s2 in b.all_stmts() if i != "term" and place_last_field(s2["p"]) == fld]
            okc = bool(wr) and bool(none_edges) and all(b.dominated_by_any(x, edges=none_edges) for x in wr)
        ctx.inst(R, f"{fid}:copy-on-first-use", okc, b.span, "override is created from the global config on first use, then kept" if okc else
                 "the override accessor does not create the override only when there is none (get_or_insert_with, or an insert on the None arm): an existing per-link setting is overwritten")
    # what a setter stores is what it was given: the value written to the override is the argument itself (a `.max(min)` "normalisation"
    # silently raises a maximum set below the inherited minimum - the per-link setting then no longer wins)
    for fid, fields in (("turmoil::top::Topology::set_link_max_message_latency", ("max_message_latency",)),
                        ("turmoil::top::Topology::set_link_message_latency", ("min_message_latency", "max_message_latency")),
                        ("turmoil::top::Topology::set_max_message_latency", ("max_message_latency",))):
        b = ctx.w.bodies.get(fid)
        if not b:
            continue
        for bb, i, s2 in b.all_stmts():
            lf = place_last_field(s2["p"]) or ""
            if i == "term" or not lf.startswith("turmoil::config::Latency::") or lf.rsplit("::", 1)[1] not in fields:
                continue
            o = origin(b, s2["r"]["o"]) if s2["r"]["k"] == "use" else {"k": "?"}
            pure = o["k"] == "place" and bool(o.get("arg"))
            ctx.inst(R, f"{fid}:stores-argument:{lf.rsplit('::', 1)[1]}", pure, s2["s"], "the setter stores its argument" if pure else
                     f"`{fid}` stores a value computed from its argument (and other settings) into {lf.rsplit('::', 1)[1]}, not the argument itself: a per-link maximum below the inherited "
                     "minimum is silently raised, and messages on the link take the old minimum instead of at most the per-link maximum")
    # who may write an override: only the two accessors above (and so only the set_link_* setters that call them). A global setter that
    # also rewrote existing overrides would silently cancel a per-link setting made earlier
    # (config::Link is also the type of the global configuration: an override is a place below top::Link::config)
    OV = ("turmoil::top::Link::config",)
    OWN = {"turmoil::top::Link::latency", "turmoil::top::Link::message_loss"}
    nw = 0
    for b in sorted(ctx.w.bodies.values(), key=lambda b: b.id):
        if b.crate != "turmoil":
            continue
        owner = b.id.split("::{closure")[0]
        for bb, i, s2 in b.all_stmts():
            r = s2["r"]
            w = any(f in OV for f in place_fields(s2["p"])) and (s2["p"].get("p") or [])
            if r["k"] in ("ref", "addr") and r.get("bk") in ("mut", "Mut") and any(f in OV for f in place_fields(r["p"])):
                w = True
            if not w:
                continue
            nw += 1
            ok = owner in OWN
            ctx.inst(R, f"override-writer:{owner}", ok, s2["s"], "the override is written by its accessor" if ok else
                     f"`{owner}` takes the per-link override mutably outside Link::latency / Link::message_loss: a setter other than set_link_* can change "
                     "(or cancel) a per-link setting, which then no longer wins over the global one")
    ctx.inst(R, "override-writer:found", nw >= 2, "", f"{nw} mutable uses of the per-link overrides analysed" if nw >= 2 else "no mutable use of Link::config.{latency,message_loss} found (re-derive)")
    ctx.floor(R, 11)


def _select_by_match(ctx, b, fld, ret=False):
    """the same selection spelled as `match &self.config.<x> { Some(link) => link, None => global }` (or if-let): every read of a
    Latency / MessageLoss field goes through a reference that is the Some payload of the link's override, or the global argument
    taken only on the None edge of a test of that override"""
    CF = ("turmoil::config::Latency::", "turmoil::config::MessageLoss::")
    ves = variant_edges(b, lambda p: fld in root_place(b, p)[1])
    none_edges = [m["None"] for _, m, _, adt, _ in ves if "None" in m]
    some_edges = [m["Some"] for _, m, _, adt, _ in ves if "Some" in m]
    if not none_edges:
        # `if let Some(..)` lowers to a switch with only the Some target: the else edge is the None edge
        none_edges = [els for _, m, els, adt, _ in ves if "Some" in m and "None" not in m]
    if not ves:
        return False, b.span

    def sources(l, seen):
        """(kind, def block) for the references local l may hold"""
        if l in seen:
            return []
        seen.add(l)
        if 1 <= l <= b.argc:
            return [("global" if l == 2 else "other", 0)]
        out = []
        ds = b.defs().get(l, [])
        for bb, idx, s in ds:
            if idx == "term" or s["p"].get("p"):
                out.append(("other", bb))
                continue
            r = s["r"]
            pl = op_place(r.get("o")) if r["k"] in ("use", "cast") else r.get("p") if r["k"] in ("ref", "addr") else None
            if pl is None:
                out.append(("other", bb))
            elif fld in root_place(b, pl)[1] and root_place(b, pl)[0] == 1:
                out.append(("override", bb))
            elif not [e for e in (pl.get("p") or ()) if e != "*"]:
                sub_ = sources(pl["l"], set(seen) if len(ds) > 1 else seen)
                # the point of selection is where the reference is chosen: the assignment into a local that has one definition per
                # alternative (a reborrow of `global` made earlier, e.g. as a call argument, selects nothing)
                out += [(k, bb if (len(ds) > 1 or (k == "global" and pl["l"] == 2)) else sb) for k, sb in sub_]
            else:
                out.append(("other", bb))
        return out

    kinds, bad_site = set(), None
    if ret:
        # a helper that *returns* the selected configuration: the sources of its return value
        for kind, db in sources(0, set()):
            kinds.add(kind)
            if kind == "other" or (kind == "global" and not b.dominated_by_any(db, edges=none_edges)):
                bad_site = b.span
        return bad_site is None and "override" in kinds and "global" in kinds, bad_site or b.span
    for bb2, i2, s2 in b.all_stmts():
        pls = [op_place(o) for o in _ops(s2["r"])] + ([s2["r"]["p"]] if isinstance(s2["r"].get("p"), dict) else [])
        for pl in pls:
            if not pl or not any(f.startswith(CF) for f in place_fields(pl)):
                continue
            for kind, db in sources(pl["l"], set()):
                kinds.add(kind)
                if kind == "other" or (kind == "global" and not b.dominated_by_any(db, edges=none_edges)):
                    bad_site = s2["s"]
    ok = bad_site is None and "override" in kinds and "global" in kinds
    return ok, bad_site or b.span


def _derives_from_select(ctx, b, l):
    at = Slicer(ctx.w).atoms(b, {"c": {"l": l}})
    return any(re.search(r"^call:std::option::Option::(unwrap_or|unwrap_or_else|map_or)$", a) for a in at)


def _ops(r):
    out = []
    for kk in ("o", "a", "b"):
        if kk in r and isinstance(r[kk], dict):
            out.append(r[kk])
    out += r.get("ops", [])
    return out


def r3(ctx):
    R = "C14-R3"
    ctx.rule(R, "DeliverAfter operand = Add(Link::now, delay(..)); Link::now is written only in Link::new / Link::tick; Link::tick "
                "writes it from its parameter on every path before take_due; Topology::tick_by calls Link::tick for "
                "every element of links.values_mut() with Rt::now of the topology runtime")
    b = ctx.body(R, "turmoil::top::Link::enqueue")
    if b:
        da = [(bb, s) for bb, i, s in b.all_stmts() if s["r"]["k"] == "agg" and s["r"].get("adt") == "turmoil::top::DeliveryStatus" and s["r"].get("variant") == "DeliverAfter"]
        for bb, s in da:
            o = origin(b, s["r"]["ops"][0])
            ok = False
            if o["k"] == "call" and re.search(r"Instant as std::ops::Add>::add$", o["t"]["f"]):
                a0 = Slicer(ctx.w).atoms(b, o["t"]["args"][0])
                a1 = Slicer(ctx.w).atoms(b, o["t"]["args"][1])
                ok = "field:turmoil::top::Link::now" in a0 and "call:turmoil::top::Link::delay" in a1 and "call:turmoil::top::Link::delay" not in a0
            ctx.inst(R, "enqueue:deliver-after", ok, s["s"], "deliver-after instant = link clock + sampled delay" if ok else
                     "DeliverAfter is not `self.now + self.delay(..)`")
        if not da:
            ctx.bad(R, "enqueue:deliver-after", b.span, "no DeliverAfter construction in Link::enqueue")
    writers = set()
    for ob in ctx.w.bodies.values():
        if ob.crate != "turmoil":
            continue
        for bb, i, s in ob.all_stmts():
            if place_last_field(s["p"]) == "turmoil::top::Link::now" and s["p"]["p"][-1].get("f") == "now":
                writers.add(ob.id)
            if s["r"]["k"] == "agg" and s["r"].get("adt") == "turmoil::top::Link":
                writers.add(ob.id)
    for wtr in sorted(writers):
        ok = wtr in ("turmoil::top::Link::new", "turmoil::top::Link::tick")
        ctx.inst(R, f"now-writer:{wtr}", ok, "", "link clock writer" if ok else f"`{wtr}` writes the link clock")
    t = ctx.body(R, "turmoil::top::Link::tick")
    if t:
        wr = [bb for bb, i, s in t.all_stmts() if place_last_field(s["p"]) == "turmoil::top::Link::now" and op_base(s["r"].get("o")) is not None
              and any(a.startswith("arg:2:") for a in Slicer(ctx.w).atoms(t, s["r"]["o"]))]
        miss = always_passes(t, wr)
        pd = [bb for bb, _ in t.calls("turmoil::top::Link::take_due")]
        order_ok = all(t.dominated_by_any(p, blocks=wr) for p in pd)
        ctx.inst(R, "tick:updates-clock", bool(wr) and not miss and order_ok, t.span,
                 "Link::tick stores the new time on every path, then matures messages" if wr and not miss and order_ok else
                 "Link::tick has a path that does not advance the link clock (or matures messages against the old clock): an idle link's clock goes stale and later sends are stamped in the past")
    tb = ctx.body(R, "turmoil::top::Topology::tick_by")
    if tb:
        it = [bb for bb, tt in tb.calls(re.compile(r"^indexmap::IndexMap::values_mut$")) if "field:turmoil::top::Topology::links" in Slicer(ctx.w).atoms(tb, tt["args"][0])]
        lt = list(tb.calls("turmoil::top::Link::tick"))
        inner = [(fb, bb2, t2) for fb in ctx.w.family(tb.id) if fb.id != tb.id for bb2, t2 in fb.calls("turmoil::top::Link::tick")]
        ok = bool(it) and len(lt) == 1
        if bool(it) and not lt and len(inner) == 1:
            # `links.values_mut().for_each(|link| link.tick(rt.now()))`: the closure ticks unconditionally, it is handed to for_each on the
            # unfiltered values_mut() iterator
            fb, bb2, t2 = inner[0]
            at = Slicer(ctx.w).atoms(fb, t2["args"][1])
            fe_ = [t3 for bb3, t3 in tb.calls(re.compile(r"Iterator::for_each$")) if fb.id in closure_args(tb, t3)]
            unfiltered = bool(fe_) and any(a.endswith("IndexMap::values_mut") for a in Slicer(ctx.w).atoms(tb, fe_[0]["args"][0]) if a.startswith("call:")) and \
                not any(True for _ in tb.calls(re.compile(r"Iterator::(filter|filter_map|take|take_while|skip|skip_while|step_by|nth)$")))
            ok = "call:turmoil::rt::Rt::now" in at and "field:turmoil::top::Topology::rt" in at and not always_passes(fb, [bb2]) and unfiltered
        elif ok:
            bb, tt = lt[0]
            at = Slicer(ctx.w).atoms(tb, tt["args"][1])
            ok = "call:turmoil::rt::Rt::now" in at and "field:turmoil::top::Topology::rt" in at
            # no filter between next() Some edge and the tick call
            nx = [x for x, t2 in tb.calls(re.compile(r"indexmap::map::ValuesMut as std::iter::Iterator>::next$"))]
            for nb in nx:
                for sbb, m, els, adt, pl in variant_edges(tb, lambda p: True):
                    if adt == "std::option::Option" and "Some" in m and tb.dominated_by_block(sbb, nb):
                        back = tb.reachable(m["Some"][1], removed_blocks=[bb], stop=[nb])
                        if nb in back:
                            ok = False
        ctx.inst(R, "tick_by:every-link", ok, tb.span, "every link is ticked with the topology clock" if ok else
                 "Topology::tick_by does not tick every link with Rt::now of the topology runtime")
    ctx.floor(R, 5)


SETTERS = {
    "set_link_latency": ("set_link_message_latency", {"min_message_latency", "max_message_latency"}),
    "set_link_max_message_latency": ("set_link_max_message_latency", {"max_message_latency"}),
    "set_link_fail_rate": ("set_link_fail_rate", {"fail_rate"}),
    "set_max_message_latency": ("set_max_message_latency", {"max_message_latency"}),
    "set_fail_rate": ("set_fail_rate", {"fail_rate"}),
}


def r4(ctx):
    R = "C14-R4"
    ctx.rule(R, "setter wiring (sibling agreement): each Sim::set_* reaches exactly its own Topology setter among the latency / loss setters, "
                "and each Topology setter writes exactly its own configuration fields with the value parameter")
    topo_all = {"turmoil::top::Topology::" + v[0] for v in SETTERS.values()} | {"turmoil::top::Topology::set_message_latency_curve", "turmoil::top::Topology::set_repair_rate"}
    for sfn, (tfn, fields) in SETTERS.items():
        b = ctx.body(R, "turmoil::sim::Sim::" + sfn)
        if b:
            reach = reach_bodies(ctx.w, [b.id])
            got = sorted(x for x in reach if x in topo_all)
            ok = got == ["turmoil::top::Topology::" + tfn]
            ctx.inst(R, f"Sim::{sfn}:reaches", ok, b.span, f"reaches exactly Topology::{tfn}" if ok else f"Sim::{sfn} reaches {got} instead of exactly Topology::{tfn}")
        tb = ctx.body(R, "turmoil::top::Topology::" + tfn)
        if tb:
            wr = set()
            okv = True
            for bb, i, st in tb.all_stmts():
                f = place_last_field(st["p"])
                if f and f.startswith(("turmoil::config::Latency::", "turmoil::config::MessageLoss::")):
                    wr.add(f.rsplit("::", 1)[1])
                    at = Slicer(ctx.w).atoms(tb, st["r"].get("o", {})) if st["r"]["k"] == "use" else set()
                    if not any(a.startswith(f"arg:{tb.argc}:") for a in at):
                        okv = False
            ctx.inst(R, f"Topology::{tfn}:writes", wr == fields and okv, tb.span, f"writes {sorted(fields)} := value" if wr == fields and okv else
                     f"Topology::{tfn} writes {sorted(wr)} (expected {sorted(fields)}, from its value parameter)")
    ctx.floor(R, 10)


def r7(ctx):
    R = "C14-R7"
    ctx.rule(R, "a topology setter changes the knob it names and nothing else: no Topology::set_* rebuilds a whole configuration struct from "
                "`Default` (`..Default::default()`), which would silently reset the other knobs - the global latency window falls back to "
                "0..100 ms when only the distribution's parameter was meant to change")
    n = 0
    for b in ctx.w.find(r"^turmoil::top::Topology::set_\w+$"):
        n += 1
        dfl = sorted({t["f"] for fb in ctx.w.family(b.id) for bb, t in fb.calls(re.compile(r"^<turmoil::config::\w+ as std::default::Default>::default$"))})
        ctx.inst(R, f"setter-keeps-the-rest:{b.id.rsplit('::', 1)[1]}", not dfl, b.span, "only the named knob is written" if not dfl else
                 f"`{b.id}` rebuilds the configuration from {dfl[0]}: every other knob of that struct is reset to its default - links without an override deliver outside the configured "
                 "latency window from the moment the setter is called")
    ctx.floor(R, 6)


def run(ctx):
    r7(ctx)
    from . import C05
    C05.r7(ctx, R="C14-R6")   # link deliveries are timed on the topology runtime's tokio clock: it must not run ahead of virtual time
    scan_rule(ctx, "C14")
    r4(ctx)
    r1(ctx)
    r2(ctx)
    r3(ctx)
    C08.r3(ctx)   # maturity test `time <= now`, move-once
    C08.r4(ctx)   # FIFO queue discipline
    C08.r14(ctx)  # a release reschedules only what a hold parked: a travelling message keeps its sampled delivery time
    from . import C03, C09
    C03.r3(ctx, C03.Typestate(ctx.w, C03.CELLS))   # what is in flight is dropped only by a partition (a repair / release loses nothing)
    from . import C12
    C12.r9(ctx)   # a connection request that arrived in time is handed out in time: accept looks at the backlog before it parks (notifications coalesce)
    C09.r10(ctx)  # the datagram parked by readable() is the oldest one: it is handed out before anything still queued
    C09.r6(ctx)   # a datagram that arrived is never overwritten in the receive slot (it would never be seen, whatever its latency)
