"""C17 - turmoil-net binds and routes packets like a real socket table (structural part)."""
from .common import *
from . import C13, C19

DECIDED = ("R1 Kernel::bind: the socket is created and its binding inserted only after the locality test (AddrNotAvailable) and the "
           "conflict walk over bindings_on_port with the three-way condition (same address, existing wildcard, new wildcard -> "
           "AddrInUse); port 0 goes through allocate_port; R2 every insert_binding(key, fd) is followed on all paths by "
           "socket.bound = Some(key) (bind, tcp/udp auto_bind, accept_syn); removal clears all indexes (C13-R2); R3 allocate_port's "
           "in-use predicate compares domain, type and port only (never the address) and PortAllocator::allocate returns a port only "
           "behind !in_use(p); R4 demux precedence: tcp::deliver tries find_connection before find_listener and answers RST only to "
           "non-RST segments; udp::deliver looks the exact key up before the wildcard and enqueues only behind the connected-peer "
           "equality; find_listener tries exact before wildcard; R5 Fabric::deliver reaches a kernel only through the ip_to_host "
           "lookup of the destination; loopback never leaves the kernel (C19-R3).")
NOT_DECIDED = "the accept/reject matrix as a function of live sockets; SO_REUSE* (not modelled)."
DECIDED += "; R2 also the converse: wherever Socket::bound is set the binding index is updated in the same function"
DECIDED += "; R4 also: a SYN for the pair of a Closed connection reaches the listener"
DECIDED += "; R3 also: the allocator's wrap test is taken on the port itself (no u16 successor compared with the end of the range)"
DECIDED += '; R6 also: a port is allocated in the (domain, type) space it is then bound in'
DECIDED += '; R7 demultiplexing keys are rebuilt from (ip, port): the remote half of every connection-index key and the connected-UDP peer comparison (no IPv6 scope id / flow label)'
DECIDED += '; a failed connect closes the socket it auto-bound and a closing wildcard listener sweeps its half-open children (shared C13-R3 / R4)'
DECIDED += "; R4's listener clause follows the polarity of the test on the connection's state (the listener only behind a failed lookup or a dead connection)"
DECIDED += '; every transition of the close handshake is implemented (shared C13-R10)'
DECIDED += '; an aborted handshaking child is reaped on every abort path (shared C13-R1)'
ASSUMPTIONS = []

K = "turmoil_net::kernel::Kernel::"
ST = "turmoil_net::kernel::socket::SocketTable::"
BK = "turmoil_net::kernel::socket::BindKey::"


def _on_field(b, op, field):
    o = deref_origin(b, op)
    if o["k"] == "place":
        _, fields = root_place(b, o["p"])
        return field in fields
    return False


def r1(ctx):
    R = "C17-R1"
    ctx.rule(R, "Kernel::bind ordering: mk_socket and insert_binding are dominated by (a) the false exit of `!unspecified && !is_local` "
                "(else AddrNotAvailable), (b) the exhausted conflict loop over bindings_on_port(domain, ty, port) whose body returns "
                "AddrInUse on eq(existing.local_addr, key.local_addr) || existing.is_unspecified() || key.is_unspecified()")
    b = ctx.body(R, K + "bind")
    if not b:
        return
    mk = [bb for bb, t in b.calls(K + "mk_socket")]
    ib = [bb for bb, t in b.calls(ST + "insert_binding")]
    bop = [(bb, t) for bb, t in b.calls(ST + "bindings_on_port")]
    loc_te, loc_fe = call_guard_edges(b, K + "is_local")
    errs = {v: [bb for bb, i, s in b.all_stmts() if s["r"]["k"] == "agg" and s["r"].get("variant") == v] for v in ("AddrNotAvailable", "AddrInUse")}
    ok_loc = bool(loc_fe) and bool(errs["AddrNotAvailable"]) and all(any(b.dominated_by_edge(x, e) for e in loc_fe) for x in errs["AddrNotAvailable"])
    ctx.inst(R, "bind:locality", ok_loc and bool(mk) and all(not b.dominated_by_any(x, edges=loc_fe) for x in mk), b.span,
             "a non-local concrete address fails with AddrNotAvailable before anything is created" if ok_loc else
             "binding a non-local address is not rejected with AddrNotAvailable before the socket is created")
    ok_walk = bool(bop) and bool(mk) and all(b.dominated_by_block(x, bop[0][0]) for x in mk + ib)
    ctx.inst(R, "bind:conflict-walk-precedes-insert", ok_walk, b.span, "socket creation and binding insertion come after the conflict walk" if ok_walk else
             "the socket / binding is created before (or without) walking the existing bindings on the port")
    # the three-way condition: inside the loop, AddrInUse reachable from three tests
    eqs = [t for bb, t in b.calls(re.compile(r"IpAddr as std::cmp::PartialEq>::eq$"))]
    uns = [t for bb, t in b.calls(re.compile(r"^std::net::IpAddr::is_unspecified$"))]
    nx = [bb for bb, t in b.calls(re.compile(r"Iterator>::next$")) if bop and bb in b.reachable(bop[0][0])]
    in_loop_uns = [t for t in uns if nx and any(True for x in nx)]
    ex_a = any(BK[:-2] in "" or ("field:" + BK + "local_addr") in Slicer(ctx.w).atoms(b, t["args"][0]) for t in eqs)
    three = len(eqs) >= 1 and len(uns) >= 3
    # the AddrInUse inside the loop must be reachable from each of the three tests' true edges
    reach_ok = True
    cnt_true_to_inuse = 0
    for sbb, te, fe, o in guards_on(b, lambda o: o["k"] == "call" and (o["t"]["f"].endswith("IpAddr::is_unspecified") or o["t"]["f"].endswith("PartialEq>::eq"))):
        if not (bop and sbb in b.reachable(bop[0][0])):
            continue
        if any(x in b.reachable(te[0][1], stop=nx) for x in errs["AddrInUse"]):
            cnt_true_to_inuse += 1
    if cnt_true_to_inuse < 3:
        # accepted idiom: bindings_on_port(..).any(|(existing, _)| a || b || c) followed by `if conflict { return Err(AddrInUse) }`
        for bb, t in b.calls(re.compile(r"Iterator>::any$|^std::iter::Iterator::any$")):
            if not (bop and bb in b.reachable(bop[0][0])):
                continue
            te_any = []
            for sbb, te, fe, o in guards_on(b, lambda o: o["k"] == "call" and o["bb"] == bb):
                te_any += te
            leads = bool(te_any) and any(x in b.reachable(te_any[0][1]) for x in errs["AddrInUse"])
            for cid in closure_args(b, t):
                cb = ctx.w.bodies.get(cid)
                if not cb or not leads:
                    continue
                d = 0
                for sbb, te, fe, o in guards_on(cb, lambda o: o["k"] == "call" and (o["t"]["f"].endswith("IpAddr::is_unspecified") or o["t"]["f"].endswith("PartialEq>::eq"))):
                    if any((op_const(s2["r"].get("o")) or {}).get("v") == 1 and s2["p"]["l"] == 0 for x in cb.reachable(te[0][1]) for s2 in cb.stmts(x)):
                        d += 1
                d += sum(1 for x, tt in cb.calls(re.compile(r"IpAddr::is_unspecified$|PartialEq>::eq$")) if tt["d"]["l"] == 0 and not tt["d"].get("p"))
                eqs = [tt for x, tt in cb.calls(re.compile(r"IpAddr as std::cmp::PartialEq>::eq$"))]
                uns = [tt for x, tt in cb.calls(re.compile(r"^std::net::IpAddr::is_unspecified$"))]
                cnt_true_to_inuse = max(cnt_true_to_inuse, d)
                three = len(eqs) >= 1 and len(uns) >= 2
    ctx.inst(R, "bind:three-way-conflict", three and cnt_true_to_inuse >= 3, b.span,
             "conflict = same address, existing wildcard, or new wildcard (each leads to AddrInUse)" if three and cnt_true_to_inuse >= 3 else
             f"the conflict test no longer has three AddrInUse conditions (found {cnt_true_to_inuse}): a wildcard-vs-specific or same-address clash is accepted")
    if bop:
        t = bop[0][1]
        ats = [Slicer(ctx.w).atoms(b, a) for a in t["args"][1:]]
        ok = len(ats) == 3 and all(a for a in ats)
        ctx.inst(R, "bind:walk-key", ok, t["s"], "walk is keyed by (domain, type, port)")
    ap = [bb for bb, t in b.calls(ST + "allocate_port")]
    z = []
    for sbb, te, fe, o in guards_on(b, lambda o: o["k"] == "bin" and o["op"] == "Eq" and (op_const(o["b"]) or {}).get("v") == 0):
        z += te
    ctx.inst(R, "bind:port-zero-allocates", bool(ap) and bool(z) and all(b.dominated_by_any(x, edges=z) for x in ap), b.span,
             "port 0 is replaced by allocate_port" if ap else "port 0 no longer goes through allocate_port")
    ctx.floor(R, 5)


def r2(ctx):
    R = "C17-R2"
    ctx.rule(R, "index consistency: after every SocketTable::insert_binding(key, fd) call every path to return writes Socket::bound (Some of "
                "the same key); 4 sites: Kernel::bind, tcp::auto_bind, udp::auto_bind, tcp::accept_syn")
    n = 0
    for b, bb, t in who_calls(ctx.w, ST + "insert_binding"):
        if b.id.startswith("turmoil_net::kernel::socket::"):
            continue
        n += 1
        bw = [x for x, i, s in b.all_stmts() if place_last_field(s["p"]) == "turmoil_net::kernel::socket::Socket::bound"]
        miss = always_passes(b, bw, frm=bb)
        ok = bool(bw) and not miss
        ctx.inst(R, f"{b.id}:bound-follows-binding", ok, t["s"], "binding index and Socket::bound are set together" if ok else
                 f"`{b.id}` inserts a binding but a path to return leaves Socket::bound unset: close cannot find and free the binding")
    # converse: wherever Socket::bound is set, the binding index is updated in the same function (before or after, on every path)
    for b in sorted(ctx.w.bodies.values(), key=lambda b: b.id):
        if b.crate != "turmoil_net" or b.id.startswith("turmoil_net::kernel::socket::") or "::tests::" in b.id:
            continue
        for wb, i, s in b.all_stmts():
            if place_last_field(s["p"]) != "turmoil_net::kernel::socket::Socket::bound":
                continue
            cb = [x for x, t in b.calls(ST + "insert_binding")]
            ok = bool(cb) and (b.dominated_by_any(wb, blocks=cb) or not always_passes(b, cb, frm=wb))
            ctx.inst(R, f"{b.id}:binding-with-bound", ok, s["s"], "Socket::bound is set together with the binding index" if ok else
                     f"`{b.id}` marks the socket as bound without inserting it in the binding index: the bind-conflict check and the "
                     "ephemeral-port scan do not see this socket (its port can be bound again while it is alive)")
    ctx.floor(R, 8)


def r3(ctx):
    R = "C17-R3"
    ctx.rule(R, "allocate_port's in-use closure reads BindKey::{domain, ty, local_port} and never local_addr; PortAllocator::allocate "
                "returns Some(p) only behind the false edge of in_use(p) and wraps the cursor at range.end()")
    a = ctx.body(R, ST + "allocate_port")
    if a:
        fields = set()
        for fb in ctx.w.family(a.id):
            for bb, i, s in fb.all_stmts():
                pls = [op_place(o) for o in [s["r"].get("o"), s["r"].get("a"), s["r"].get("b")] if o] + ([s["r"]["p"]] if isinstance(s["r"].get("p"), dict) else [])
                for pl in pls:
                    if pl:
                        for f in place_fields(pl):
                            if f.startswith(BK):
                                fields.add(f[len(BK):])
        ok = {"domain", "ty", "local_port"} <= fields and "local_addr" not in fields
        ctx.inst(R, "allocate_port:predicate-fields", ok, a.span, f"in-use predicate compares {sorted(fields)}" if ok else
                 f"in-use predicate compares {sorted(fields)}: it must use domain, ty, local_port and not the address (a port taken on another local address would be handed out)")
    p = ctx.body(R, "turmoil_net::kernel::socket::PortAllocator::allocate")
    if p:
        rets = [bb for bb, i, s in p.all_stmts() if s["r"]["k"] == "agg" and s["r"].get("variant") == "Some" and s["p"]["l"] == 0]
        fe_all = []
        for sbb, te, fe, o in guards_on(p, lambda o: o["k"] == "call" and re.search(r"FnMut>::call_mut$|FnMut::call_mut$", o["t"]["f"])):
            fe_all += fe
        ok = bool(rets) and bool(fe_all) and all(p.dominated_by_any(x, edges=fe_all) for x in rets)
        # exhaustion: None only after a full cycle, i.e. when the cursor is back at the value it had on entry
        CUR, RNG = "field:turmoil_net::kernel::socket::PortAllocator::cursor", "field:turmoil_net::kernel::socket::PortAllocator::range"
        nones = [bb for bb, i, s in p.all_stmts() if s["r"]["k"] == "agg" and s["r"].get("variant") == "None" and s["p"]["l"] == 0]
        okx = False
        for sbb, te, fe, o in guards_on(p, lambda o: o["k"] == "bin" and o["op"] == "Eq"):
            if not (nones and te and all(p.dominated_by_any(x, edges=te) for x in nones)):
                continue
            a0 = Slicer(ctx.w).atoms(p, o["a"])
            a1 = Slicer(ctx.w).atoms(p, o["b"])
            okx = CUR in a0 and CUR in a1 and RNG not in a0 and RNG not in a1
        ctx.inst(R, "allocate:exhaustion-after-full-cycle", okx, p.span, "None is returned only when the cursor is back at its entry value (every port was examined)" if okx else
                 "the exhaustion test does not compare the cursor with its value on entry: ports below the cursor are never examined and a free port is reported as AddrInUse")
        # the wrap decision survives the top of the u16 space: the default range ends at u16::MAX, where a successor computed in
        # u16 does not exist (`p + 1` overflows, saturating_add stays, wrapping_add restarts at 0) - so the test that sends the
        # cursor back to range.start() compares values free of u16 arithmetic (`p == end`, `p >= end`), or the successor is
        # computed in a wider type / by checked_add
        wraps = []
        for sbb, te, fe, o in guards_on(p, lambda o: o["k"] == "bin" and o["op"] in ("Eq", "Ne", "Gt", "Ge", "Lt", "Le")):
            a0 = Slicer(ctx.w).atoms(p, o["a"])
            a1 = Slicer(ctx.w).atoms(p, o["b"])
            if not ((RNG in a0) ^ (RNG in a1)):
                continue
            other = o["b"] if RNG in a0 else o["a"]
            pl = op_place(other)
            narrow = pl is not None and p.ty_str(p.locals[pl["l"]]["ty"]) == "u16"

            def has_arith(sh):
                return isinstance(sh, tuple) and (sh[0] in ("Add", "Sub", "saturating_add", "wrapping_add", "saturating_sub", "wrapping_sub") or any(has_arith(k) for k in sh[1:]))
            sh = expr_shape(p, other)
            wraps.append((narrow and has_arith(sh), shape_str(sh), p.term(sbb).get("s", p.span)))
        badw = [w for w in wraps if w[0]]
        ctx.inst(R, "allocate:wrap-test-at-top-of-range", bool(wraps) and not badw, badw[0][2] if badw else p.span,
                 "the cursor's wrap test compares the port itself with the end of the range" if wraps and not badw else
                 (f"PortAllocator::allocate decides the wrap on a successor computed in u16 ({badw[0][1]}) compared with range.end(): the default range ends at 65535, where that "
                  "successor does not exist - the cursor sticks at 65535 (or leaves the range) and every later port-0 bind probes one port only: AddrInUse with 16383 ports free"
                  if badw else "no comparison of the cursor with the end of the range found in PortAllocator::allocate: re-derive"))
        ctx.inst(R, "allocate:free-only", ok, p.span, "a port is returned only when in_use(p) is false" if ok else "PortAllocator::allocate can return a port without the in_use(p) == false test")
    ctx.floor(R, 3)


def r4(ctx):
    R = "C17-R4"
    ctx.rule(R, "demux precedence: tcp::deliver - find_listener only after find_connection returned None, RST reply only behind !flags.rst; "
                "tcp::find_listener and udp::deliver - exact BindKey looked up before the wildcard one; udp enqueue behind `peer == from` "
                "when a peer is set")
    d = ctx.body(R, "turmoil_net::kernel::tcp::deliver")
    if d:
        fc = [bb for bb, t in d.calls(ST + "find_connection")]
        fl = [bb for bb, t in d.calls("turmoil_net::kernel::tcp::find_listener")]
        hoc = [bb for bb, t in d.calls("turmoil_net::kernel::tcp::handle_on_connection")]
        ves = [v for v in variant_edges(d, lambda p: True) if v[3] == "std::option::Option" and fc and d.dominated_by_block(v[0], fc[0])]
        ok = False
        revives = False
        if ves and fl:
            sbb, m, els, adt, pl = ves[0]
            ne = m.get("None") or els
            se = m.get("Some")
            # the listener is consulted when no connection matches - or when the matching one is dead (state Closed: it only waits for
            # its owner to drop the handle) and the segment is a fresh SYN
            dead = []
            # polarity of the state test: `t.state == Closed` (true = dead) or `t.state != Closed` (true = alive)
            neg = any(t2["f"].endswith("::ne") for fb2 in ctx.w.family(d.id) for _, t2 in fb2.calls(re.compile(r"PartialEq.*::(eq|ne)$"))
                      if any("field:turmoil_net::kernel::socket::Tcb::state" in Slicer(ctx.w).atoms(fb2, a) for a in t2["args"]))
            for s2, te, fe, o in guards_on(d, lambda o: True):
                at = Slicer(ctx.w, into_callees=2).atoms(d, d.term(s2)["d"])
                if "field:turmoil_net::kernel::socket::Tcb::state" in at:
                    dead += (fe if neg else te)
            ok = all(d.dominated_by_any(x, edges=[ne] + dead) for x in fl) and bool(se) and all(d.dominated_by_edge(x, se) for x in hoc)
            revives = bool(dead) and any(x in d.reachable(se[1]) for x in fl)
        ctx.inst(R, "tcp-deliver:connection-before-listener", ok, d.span, "a live 4-tuple wins over a listener" if ok else
                 "the listener is consulted before / without the 4-tuple lookup failing or the matching connection being dead: segments of a live connection (a retransmitted SYN for a "
                 "child still in SynReceived) reach the listener, which forks a second child for the same 4-tuple - connect returns Ok, accept never sees the connection")
        ctx.inst(R, "tcp-deliver:dead-connection-yields-to-listener", bool(ves and fl and revives), d.span, "a SYN that reuses the pair of a Closed connection reaches the listener" if ves and fl and revives else
                 "a segment whose 4-tuple matches a socket in state Closed (reset, timed out or fully closed, but its handle not yet dropped) is always handed to that dead socket, "
                 "which ignores it: once the peer's ephemeral port comes round again every SYN is swallowed and connect() ends in TimedOut although a listener is up")
        rst = [bb for bb, t in d.calls("turmoil_net::kernel::tcp::emit_rst")]
        fe_r = []
        for sbb, te, fe, o in guards_on(d, lambda o: o["k"] == "place" and place_last_field(o["p"]) == "turmoil_net::kernel::packet::TcpFlags::rst"):
            fe_r += fe
        last = [x for x in rst if not any(d.dominated_by_edge(x, e) for sbb2, te2, fe2, o2 in guards_on(d, lambda o: o["k"] == "place" and place_last_field(o["p"]) == "turmoil_net::kernel::packet::TcpFlags::syn") for e in te2)]
        ok2 = all(d.dominated_by_any(x, edges=fe_r) for x in last) and bool(fe_r)
        ctx.inst(R, "tcp-deliver:no-rst-to-rst", ok2, d.span, "a stray RST is never answered with a RST" if ok2 else "an RST segment can be answered with another RST (ping-pong)")
    fl_b = ctx.body(R, "turmoil_net::kernel::tcp::find_listener")
    if fl_b:
        # the array [&exact, &wildcard]: exact first
        arr = [s for bb, i, s in fl_b.all_stmts() if s["r"]["k"] == "agg" and s["r"].get("ak") == "array" and len(s["r"]["ops"]) == 2]
        ok = False
        if arr:
            o0 = Slicer(ctx.w).atoms(fl_b, arr[0]["r"]["ops"][0])
            o1 = Slicer(ctx.w).atoms(fl_b, arr[0]["r"]["ops"][1])
            unspec = lambda at: any("UNSPECIFIED" in a for a in at)
            ok = not unspec(o0) and unspec(o1)
        ctx.inst(R, "find_listener:exact-before-wildcard", ok, fl_b.span, "exact listener address tried before the wildcard" if ok else "listener lookup does not try the exact address before the wildcard")
    u = ctx.body(R, "turmoil_net::kernel::udp::deliver")
    if u:
        fb_calls = list(u.calls(ST + "find_by_bind"))
        fam_calls = [(fb, bb, t) for fb in ctx.w.family(u.id) for bb, t in fb.calls(ST + "find_by_bind")]
        outer = [t for fb, bb, t in fam_calls if fb.id == u.id]
        inner = [t for fb, bb, t in fam_calls if fb.id != u.id]
        ok = len(outer) == 1 and len(inner) == 1
        if ok:
            a_out = Slicer(ctx.w).atoms(u, outer[0]["args"][1])
            unspec_out = any("UNSPECIFIED" in a for a in a_out)
            ok = not unspec_out and any(True for _ in u.calls(re.compile(r"^std::option::Option::or_else$")))
        elif len(outer) == 2 and not inner:
            # `match first_bound(k, &exact) { Some(fd) => Some(fd), None => first_bound(k, &wildcard) }`: the wildcard lookup hangs on the
            # None edge of the test of the exact lookup's result
            ex = [(bb, t) for bb, t in fb_calls if not any("UNSPECIFIED" in a for a in Slicer(ctx.w).atoms(u, t["args"][1]))]
            wc = [(bb, t) for bb, t in fb_calls if any("UNSPECIFIED" in a for a in Slicer(ctx.w).atoms(u, t["args"][1]))]
            if len(ex) == 1 and len(wc) == 1:
                nones = []
                for sbb, m, els, adt, pl in variant_edges(u, lambda p: True):
                    if adt == "std::option::Option" and u.dominated_by_block(sbb, ex[0][0]) and not u.dominated_by_block(sbb, wc[0][0]):
                        nones.append(m.get("None") or els)
                ok = bool(nones) and u.dominated_by_any(wc[0][0], edges=nones)
        ctx.inst(R, "udp-deliver:exact-before-wildcard", ok, u.span, "exact binding preferred, wildcard only as fallback (or_else)" if ok else
                 "UDP demux does not prefer the exact binding over the wildcard")
        pushes = [(bb, t) for bb, t in u.calls(re.compile(r"^std::collections::VecDeque::push_back$")) if _on_field(u, t["args"][0], "turmoil_net::kernel::socket::Socket::recv_queue")]
        # peer filter: when peer is Some, ne(peer, from) true -> return
        te_ne, fe_ne = call_guard_edges(u, re.compile(r"PartialEq>::ne$|^std::cmp::PartialEq::ne$"))
        te_eq, fe_eq = call_guard_edges(u, re.compile(r"Addr as std::cmp::PartialEq>::eq$"))
        pv = [v for v in variant_edges(u, lambda p: "turmoil_net::kernel::socket::Socket::peer" in root_place(u, p)[1])]
        for bb, t in pushes:
            okp = False
            if pv:
                sbb, m, els, adt, pl = pv[0]
                se = m.get("Some")
                ne_ = m.get("None") or els
                good = fe_ne + te_eq
                # the outcome of the comparison may be held in a flag (`let same = match peer { Inet(a) => .. == from, o => *o == from }; if !same`)
                from engine.analysis.flow import _flag_switches, _flag_defs
                EQ = re.compile(r"Addr as std::cmp::PartialEq>::eq$")
                for fsbb, fte, ffe, fl in _flag_switches(u):
                    defs = _flag_defs(u, fl)
                    if defs and all(k == "false" or (k == "call" and EQ.search(pl_["f"])) for _, k, pl_ in defs):
                        good = good + fte
                # on the Some path the push must be behind the peer comparison's "equal" edge
                r_some = u.reachable(se[1], removed_edges=good) if se else set()
                okp = bool(se) and bool(good) and bb not in u.reachable(se[1], removed_edges=good)
            if not okp and not pv:
                # `if st.peer.as_ref().is_some_and(|peer| peer != &from) { return }`: the push hangs on the false edge
                for sbb, te, fe, o in guards_on(u, lambda o: o["k"] == "call" and re.search(r"Option::is_some_and$", o["t"]["f"])):
                    at = Slicer(ctx.w).atoms(u, o["t"]["args"][0])
                    ne_in = any(True for cid in closure_args(u, o["t"]) for fb in ctx.w.family(cid) for _ in fb.calls(re.compile(r"PartialEq>::ne$|^std::cmp::PartialEq::ne$")))
                    if not ne_in:
                        # `|peer| !same_sender(peer, &from)`: equality computed (by an inlined helper) and negated
                        for cid in closure_args(u, o["t"]):
                            for fb in ctx.w.family(cid):
                                has_eq = any(True for _ in fb.calls(re.compile(r"Addr as std::cmp::PartialEq>::eq$|PartialEq>::eq$")))
                                has_not = any(i2 != "term" and s3["r"]["k"] == "un" and s3["r"]["op"] == "Not" for _, i2, s3 in fb.all_stmts())
                                if has_eq and has_not:
                                    ne_in = True
                    if "field:turmoil_net::kernel::socket::Socket::peer" in at and ne_in and fe and u.dominated_by_any(bb, edges=fe):
                        okp = True
            ctx.inst(R, "udp-deliver:connected-peer-filter", okp, t["s"], "a connected socket only receives from its peer" if okp else
                     "a datagram can be queued on a connected socket without passing the peer == source test")
        if not pushes:
            ctx.bad(R, "udp-deliver:connected-peer-filter", u.span, "no enqueue found in udp::deliver")
    ctx.floor(R, 5)


def r5(ctx):
    R = "C17-R5"
    ctx.rule(R, "Fabric::deliver: Kernel::deliver is reached only through ip_to_host.get(&pkt.dst) == Some(host); no other path hands a "
                "packet to a kernel")
    f = ctx.body(R, "turmoil_net::fabric::Fabric::deliver")
    if f:
        kd = [bb for bb, t in f.calls(K + "deliver")]
        g = [t for bb, t in f.calls(re.compile(r"^indexmap::IndexMap::get$|HashMap::get$|BTreeMap::get$")) if _on_field(f, t["args"][0], "turmoil_net::fabric::Fabric::ip_to_host")]
        okk = bool(g) and "field:turmoil_net::kernel::packet::Packet::dst" in Slicer(ctx.w).atoms(f, g[0]["args"][1])
        if not g:
            # the lookup may sit behind an accessor (`host_for_ip(pkt.dst)`): the key used on `hosts` must still derive from
            # ip_to_host indexed by the packet's destination
            for bb, t in f.calls(re.compile(r"^indexmap::IndexMap::get_mut$|HashMap::get_mut$|BTreeMap::get_mut$")):
                if _on_field(f, t["args"][0], "turmoil_net::fabric::Fabric::hosts"):
                    at = Slicer(ctx.w, into_callees=2).atoms(f, t["args"][1])
                    okk = "field:turmoil_net::fabric::Fabric::ip_to_host" in at and "field:turmoil_net::kernel::packet::Packet::dst" in at
        ves = [v for v in variant_edges(f, lambda p: True) if v[3] == "std::option::Option"]
        okd = bool(ves) and bool(kd) and ves[0][1].get("Some") and all(f.dominated_by_edge(x, ves[0][1]["Some"]) for x in kd)
        ctx.inst(R, "fabric:route-by-destination", okk and okd, f.span, "packet handed only to the host owning its destination address; unknown addresses dropped" if okk and okd else
                 "Fabric::deliver does not route strictly by ip_to_host[pkt.dst]")
    callers = sorted({b.id for b, bb, t in who_calls(ctx.w, K + "deliver")})
    allowed = {"turmoil_net::fabric::Fabric::deliver", K + "egress"}
    ctx.inst(R, "kernel-deliver:callers", set(callers) <= allowed, "", f"Kernel::deliver is called from {callers}" + ("" if set(callers) <= allowed else " - a path bypasses routing by destination address"))
    ctx.floor(R, 2)


def r6(ctx):
    R = "C17-R6"
    ctx.rule(R, "sibling agreement: tcp::auto_bind and udp::auto_bind (implicit bind on first connect / send) use the same table API and fields")
    sibling_rule(ctx, R, "turmoil_net::kernel::tcp::auto_bind", "turmoil_net::kernel::udp::auto_bind")
    # a port is allocated in the space it is then bound in: SocketTable::allocate_port(domain, ty) checks the bindings of (domain, ty),
    # so the BindKey built from its result must carry the same domain and type
    BK = "turmoil_net::kernel::socket::BindKey"

    def vid(b, op):
        o = origin(b, op)
        if o["k"] == "agg":
            return ("variant", o["r"].get("adt"), o["r"].get("variant"))
        if o["k"] == "place":
            if o.get("arg"):
                return ("arg", o["arg"])
            return ("place", tuple(place_fields(o["p"])) or o["p"]["l"])
        if o["k"] == "call":
            return ("call", o["t"]["f"], o["bb"])
        return ("?", id(o))
    n = 0
    for b in sorted(ctx.w.bodies.values(), key=lambda b: b.id):
        if b.crate != "turmoil_net":
            continue
        allocs = [(bb, t) for bb, t in b.calls("turmoil_net::kernel::socket::SocketTable::allocate_port")]
        if not allocs:
            continue
        keys = [(bb, i, s2) for bb, i, s2 in b.all_stmts() if i != "term" and s2["r"]["k"] == "agg" and s2["r"].get("adt") == BK]
        for abb, t in allocs:
            want = (vid(b, t["args"][1]), vid(b, t["args"][2]))
            for bb, i, s2 in keys:
                if bb not in b.reachable(abb):
                    continue
                n += 1
                got = (vid(b, s2["r"]["ops"][0]), vid(b, s2["r"]["ops"][1]))
                ok = got == want
                ctx.inst(R, f"allocate-space:{b.id}#{n}", ok, t["s"], "the port is allocated in the (domain, type) space it is bound in" if ok else
                         f"`{b.id}` allocates a port in the space {want} but binds it under {got}: ports held by live sockets of the bound type are handed out again "
                         "without a conflict check (two sockets share an address, even a 4-tuple)")
    ctx.inst(R, "allocate-space:found", n >= 3, "", f"{n} allocate-then-bind sites analysed" if n >= 3 else f"only {n} allocate_port -> BindKey sites found (3 expected: tcp / udp auto_bind, Kernel::bind): re-derive")
    ctx.floor(R, 5)


def r7(ctx):
    R = "C17-R7"
    ctx.rule(R, "demultiplexing keys are what packets carry - address and port: an IPv6 SocketAddr also has a scope id and a flow label, which take "
                "part in its equality but are never on the wire, so every remote address that goes into the connection index (insert_connection) or "
                "is compared with a packet's source (the connected-UDP peer filter) must have been rebuilt from (ip, port) - SocketAddr::new - like the "
                "keys the receive path looks up. A peer named `[fe80::1%2]:9000` otherwise never matches its own answers")
    NEW = re.compile(r"^call:std::net::SocketAddr::new$")
    n = 0
    for b in sorted(ctx.w.bodies.values(), key=lambda b: b.id):
        if b.crate != "turmoil_net":
            continue
        for bb, t in b.calls("turmoil_net::kernel::socket::SocketTable::insert_connection"):
            n += 1
            def wire_form(fb, op, depth=0):
                """the operand was rebuilt by SocketAddr::new here, or it is a parameter that every caller passes in that form"""
                at = Slicer(ctx.w, into_callees=1).atoms(fb, op)
                if any(NEW.match(a) for a in at):
                    return True
                ks = sorted({int(a.split(":")[1]) for a in at if a.startswith("arg:") and a.endswith("@" + fb.id)})
                if not ks or depth > 2:
                    return False
                callers = who_calls(ctx.w, fb.id)
                return bool(callers) and all(any(wire_form(cb, ct["args"][k - 1], depth + 1) for k in ks if k - 1 < len(ct["args"])) for cb, cbb, ct in callers)
            ok = wire_form(b, t["args"][2])
            ctx.inst(R, f"index-key:{b.id}#{n}", ok, t["s"], "the remote half of the key is rebuilt from (ip, port)" if ok else
                     f"`{b.id}` files a connection under the remote address exactly as the caller wrote it: with an IPv6 scope id or flow label the key never equals "
                     "the (source ip, source port) the receive path looks up - the SYN-ACK finds no connection, is answered with a RST, and the connect times out")
    dl = ctx.w.bodies.get("turmoil_net::kernel::udp::deliver")
    if dl:
        PEER = "field:turmoil_net::kernel::socket::Socket::peer"
        sites = [(fb, bb, t) for fb in ctx.w.family(dl.id) for bb, t in fb.calls(re.compile(r"PartialEq.*::(ne|eq)$"))]
        # a closure handed to an Option combinator on Socket::peer (`st.peer.as_ref().is_some_and(|peer| ..)`) sees the peer as its parameter
        peer_params = set()
        for fb2 in ctx.w.family(dl.id):
            for bb2, t2 in fb2.calls(re.compile(r"^std::option::Option::(is_some_and|is_none_or|map|map_or|filter|and_then)$")):
                if t2["args"] and PEER in Slicer(ctx.w).atoms(fb2, t2["args"][0]):
                    for cid in closure_args(fb2, t2):
                        peer_params.add(cid)
        for fb_, bb, t in sites:
            a0, a1 = Slicer(ctx.w, into_callees=1).atoms(fb_, t["args"][0]), Slicer(ctx.w, into_callees=1).atoms(fb_, t["args"][1])
            for cid in peer_params:
                if fb_.id == cid or fb_.id.startswith(cid):
                    if any(a.startswith("arg:2:") and a.endswith("@" + cid) for a in a0):
                        a0 = a0 | {PEER}
                    if any(a.startswith("arg:2:") and a.endswith("@" + cid) for a in a1):
                        a1 = a1 | {PEER}
            if PEER not in a0 | a1:
                continue
            # only an Inet address has a scope id / flow label: a comparison on another arm of a match on the Addr is exempt
            other_arm = False
            for sbb, m, els, adt, pl in variant_edges(fb_, lambda p: True):
                if adt == "turmoil_net::kernel::socket::Addr" and "Inet" in m:
                    for v, e in list(m.items()) + [("else", els)]:
                        if v != "Inet" and e[1] != m["Inet"][1] and fb_.dominated_by_edge(bb, e):
                            other_arm = True
            if other_arm:
                continue
            n += 1
            side = a0 if PEER in a0 else a1
            ok = any(NEW.match(a) for a in side)
            ctx.inst(R, "udp-peer-filter:wire-form", ok, t["s"], "the stored peer is compared in its (ip, port) form" if ok else
                     "a connected UDP socket compares the peer address as the caller wrote it with the packet's (source ip, source port): with an IPv6 scope id or "
                     "flow label the peer's own datagrams are filtered out as `not from the peer`")
    ctx.inst(R, "index-key:found", n >= 3, "", f"{n} key sites analysed" if n >= 3 else f"only {n} demultiplexing key sites found (2 insert_connection + the UDP peer filter expected): re-derive")
    ctx.floor(R, 4)


def run(ctx):
    r7(ctx)
    r6(ctx)
    r1(ctx)
    r2(ctx)
    r3(ctx)
    r4(ctx)
    r5(ctx)
    C13.r2(ctx)
    C13.r3(ctx)   # a connect that fails (refused, timed out) closes the socket it auto-bound: no dead entry keeps an ephemeral binding
    C13.r1(ctx)   # a handshaking child that is aborted (RST or retransmit exhaustion) is reaped with its binding, whichever path aborted it
    C13.r10(ctx)  # a close always runs to Closed (every transition of the close handshake is implemented): a socket parked in CLOSING keeps its binding for ever
    C13.r4(ctx)   # closing a wildcard listener sweeps its half-open children: no orphan keeps the listener's port bound
    C19.r3(ctx)
