"""C11 - Sim::run succeeds exactly when every client finished Ok in time (structural part)."""
from .common import *

DECIDED = ("R1 no software error is dropped: every Result produced by Rt::tick / block_on(handle) / Sim::step / World::enter(tick) in "
           "turmoil::{sim,rt} is consumed by `?`, a match or the return value (the only swallow is the is_cancelled arm and the "
           "software-less topology runtime); R2 only clients decide completion: is_finished is updated only behind Rt::is_client; run "
           "returns Ok only on is_finished or when no client is registered; the duration error is raised under `elapsed > duration && "
           "!is_finished`, evaluated after elapsed has been advanced; R3 finished / crashed software is not polled again: Rt::tick is "
           "reached from step only for the `running` partition component (predicate Rt::is_software_running) and takes the join handle "
           "before awaiting it; R4 panics are forwarded: every tokio runtime and every LocalSet ever installed in an Rt comes from "
           "rt::init / rt::new_local, which set unhandled_panic(ShutdownRuntime), and the build enables tokio_unstable.")
NOT_DECIDED = "boundary timing of the duration check as numbers, tokio's behaviour when a runtime is shut down by a panic."
DECIDED += "; shared C04-R2: crash and bounce throw the old runtime and its leftover tasks away (finished software is never polled again)"
DECIDED += '; R5 the loop of Sim::run is left only on what Sim::step returned'
DECIDED += '; R2 also: the completion flag of step starts as the constant true; R5 also: run never asks itself whether software is running'
DECIDED += '; R1 also: the Result of a host tick is read on every path of the iteration'
DECIDED += '; R6 Config::duration is written only by Builder::simulation_duration'
ASSUMPTIONS = ["tokio unhandled_panic(ShutdownRuntime) makes block_on panic in the caller"]

STEP = "turmoil::sim::Sim::step"


def _uses(b, l):
    """statements / terminators that read local l (excluding its own definition and drops)"""
    out = []
    for bb in sorted(b.live_blocks()):
        for s in b.blocks[bb]["st"]:
            if "r" not in s:
                continue
            for o in _ops(s["r"]):
                if op_base(o) == l:
                    out.append(("stmt", bb, s))
            if isinstance(s["r"].get("p"), dict) and s["r"]["p"]["l"] == l:
                out.append(("stmt", bb, s))
        t = b.term(bb)
        if t["k"] == "call":
            for a in t["args"]:
                if op_base(a) == l:
                    out.append(("call", bb, t))
        elif t["k"] == "switch" and op_base(t["d"]) == l:
            out.append(("switch", bb, t))
    return out


def _ops(r):
    out = []
    for kk in ("o", "a", "b"):
        if kk in r and isinstance(r[kk], dict):
            out.append(r[kk])
    out += r.get("ops", [])
    return out


def r1(ctx):
    R = "C11-R1"
    ctx.rule(R, "result-consumption: for every call in crate turmoil's sim / rt / top modules whose destination has type Result<_, Box<dyn "
                "Error>> or Result<_, JoinError>, the value must be read (Try::branch, match, moved into the return value / another call); "
                "a result that is only dropped is a swallowed software error")
    allow = {"turmoil::top::Topology::tick_by": "the topology's own runtime has no software (Kind::NoSoftware, handle None): Rt::tick cannot fail there"}
    n = 0
    cnt = {}
    for b in sorted(ctx.w.bodies.values(), key=lambda b: b.id):
        if b.crate != "turmoil" or not re.match(r"^<?turmoil::(sim|rt|top)::", b.id):
            continue
        for bb, t in b.calls():
            if is_macro_noise(t) or t["d"].get("p"):
                continue
            dl = t["d"]["l"]
            ty = b.tys[b.locals[dl]["ty"]]
            if ty.get("adt") != "std::result::Result":
                continue
            es = b.tys[ty["args"][1]]["s"] if len(ty.get("args", [])) > 1 and isinstance(ty["args"][1], int) else ""
            if not ("dyn std::error::Error" in es or "JoinError" in es):
                continue
            if not re.search(r"^turmoil::|^tokio::runtime::Runtime::block_on$|^turmoil::world::World::enter$", t["f"]):
                continue
            n += 1
            k = f"{b.id}:{t['f'].rsplit('::', 1)[-1]}#{nth(cnt, (b.id, t['f']))}"
            if dl == 0:
                ctx.ok(R, k, t["s"], "result is the function's return value")
                continue
            us = _uses(b, dl)
            if us and b.id == STEP and t.get("t") is not None:
                # ... on every path: `flag = flag && result?` evaluates the `?` only while the flag is still true - the error of a later client
                # is dropped behind an unfinished one. Every path from the call to the end of the iteration (or of the function) reads the result
                ub = [x[1] for x in us]
                ends = b.exits(("return",)) + [x for x, t2 in b.calls(re.compile(r"Iterator>::next$|^std::iter::Iterator::next$")) if x in b.reachable(t["t"])]
                leaks = always_passes(b, ub, to_blocks=ends, frm=t["t"])
                if leaks:
                    ctx.bad(R, k, t["s"], f"the Result of `{t['f']}` in `{b.id}` is looked at on some paths only (a `?` behind a short-circuit): an Err returned by a client "
                            "that is ticked after a still-running one is never propagated - its handle is consumed, the client counts as finished and run() returns Ok")
                    continue
            if us:
                ctx.ok(R, k, t["s"], f"result consumed ({us[0][0]})")
            elif b.id in allow:
                ctx.info(R, k, t["s"], "allowed: " + allow[b.id])
            else:
                ctx.bad(R, k, t["s"], f"the Result of `{t['f']}` in `{b.id}` is never looked at (only dropped): an error returned by host or client software is swallowed and run() can succeed")
    # the only swallowed JoinError is the cancelled one (a crashed host's task)
    rt = ctx.body(R, "turmoil::rt::Rt::tick")
    if rt:
        te, fe = call_guard_edges(rt, re.compile(r"^tokio::task::JoinError::is_cancelled$|^tokio::runtime::task::JoinError::is_cancelled$|JoinError::is_cancelled$"))
        bo = [bb for bb, t in rt.calls("tokio::runtime::Runtime::block_on") if any("JoinHandle" in rt.tys[a]["s"] for a in t.get("at", ()))]
        ok = False
        if bo:
            # from the block_on result, every path to the Ok(true) return either passes Try::branch (propagation) or the is_cancelled true edge
            dl = rt.term(bo[0])["d"]["l"]
            br = [bb for bb, t in rt.calls(re.compile(r"Try>::branch$")) ]
            nxt = rt.term(bo[0])["t"]
            esc = rt.reachable(nxt, removed_blocks=br, removed_edges=te)
            leak = [x for x in esc if rt.term(x)["k"] == "return"]
            ok = bool(te) and not leak
        ctx.inst(R, "Rt::tick:only-cancelled-swallowed", ok, rt.span, "a join error is dropped only when it is the cancellation of a crashed host; everything else is propagated" if ok else
                 "Rt::tick has a path from the awaited software result to a normal return that neither propagates it with `?` nor is guarded by JoinError::is_cancelled: software errors / panics can be swallowed")
    ctx.floor(R, 5)


def r2(ctx):
    R = "C11-R2"
    ctx.rule(R, "Sim::step: writes of the local folded into the Ok result happen only behind the true edge of Rt::is_client; the duration "
                "error is guarded by Gt(Sim::elapsed, Config::duration) and !is_finished and the comparison is dominated by the elapsed += "
                "tick; Sim::run returns Ok(()) only behind is_finished == true or the no-client test")
    b = ctx.body(R, STEP)
    if b:
        okr = [s for bb, s in ret_aggs(b, "Ok")]
        fin = None
        if okr:
            fin = op_base(okr[0]["r"]["ops"][0])
            o = origin(b, okr[0]["r"]["ops"][0])
            if o["k"] == "place":
                fin = o["p"]["l"]
        if fin is None or not b.defs().get(fin):
            # `if is_finished { return Ok(true) } .. Ok(false)`: the results are constants, the flag is the local whose test guards Ok(true)
            fin = None
            okt = [bb for bb, s in ret_aggs(b, "Ok") if s["r"].get("ops") and (op_const(s["r"]["ops"][0]) or {}).get("v") == 1]
            for s2, te2, fe2, o2 in guards_on(b, lambda o: o["k"] == "place" and not o["p"].get("p")):
                if okt and te2 and all(b.dominated_by_any(x, edges=te2) for x in okt) and b.defs().get(o2["p"]["l"]):
                    fin = o2["p"]["l"]
        te, fe = call_guard_edges(b, "turmoil::rt::Rt::is_client")
        if fin is None:
            ctx.bad(R, "step:is_finished", b.span, "cannot identify the completion flag returned by step")
        else:
            wr = [(bb, s) for bb, i, s in b.all_stmts() if s["p"]["l"] == fin and not s["p"].get("p")]
            n = 0
            for bb, s in wr:
                c = op_const(s["r"].get("o")) if s["r"]["k"] == "use" else None
                if c is not None and c.get("v") == 1 and not any(True for e in te if b.dominated_by_edge(bb, e)) and b.dominated_by_block(bb, 0) and bb in b.reachable(0) and not b.pred(bb) or (c is not None and c.get("v") == 1 and len([x for x in wr]) and bb == min(x for x, _ in wr)):
                    continue   # initialisation `let mut is_finished = true`
                n += 1
                ok = bool(te) and b.dominated_by_any(bb, edges=te)
                ctx.inst(R, f"step:is_finished-write#{n}", ok, s["s"], "completion is folded only for clients" if ok else
                         "the completion flag is updated for a non-client: host software that never finishes prevents success (or finishing hosts end the run)")
            # the neutral element: before any client has been looked at the flag is `true` (a step that ticks no client - every client
            # already finished, only hosts left - reports completion, as the run that just succeeded did)
            alld = b.defs().get(fin, [])
            init = [d for d in alld if not (te and b.dominated_by_any(d[0], edges=te))]
            okinit = len(init) == 1 and init[0][1] != "term" and init[0][2]["r"]["k"] == "use" and (op_const(init[0][2]["r"].get("o")) or {}).get("v") == 1
            ctx.inst(R, "step:is_finished-starts-true", okinit, (init[0][2].get("s") if init else None) or b.span, "the completion flag starts as `true` and is only lowered by clients" if okinit else
                     "the completion flag of Sim::step does not start as the constant `true`: a step in which no client runs (all clients are done, hosts remain) reports "
                     "`not finished` - step() contradicts the run() that just returned Ok, and a later run() ends with the duration error although every client finished Ok in time")
            # folded value derives from the tick result
            ok2 = any("call:turmoil::world::World::enter" in Slicer(ctx.w).atoms(b, s["r"].get("o", {})) or
                      any(a.startswith("call:turmoil::world::World::enter") for a in Slicer(ctx.w).atoms(b, {"c": {"l": fin}})) for bb, s in wr)
            if not ok2:
                # control dependence: `if client && !finished { is_finished = false }`
                for bb, s in wr:
                    c = op_const(s["r"].get("o")) if s["r"]["k"] == "use" else None
                    if c is None or c.get("v") != 0:
                        continue
                    for sbb, t_ in switch_blocks(b):
                        if any(b.dominated_by_edge(bb, (sbb, x)) for x in b.succ(sbb)) and \
                                "call:turmoil::world::World::enter" in Slicer(ctx.w).atoms(b, t_["d"]):
                            ok2 = True
            ctx.inst(R, "step:is_finished-source", ok2, b.span, "completion derives from Rt::tick's result" if ok2 else "completion flag does not derive from Rt::tick's result")
        # duration error
        aa = [bb for bb, t in b.calls(re.compile(r"Duration as std::ops::AddAssign>::add_assign$")) if "field:turmoil::sim::Sim::elapsed" in Slicer(ctx.w).atoms(b, t["args"][0])]
        gts = []
        for sbb, t_e, f_e, o in guards_on(b, lambda o: o["k"] == "call" and re.search(r"PartialOrd>::gt$|PartialOrd::gt$|PartialOrd>::ge$|PartialOrd::ge$", o["t"]["f"])):
            a0 = Slicer(ctx.w).atoms(b, o["t"]["args"][0])
            a1 = Slicer(ctx.w).atoms(b, o["t"]["args"][1])
            if "field:turmoil::sim::Sim::elapsed" in a0 and "field:turmoil::config::Config::duration" in a1:
                gts.append((o["bb"], sbb, t_e, o["t"]))
        if not gts:
            ctx.bad(R, "step:deadline", b.span, "no `elapsed > duration` test in Sim::step")
        for cbb, sbb, t_e, t in gts:
            ok_gt = t["f"].endswith("gt")
            ok_after = bool(aa) and b.dominated_by_block(cbb, aa[0])
            errs = [bb for bb, tt in b.calls(re.compile(r"FromResidual>::from_residual$")) if b.dominated_by_any(bb, edges=t_e)]
            nf = []
            if fin is not None:
                for s2, te2, fe2, o2 in guards_on(b, lambda o: o["k"] == "place" and o["p"]["l"] == fin and not o["p"].get("p")):
                    nf += fe2
            ok_nf = bool(errs) and bool(nf) and all(b.dominated_by_any(x, edges=nf) for x in errs)
            ctx.inst(R, "step:deadline", ok_gt and ok_after and ok_nf, t["s"],
                     "times out exactly when elapsed > duration with a client unfinished, judged after the clock advanced" if ok_gt and ok_after and ok_nf else
                     "deadline check " + ("" if ok_gt else "is not `elapsed > duration`; ") + ("" if ok_after else "is evaluated before Sim::elapsed is advanced for this step (one extra step is granted); ") +
                     ("" if ok_nf else "does not require !is_finished"))
    r = ctx.body(R, "turmoil::sim::Sim::run")
    if r:
        oks = [bb for bb, i, s in r.all_stmts() if s["p"]["l"] == 0 and s["r"]["k"] == "agg" and s["r"].get("variant") == "Ok"]
        st = list(r.calls(STEP))
        ok = len(st) == 1
        good = []
        for sbb, te, fe, o in guards_on(r, lambda o: True):
            at = Slicer(ctx.w).atoms(r, r.term(sbb)["d"])
            if "call:" + STEP in at and not (origin(r, r.term(sbb)["d"])["k"] == "discr"):
                good += te
            if any(a.startswith("call:") and a.endswith("Iterator>::any") or a == "call:std::iter::Iterator::any" for a in at):
                good += fe if origin(r, r.term(sbb)["d"])["k"] == "not" or True else te
        ok2 = bool(oks) and all(r.dominated_by_any(x, edges=good) for x in oks)
        # the `?` on step
        br = [t for bb, t in r.calls(re.compile(r"Try>::branch$")) if "call:" + STEP in Slicer(ctx.w).atoms(r, t["args"][0])]
        ctx.inst(R, "run:ok-only-when-finished", ok and ok2 and bool(br), r.span, "run returns Ok only when step reported completion (or no client exists) and propagates step's error" if ok and ok2 and br else
                 "Sim::run can return Ok without step reporting completion, or does not propagate step's error")
    ctx.floor(R, 4)


def r3(ctx):
    R = "C11-R3"
    ctx.rule(R, "Sim::step calls Rt::tick only for elements of partition component 0 whose predicate is Rt::is_software_running; the loop over "
                "component 1 reaches no Rt::tick / block_on; Rt::tick takes the handle (Option::take) before block_on(handle) and awaits it "
                "only behind JoinHandle::is_finished; Rt::is_software_running is `handle.is_some()`")
    b = ctx.body(R, STEP)
    if b:
        parts = list(b.calls(re.compile(r"^std::iter::Iterator::partition$|Iterator>::partition$")))
        okp = False
        for bb, t in parts:
            for cid in closure_args(b, t):
                cb = ctx.w.bodies.get(cid)
                if cb:
                    rets = cb.defs().get(0, [])
                    if len(rets) == 1 and rets[0][1] == "term" and rets[0][2]["f"] == "turmoil::rt::Rt::is_software_running":
                        okp = True
        ctx.inst(R, "step:partition-predicate", okp, parts[0][1]["s"] if parts else b.span, "running / stopped split by Rt::is_software_running" if okp else
                 "hosts are not split by Rt::is_software_running (component 0 = running)")
        from .C05 import visits
        for v in (visits(ctx, b, parts[0][1]["d"]["l"]) if parts else []):
            t = {"s": v.site}
            ticks = [x for fb, x, tt in v.calls("turmoil::world::World::enter") if any(may_call(ctx.w, [c], "turmoil::rt::Rt::tick") for c in closure_args(fb, tt))]
            ticks += [x for fb, x, tt in v.calls(re.compile(r"Rt::tick$|Runtime::block_on$"))]
            comp = v.comp
            comp0, comp1 = comp == 0, comp == 1
            if comp1:
                ctx.inst(R, "step:stopped-never-polled", not ticks, t["s"], "stopped (finished / crashed) hosts are only clock-ticked, never polled" if not ticks else
                         "the loop over stopped hosts reaches Rt::tick / block_on: finished or crashed software is polled again")
            elif comp0:
                ctx.inst(R, "step:running-polled-once", len(ticks) == 1, t["s"], "each running host is polled once per step" if len(ticks) == 1 else f"running hosts are polled {len(ticks)} times per iteration")
            else:
                ctx.bad(R, "step:loop-domain", t["s"], "a host loop in step does not iterate a component of the running/stopped partition")
    rt = ctx.body(R, "turmoil::rt::Rt::tick")
    if rt:
        tk = [bb for bb, t in rt.calls(re.compile(r"^std::option::Option::take$")) if "field:turmoil::rt::Rt::handle" in Slicer(ctx.w).atoms(rt, t["args"][0])]
        bo = [(bb, t) for bb, t in rt.calls("tokio::runtime::Runtime::block_on") if any("JoinHandle" in rt.tys[a]["s"] for a in t.get("at", ()))]
        fin_te, _ = call_guard_edges(rt, re.compile(r"^tokio::task::JoinHandle::is_finished$"))
        ok = bool(tk) and bool(bo) and all(rt.dominated_by_any(x, blocks=tk) for x, _ in bo) and bool(fin_te) and all(rt.dominated_by_any(x, edges=fin_te) for x, _ in bo)
        ctx.inst(R, "Rt::tick:take-then-await", ok, rt.span, "the join handle is taken out before it is awaited, only once it is finished: a result is reported once" if ok else
                 "Rt::tick awaits the join handle without first taking it / without is_finished: a finished task is polled again or tick blocks")
    sr = ctx.body(R, "turmoil::rt::Rt::is_software_running")
    if sr:
        rets = sr.defs().get(0, [])
        ok = len(rets) == 1 and rets[0][1] == "term" and rets[0][2]["f"] == "std::option::Option::is_some" and "field:turmoil::rt::Rt::handle" in Slicer(ctx.w).atoms(sr, rets[0][2]["args"][0])
        ctx.inst(R, "is_software_running:handle.is_some", ok, sr.span, "running == handle.is_some()" if ok else "is_software_running is no longer `handle.is_some()`")
    ctx.floor(R, 5)


def r4(ctx):
    R = "C11-R4"
    ctx.rule(R, "panic forwarding: rt::init calls Builder::unhandled_panic, rt::new_local calls LocalSet::unhandled_panic (both present only "
                "under tokio_unstable - checked as a build fact); LocalSet::new is called only from rt::new_local and Builder::build only from "
                "rt::init in crate turmoil; every value stored into Rt::tokio / Rt::local derives from rt::init (no LocalSet::default / mem::take)")
    ini = ctx.body(R, "turmoil::rt::init")
    nl = ctx.body(R, "turmoil::rt::new_local")
    if ini:
        up = [bb for bb, t in ini.calls("tokio::runtime::Builder::unhandled_panic")]
        bd = [bb for bb, t in ini.calls("tokio::runtime::Builder::build")]
        ok = bool(up) and bool(bd) and all(ini.dominated_by_any(x, blocks=up) for x in bd)
        ctx.inst(R, "init:runtime-unhandled_panic", ok, ini.span, "runtime shuts down on an unhandled panic" if ok else
                 "rt::init builds the runtime without unhandled_panic(ShutdownRuntime): a panicking task is swallowed")
        ok2 = any(True for _ in ini.calls("turmoil::rt::new_local"))
        ctx.inst(R, "init:uses-new_local", ok2, ini.span, "init pairs the runtime with a LocalSet from new_local" if ok2 else "rt::init does not obtain its LocalSet from rt::new_local")
    if nl:
        up = [bb for bb, t in nl.calls("tokio::task::LocalSet::unhandled_panic")]
        ok = bool(up) and not always_passes(nl, up)
        ctx.inst(R, "new_local:unhandled_panic", ok, nl.span, "LocalSet shuts the runtime down on an unhandled panic" if ok else
                 "rt::new_local returns a LocalSet without unhandled_panic(ShutdownRuntime): panics in spawn_local tasks are swallowed")
    okf = "--cfg" in ctx.rustflags and "tokio_unstable" in ctx.rustflags
    ctx.inst(R, "build:tokio_unstable", okf, ".cargo/config.toml", "the build passes --cfg tokio_unstable (unhandled_panic is compiled in)" if okf else
             "the build does not pass --cfg tokio_unstable: unhandled_panic is compiled out")
    for b, bb, t in who_calls(ctx.w, re.compile(r"^tokio::task::LocalSet::new$|LocalSet as std::default::Default>::default$|^tokio::runtime::Builder::build$|^tokio::runtime::Runtime::new$")):
        if b.crate != "turmoil":
            continue
        okc = (t["f"].endswith("LocalSet::new") and b.id == "turmoil::rt::new_local") or (t["f"].endswith("Builder::build") and b.id == "turmoil::rt::init")
        ctx.inst(R, f"constructor:{b.id}:{t['f'].rsplit('::', 2)[-2]}::{t['f'].rsplit('::', 1)[-1]}", okc, t["s"], "constructed in the configured factory" if okc else
                 f"`{b.id}` constructs a runtime / LocalSet outside rt::init / rt::new_local (no panic forwarding)")
    # stores into Rt::tokio / Rt::local
    for b in sorted(ctx.w.bodies.values(), key=lambda b: b.id):
        if b.crate != "turmoil" or not b.id.startswith("turmoil::rt::"):
            continue
        for bb, t in b.calls(re.compile(r"^std::mem::(replace|take|swap)$")):
            a0 = Slicer(ctx.w).atoms(b, t["args"][0])
            for fld in ("turmoil::rt::Rt::local", "turmoil::rt::Rt::tokio"):
                if "field:" + fld in a0:
                    if (t["f"].endswith("replace") or t["f"].endswith("swap")) and len(t["args"]) > 1:
                        # (swap with a binding that holds the pair from rt::init installs that pair)
                        a1 = Slicer(ctx.w).atoms(b, t["args"][1])
                        ok = "call:turmoil::rt::init" in a1
                    else:
                        ok = False
                    ctx.inst(R, f"{b.id}:store-{fld.rsplit('::', 1)[1]}", ok, t["s"], "replaced by a value from rt::init" if ok else
                             f"`{b.id}` installs a {fld.rsplit('::', 1)[1]} that does not come from rt::init (e.g. mem::take -> Default): after a crash / bounce panics of that host are no longer forwarded")
        for bb, i, s in b.all_stmts():
            lf = place_last_field(s["p"])
            if lf in ("turmoil::rt::Rt::local", "turmoil::rt::Rt::tokio") and isinstance(s["p"]["p"][-1], dict) and s["p"]["p"][-1].get("f") in ("local", "tokio") and s["r"]["k"] == "use":
                ok = "call:turmoil::rt::init" in Slicer(ctx.w).atoms(b, s["r"]["o"])
                ctx.inst(R, f"{b.id}:store-{lf.rsplit('::', 1)[1]}", ok, s["s"], "assigned a value from rt::init" if ok else
                         f"`{b.id}` installs a {lf.rsplit('::', 1)[1]} that does not come from rt::init: after a crash / bounce panics of that host are no longer forwarded")
            if s["r"]["k"] == "agg" and s["r"].get("adt") == "turmoil::rt::Rt":
                m = dict(zip(s["r"]["fields"], s["r"]["ops"]))
                ok = all("call:turmoil::rt::init" in Slicer(ctx.w).atoms(b, m[f]) for f in ("tokio", "local"))
                ctx.inst(R, f"{b.id}:construct", ok, s["s"], "Rt built from rt::init's runtime and LocalSet" if ok else f"`{b.id}` builds an Rt whose runtime / LocalSet does not come from rt::init")
    ctx.floor(R, 9)


def r5(ctx):
    R = "C11-R5"
    ctx.rule(R, "run and step agree: Sim::run is `loop { if step()? { return Ok } }` - the loop is left only on what Sim::step returned (its Err, or "
                "Ok(true)); a second condition on the loop (elapsed <= duration) makes run report a timeout without stepping when it is entered "
                "after the duration has passed although every client finished Ok and step reports Ok(true)")
    b = ctx.body(R, "turmoil::sim::Sim::run")
    if not b:
        return
    STEP = "call:turmoil::sim::Sim::step"
    n = 0
    for comp in loops(b):
        if not any(bb in comp for bb, t in b.calls("turmoil::sim::Sim::step")):
            continue
        n += 1
        bad = []
        for u, v in loop_exits(b, comp):
            at = Slicer(ctx.w).atoms(b, b.term(u)["d"]) if b.term(u)["k"] == "switch" else set()
            if STEP not in at:
                bad.append(b.term(u).get("s", b.span))
        ctx.inst(R, "run:loop-left-only-on-step-verdict", not bad, bad[0] if bad else b.span, "the run loop ends only on step's Err or Ok(true)" if not bad else
                 "Sim::run's loop has an exit that does not depend on what Sim::step returned (a bound on elapsed / steps): entered with the clock already past the duration, "
                 "run returns the timeout error without stepping although all clients finished Ok - run and step disagree on the same Sim")
    # whether software is still running is step's business: the only thing run decides itself is "no client was ever registered"
    asks = [(fb, t) for fb in ctx.w.family(b.id) for bb, t in fb.calls(re.compile(r"^turmoil::rt::Rt::(is_software_running|is_software_finished)$|JoinHandle::is_finished$"))]
    ctx.inst(R, "run:shortcut-only-without-clients", not asks, asks[0][1]["s"] if asks else b.span, "run's own shortcut looks at the kind of the registered hosts only" if not asks else
             f"Sim::run consults `{asks[0][1]['f']}` itself: with every client finished it returns Ok without stepping, so a host error that falls into this run is never reported "
             "and run disagrees with step (which returns the error for the same state)")
    ctx.inst(R, "run:loop-found", n == 1, b.span, "one step loop in Sim::run" if n == 1 else f"{n} loops calling Sim::step found in Sim::run: re-derive")
    ctx.floor(R, 3)


def r6(ctx):
    R = "C11-R6"
    ctx.rule(R, "the deadline is the one the user configured: Config::duration is written only by Builder::simulation_duration (and Config's "
                "Default) - nothing between the builder and Sim::step adjusts it (rounding it up onto the tick grid grants one more step: the "
                "strict `elapsed > duration` test no longer fires at the end of the step that crosses the configured duration)")
    F = "turmoil::config::Config::duration"
    n = 0
    bad = []
    for b in sorted(ctx.w.bodies.values(), key=lambda x: x.id):
        if b.crate != "turmoil":
            continue
        root = b
        while root.parent and root.parent in ctx.w.bodies:
            root = ctx.w.bodies[root.parent]
        sites = [s2["s"] for bb, i, s2 in b.all_stmts() if i != "term" and place_last_field(s2["p"]) == F and s2["p"].get("p")]
        sites += [t["s"] for bb, t in b.calls(re.compile(r"(AddAssign|SubAssign|MulAssign)>::\w+_assign$|^std::mem::(replace|swap|take)$"))
                  if t["args"] and F in _flds(b, t["args"][0])]
        for st in sites:
            n += 1
            ok = root.id in ("turmoil::builder::Builder::simulation_duration", "<turmoil::config::Config as std::default::Default>::default")
            if not ok:
                bad.append((root.id, st))
    ctx.inst(R, "duration:written-only-by-its-setter", n > 0 and not bad, bad[0][1] if bad else "", "the configured duration reaches Sim::step unchanged" if n and not bad else
             (f"`{bad[0][0]}` rewrites Config::duration: the run is granted a deadline other than the configured one - a client that finishes in the step after the configured duration "
              "was crossed makes run() return Ok instead of the duration error" if bad else "no write of Config::duration found: re-derive"))
    ctx.floor(R, 1)


def _flds(b, op):
    o = deref_origin(b, op)
    return root_place(b, o["p"])[1] if o["k"] == "place" else []


def run(ctx):
    r6(ctx)
    r5(ctx)
    r1(ctx)
    r2(ctx)
    r3(ctx)
    r4(ctx)
    from . import C04
    C04.r2(ctx)   # finished / crashed software is never polled again: crash and bounce throw the old runtime (and its leftover tasks) away
