"""C04 - a crashed host stops dead, releases everything, and restarts cleanly (structural part)."""
from .common import *
from . import C02, C12

DECIDED = ("R1 crash sequence in Sim::crash: World::current is set to the host before World::enter; inside, Rt::crash, then (feature) "
           "Fs::crash, then (feature) IoUringHostState::crash are reached on every path (no early exit skips a hook); Sim::bounce enters "
           "the world with the host current around Rt::bounce; R2 all tasks are dropped: Rt::cancel_tasks replaces both Rt::tokio and "
           "Rt::local with fresh values from rt::init, Rt::crash reaches it whenever a handle existed and Rt::bounce unconditionally; R3 "
           "registration is RAII: every handle type that registers in a host table has a Drop that reaches its release call on every "
           "path inside the `context set` combinator (turmoil 4, turmoil-fs 1, turmoil-io-uring 1, turmoil-net 4); UdpSocket's drop "
           "leaves all groups under the address it joined with; R4 peers are told: WriteHalf drop sends FIN unless shut down, ReadHalf "
           "drop sends RST for unread data (shared C02-R2/R7); a half-open connect is released when its future is dropped by the crash "
           "(shared C12-R4) and the crashed sender's FIN always fits the peer's queue (shared C02-R4); R5 bounce starts the software "
           "exactly once per call and stores the handle; R6 per-host state is keyed by the host operated on (Sim::crash / step look the "
           "Fs / io_uring state up under the same address as the runtime; Host::new builds fresh Arcs).")
NOT_DECIDED = "that destructors of user tasks run (tokio's contract for dropping a runtime), prompt unblocking times."
DECIDED += "; R7 exhaustive scans: Sim::crash, Sim::run_with_hosts and IoUringHostState::crash visit every element"
DECIDED += "; R8 peers are told: an abandoned, already answered connect resets the peer's stream; a RST wakes a writer parked on flow control (recorded finding D32)"
DECIDED += '; R2 also: the FIN is remembered as EOF on both read paths (read and peek; shared C02-R3)'
DECIDED += "; R2 also: Rt::crash cancels the host's tasks on every path, whether or not the main future is still running; R9 crash / bounce drop the tasks with the host's filesystem entered (recorded finding D56); Fs::crash also drops the page cache (shared C07-R2)"
DECIDED += '; the RST / FIN a dying connection sends is addressed local -> remote (shared C02-R12)'
DECIDED += "; R5 also: the software factory is called inside the closure handed to rt::with; R10 = C05-R11 (the old incarnation's destructors run inside the *old* runtime); groups survive the drop of one member (shared C09-R12)"
DECIDED += '; R8 also: a dropped half removes the whole stream entry only after it sent the RST; the entered Fs is put back as it was found (shared C01-R8)'
DECIDED += '; abandoned connect requests neither count against the backlog nor strand a live request (shared C12-R8 / R9)'
ASSUMPTIONS = ["dropping a tokio Runtime and LocalSet drops every task they own"]


def _is_some_write(b, s, field):
    if place_last_field(s["p"]) != field:
        return False
    r = s["r"]
    if r["k"] == "agg":
        return r.get("variant") == "Some"
    if r["k"] == "use":
        o = origin(b, r["o"])
        return o["k"] == "agg" and o["r"].get("variant") == "Some"
    return False


def _root(ctx, b):
    while b.parent and b.parent in ctx.w.bodies:
        b = ctx.w.bodies[b.parent]
    return b


def r1(ctx):
    R = "C04-R1"
    ctx.rule(R, "Sim::crash: the write World::current = Some(h) dominates World::enter; in the entered closure Rt::crash is called on every "
                "path and dominates the subsystem hooks; the closure always reaches Fs::crash (and IoUringHostState::crash) when the "
                "features are on; Fs::crash precedes IoUringHostState::crash; Sim::bounce goes through run_with_hosts (sets current, enters)")
    b = ctx.body(R, "turmoil::sim::Sim::crash")
    if not b:
        return
    cur = [bb for bb, i, s in b.all_stmts() if _is_some_write(b, s, "turmoil::world::World::current")]
    ent = [(bb, t) for bb, t in b.calls("turmoil::world::World::enter")]
    via = [(bb, t) for bb, t in b.calls(re.compile(r"Sim::run_with_hosts$"))]
    if via and not ent:
        # accepted idiom: crash delegates the "set current, enter the world" part to run_with_hosts (checked below, shared with bounce)
        ctx.ok(R, "crash:current-before-enter", via[0][1]["s"], "crash runs inside run_with_hosts (current host set and world entered there)")
        ent = via
    else:
        ok = bool(cur) and len(ent) == 1 and b.dominated_by_any(ent[0][0], blocks=cur)
        ctx.inst(R, "crash:current-before-enter", ok, ent[0][1]["s"] if ent else b.span, "the crashed host is current while its tasks are dropped" if ok else
                 "Sim::crash does not set World::current to the host before entering the world: socket destructors of the dropped tasks cannot find their host")
    if not ent:
        return
    cls = [ctx.w.bodies[c] for c in closure_args(b, ent[0][1]) if c in ctx.w.bodies]
    for cb in cls:
        rc = [bb for bb, t in cb.calls("turmoil::rt::Rt::crash")]
        okrc = bool(rc) and not always_passes(cb, rc)
        ctx.inst(R, "crash:rt-crash-always", okrc, cb.span, "Rt::crash runs on every path of the crash closure" if okrc else
                 "a path through Sim::crash skips Rt::crash (tasks keep running)")
        has_fs = "turmoil_fs::Fs::crash" in ctx.w.bodies and any(True for _ in may_call(ctx.w, [cb.id], "turmoil_fs::Fs::crash"))
        if has_fs or (ctx.config in ("all", "fs", "fs_iou")):
            okfs = always_calls(ctx.w, cb, "turmoil_fs::Fs::crash", depth=3)
            ctx.inst(R, "crash:fs-hook-always", okfs, cb.span, "Fs::crash runs for every crashed host" if okfs else
                     "a path through Sim::crash skips the filesystem crash hook (e.g. an early return for a host whose software already finished): unsynced state survives the crash")
            # order: rt.crash dominates the hook call
            hooks = [bb for bb, t in cb.calls("turmoil::world::World::current") if any(may_call(ctx.w, [c], "turmoil_fs::Fs::crash") for c in closure_args(cb, t))]
            okord = bool(hooks) and all(cb.dominated_by_any(h, blocks=rc) for h in hooks)
            ctx.inst(R, "crash:tasks-before-fs", okord, cb.span, "tasks are cancelled before the filesystem rolls back" if okord else "Fs::crash can run before the host's tasks were cancelled")
        if ctx.config in ("all", "fs_iou"):
            okio = always_calls(ctx.w, cb, "turmoil_io_uring::host::IoUringHostState::crash", depth=3)
            ctx.inst(R, "crash:io_uring-hook-always", okio, cb.span, "io_uring rings are forgotten for every crashed host" if okio else "a path through Sim::crash skips IoUringHostState::crash")
            for fb in ctx.w.family(cb.id):
                f1 = [bb for bb, t in fb.calls("turmoil_fs::Fs::crash")]
                f2 = [bb for bb, t in fb.calls("turmoil_io_uring::host::IoUringHostState::crash")]
                if f1 and f2:
                    ctx.inst(R, "crash:fs-before-io_uring", all(fb.dominated_by_any(x, blocks=f1) for x in f2), fb.span, "Fs::crash precedes the io_uring crash")
    bo = ctx.body(R, "turmoil::sim::Sim::bounce")
    if bo:
        ok = any(True for _ in bo.calls(re.compile(r"Sim::run_with_hosts$"))) and bool(may_call(ctx.w, [bo.id], "turmoil::rt::Rt::bounce"))
        ctx.inst(R, "bounce:through-run_with_hosts", ok, bo.span, "bounce runs Rt::bounce inside run_with_hosts" if ok else "Sim::bounce no longer goes through run_with_hosts")
    rw = ctx.w.bodies.get("turmoil::sim::Sim::run_with_hosts")
    if rw:
        # (the per-host body may be the closure of `hosts.into_iter().for_each(..)`: the body that enters the world is looked at)
        ok = False
        for fb in ctx.w.family(rw.id):
            ent = [bb for bb, t in fb.calls("turmoil::world::World::enter")]
            if not ent:
                continue
            cur = [bb for bb, i, s in fb.all_stmts() if _is_some_write(fb, s, "turmoil::world::World::current")]
            ok = bool(cur) and all(fb.dominated_by_any(x, blocks=cur) for x in ent)
        ctx.inst(R, "run_with_hosts:current-before-enter", ok, rw.span, "host is current inside the entered world" if ok else "run_with_hosts does not set the current host before entering")
    ctx.floor(R, 4)


def r2(ctx):
    R = "C04-R2"
    ctx.rule(R, "Rt::cancel_tasks: mem::replace on &mut Rt::tokio and on &mut Rt::local with the pair returned by rt::init (both, on every "
                "path); Rt::crash calls it on the Some edge of handle.take(); Rt::bounce calls it unconditionally before spawning")
    ct = ctx.body(R, "turmoil::rt::Rt::cancel_tasks")
    if ct:
        rep = {}
        for bb, t in ct.calls(re.compile(r"^std::mem::replace$")):
            a0 = Slicer(ctx.w).atoms(ct, t["args"][0])
            a1 = Slicer(ctx.w).atoms(ct, t["args"][1])
            for f in ("tokio", "local"):
                if f"field:turmoil::rt::Rt::{f}" in a0 and "call:turmoil::rt::init" in a1:
                    rep[f] = bb
        # accepted idiom: `mem::swap(&mut self.tokio, &mut fresh)` with `fresh` from rt::init (the binding then holds the old value)
        for bb, t in ct.calls(re.compile(r"^std::mem::swap$")):
            a0 = Slicer(ctx.w).atoms(ct, t["args"][0])
            a1 = Slicer(ctx.w).atoms(ct, t["args"][1])
            for f in ("tokio", "local"):
                if (f"field:turmoil::rt::Rt::{f}" in a0 and "call:turmoil::rt::init" in a1) or (f"field:turmoil::rt::Rt::{f}" in a1 and "call:turmoil::rt::init" in a0):
                    rep[f] = bb
        for bb, i, s in ct.all_stmts():
            # accepted idiom: plain assignment `self.tokio = tokio` (the old value is dropped in place)
            lf = place_last_field(s["p"])
            for f in ("tokio", "local"):
                if lf == f"turmoil::rt::Rt::{f}" and isinstance(s["p"]["p"][-1], dict) and s["p"]["p"][-1].get("f") == f and s["r"]["k"] == "use":
                    if "call:turmoil::rt::init" in Slicer(ctx.w).atoms(ct, s["r"]["o"]):
                        rep[f] = bb
        for f in ("tokio", "local"):
            ok = f in rep and not always_passes(ct, [rep[f]])
            ctx.inst(R, f"cancel_tasks:replaces-{f}", ok, ct.span, f"Rt::{f} is replaced (its tasks are dropped)" if ok else
                     f"cancel_tasks does not replace Rt::{f} with a fresh one from rt::init: tasks owned by it survive the crash")
    cr = ctx.body(R, "turmoil::rt::Rt::crash")
    if cr:
        c = [bb for bb, t in cr.calls("turmoil::rt::Rt::cancel_tasks")]
        tk = [bb for bb, t in cr.calls(re.compile(r"^std::option::Option::take$")) if "field:turmoil::rt::Rt::handle" in Slicer(ctx.w).atoms(cr, t["args"][0])]
        # nothing of the host survives a crash: the handle is taken and the tasks are cancelled on every path that returns - also when the
        # main future has already returned (Rt::tick took the handle then) and only tasks it spawned are left, owning sockets
        ok = bool(c) and bool(tk) and not always_passes(cr, tk) and not always_passes(cr, c)
        ctx.inst(R, "Rt::crash:cancels", ok, cr.span, "crash takes the handle and cancels all tasks, whether or not the main future is still running" if ok else
                 "Rt::crash has a path that returns without cancelling the host's tasks (e.g. only when the main future's handle is still there): a crash of a host whose "
                 "software has returned leaves the tasks it spawned, and the sockets they own, in place - a listener in a spawned accept loop stays bound and connects to it hang")
    bo = ctx.body(R, "turmoil::rt::Rt::bounce")
    if bo:
        c = [bb for bb, t in bo.calls("turmoil::rt::Rt::cancel_tasks")]
        ok = bool(c) and not always_passes(bo, c)
        ctx.inst(R, "Rt::bounce:cancels", ok, bo.span, "bounce cancels the old tasks on every path" if ok else "Rt::bounce has a path that does not cancel the old tasks")
    ctx.floor(R, 4)


# handle type -> (context combinator, release call pattern)
RAII = [
    ("turmoil::net::udp::UdpSocket", "turmoil::world::World::current_if_set", re.compile(r"host::Udp::unbind$")),
    ("turmoil::net::udp::UdpSocket", "turmoil::world::World::current_if_set", re.compile(r"MulticastGroups::leave_all$")),
    ("turmoil::net::tcp::listener::TcpListener", "turmoil::world::World::current_if_set", re.compile(r"host::Tcp::unbind$")),
    ("turmoil::net::tcp::stream::ReadHalf", "turmoil::world::World::current_if_set", re.compile(r"host::Tcp::(reset_stream|close_stream_half)$")),
    ("turmoil::net::tcp::stream::WriteHalf", "turmoil::world::World::current_if_set", re.compile(r"host::Tcp::(reset_stream|close_stream_half)$")),
    ("turmoil_net::shim::tokio::net::tcp::stream::TcpStream", "turmoil_net::sys", re.compile(r"Kernel::close$")),
    ("turmoil_net::shim::tokio::net::tcp::listener::TcpListener", "turmoil_net::sys", re.compile(r"Kernel::close$")),
    ("turmoil_net::shim::tokio::net::udp::UdpSocket", "turmoil_net::sys", re.compile(r"Kernel::close$")),
]
RAII_FS = [
    ("turmoil_fs::shim::std::fs::File", "turmoil_fs::FsContext::current_if_set", re.compile(r"IndexMap::(swap_remove|shift_remove|remove)$")),
    ("turmoil_io_uring::runtime::IoUring", "turmoil_io_uring::host::IoUringContext::current_if_set", re.compile(r"IndexMap::(swap_remove|shift_remove|remove)$")),
]


def r3(ctx):
    R = "C04-R3"
    ctx.rule(R, "pairing table acquire -> handle type -> release: for each handle type its Drop::drop reaches the release call on every "
                "path of the closure run by the once-or-never context combinator (or directly); UdpSocket::drop passes leave_all the "
                "address computed by destination_address (the key memberships are stored under)")
    table = list(RAII) + (list(RAII_FS) if ctx.config in ("all", "fs", "fs_iou") else [])
    for adt, comb, rel in table:
        if adt not in ctx.w.adts:
            if ctx.strict and not adt.startswith(("turmoil_fs", "turmoil_io_uring")):
                ctx.bad(R, f"anchor-missing:{adt}", "", f"handle type `{adt}` not found")
            elif ctx.strict and ctx.config == "all":
                ctx.bad(R, f"anchor-missing:{adt}", "", f"handle type `{adt}` not found")
            continue
        d = ctx.w.drop_impl(adt)
        key = f"{adt}:{rel.pattern.split('::')[-1].rstrip('$')}"
        if not d:
            ctx.bad(R, key, ctx.w.adts[adt].get("span", ""), f"`{adt}` has no Drop impl: what it registered is never released when a crashed host's tasks are dropped")
            continue
        db = ctx.w.bodies[d]
        ok = always_calls(ctx.w, db, rel, depth=3)
        if not ok:
            # once-or-never combinator: the closure must always release
            for bb, t in db.calls():
                if callee_matches(t, comb) or is_maybe_combinator(t) or is_once_combinator(t):
                    if always_passes(db, [bb]):
                        continue
                    for cid in closure_args(db, t):
                        cb = ctx.w.bodies.get(cid)
                        if cb and always_calls(ctx.w, cb, rel, depth=3):
                            ok = True
        ctx.inst(R, key, ok, db.span, "Drop releases on every path" if ok else f"Drop for `{adt}` has a path that does not reach its release ({rel.pattern})")
    ud = ctx.w.drop_impl("turmoil::net::udp::UdpSocket")
    if ud:
        okarg = False
        for fb in ctx.w.family(ud):
            for bb, t in fb.calls(re.compile(r"MulticastGroups::leave_all$")):
                at = Slicer(ctx.w).atoms(fb, t["args"][1])
                okarg = any(a.startswith("call:turmoil::net::udp::destination_address") or a.endswith("::destination_address") for a in at)
        ctx.inst(R, "turmoil::net::udp::UdpSocket:leave_all-key", okarg, ctx.w.bodies[ud].span, "leave_all is keyed by destination_address(world, self), the key join used" if okarg else
                 "Drop for UdpSocket leaves groups under a different address than the one memberships are stored under: a dropped socket stays a member")
    ctx.floor(R, 8)


def r4(ctx):
    R = "C04-R4"
    ctx.rule(R, "Drop for WriteHalf: from the `!is_shutdown` edge every path either fails to obtain a sequence number (stream already reset) or "
                "reaches WriteHalf::send with a Segment::Fin - no other condition (runtime context, peer state) may skip the FIN; "
                "close_stream_half follows on every path")
    d = ctx.w.drop_impl("turmoil::net::tcp::stream::WriteHalf")
    if not d:
        ctx.bad(R, "writehalf-drop", "", "WriteHalf has no Drop impl")
        return
    SEND = re.compile(r"WriteHalf::send$|send_segment$|World::send_message$|stream::send_loopback$")

    def seq_err_edges(xb):
        """the edges on which no sequence number could be obtained (stream already reset): Err of WriteHalf::seq, incl. its `?`"""
        out = []
        for sbb, m, els, adt, pl in variant_edges(xb, lambda p: True):
            o = origin(xb, {"c": {"l": pl["l"]}}) if not pl.get("p") else {"k": "?"}
            if adt == "std::result::Result" and o.get("k") == "call" and o["t"]["f"].endswith("WriteHalf::seq"):
                out += [e for v, e in m.items() if v == "Err"] + ([els] if "Err" not in m else [])
            if adt == "std::ops::ControlFlow" and o.get("k") == "call" and o["t"]["f"].endswith("Try>::branch"):
                o2 = origin(xb, o["t"]["args"][0])
                if o2.get("k") == "call" and o2["t"]["f"].endswith("WriteHalf::seq"):
                    out += [e for v, e in m.items() if v == "Break"]
            if adt == "std::option::Option" and not pl.get("p") and ("None" in m or "Some" in m):
                # `let fin_seq = if self.is_shutdown { None } else { self.seq(world).ok() }; if let Some(seq) = fin_seq { send }`:
                # on the paths that asked for a sequence number, None is the Err of WriteHalf::seq
                l = pl["l"]
                d1 = xb.defs().get(l, [])
                if len(d1) == 1 and d1[0][1] != "term" and d1[0][2]["r"]["k"] == "use" and op_place(d1[0][2]["r"]["o"]) and not op_place(d1[0][2]["r"]["o"]).get("p"):
                    l = op_place(d1[0][2]["r"]["o"])["l"]
                for dd in xb.defs().get(l, []):
                    if dd[1] == "term" and dd[2]["k"] == "call" and dd[2]["f"].endswith("Result::ok"):
                        o3 = origin(xb, dd[2]["args"][0])
                        if o3.get("k") == "call" and o3["t"]["f"].endswith("WriteHalf::seq"):
                            out.append(m.get("None") or els)
        return out

    def fin_wrappers():
        """methods of WriteHalf that send the FIN unless no sequence number is available (a helper shared by shutdown and drop)"""
        out = set()
        for cb in ctx.w.find(r"^turmoil::net::tcp::stream::WriteHalf::\w+$"):
            ss = [bb for bb, t in cb.calls(SEND)]
            fins = any(s2["r"]["k"] == "agg" and s2["r"].get("variant") == "Fin" for bb, i, s2 in cb.all_stmts() if i != "term")
            if ss and fins and not always_passes(cb, ss, through_edges=seq_err_edges(cb)):
                out.add(cb.id)
        return out
    wrappers = fin_wrappers()
    for fb in ctx.w.family(d):
        sh = []
        for sbb, te, fe, o in guards_on(fb, lambda o: o["k"] == "place" and place_has_field(o["p"], "turmoil::net::tcp::stream::WriteHalf::is_shutdown")):
            sh += fe
        if not sh:
            continue
        sends = [bb for bb, t in fb.calls(SEND)] + [bb for bb, t in fb.calls() if t["f"] in wrappers]
        # allowed skip: the Err edge of self.seq(world)
        seq_err = seq_err_edges(fb)
        leak = always_passes(fb, sends, frm=sh[0][1], through_edges=seq_err)
        ok = bool(sends) and not leak
        ctx.inst(R, "writehalf-drop:fin-unless-shutdown", ok, fb.span, "an open write half always announces its end with a FIN when dropped" if ok else
                 "Drop for WriteHalf has a path on which an un-shut-down write half sends no FIN although a sequence number was available: the peer's reads hang instead of seeing EOF")
        ch = [bb for bb, t in fb.calls("turmoil::host::Tcp::close_stream_half")]
        ctx.inst(R, "writehalf-drop:releases", bool(ch) and not always_passes(fb, ch), fb.span, "the stream half is released on every path")
    ctx.floor(R, 2)


def r5(ctx):
    R = "C04-R5"
    ctx.rule(R, "Rt::bounce and Rt::host: exactly one call of the boxed software factory per non-panicking path, its future passed to "
                "spawn_local inside rt::with, and the JoinHandle stored into Rt::handle")
    for fid in ("turmoil::rt::Rt::bounce", "turmoil::rt::Rt::host"):
        b = ctx.body(R, fid)
        if not b:
            continue
        fam = list(ctx.w.family(b.id))
        # the start sequence may live in a private helper of the module (`spawn_software(tokio, local, software)`): one level is looked through
        helpers = [(bb, ctx.w.bodies[t["f"]]) for bb, t in b.calls(re.compile(r"^turmoil::rt::\w+$")) if t["f"] in ctx.w.bodies and t["f"] != "turmoil::rt::with" and
                   any(True for hb in ctx.w.family(t["f"]) for _ in hb.calls("turmoil::rt::with"))]
        for hbb, hb in helpers:
            fam += [x for x in ctx.w.family(hb.id) if x not in fam]
        fc = []
        sp = []
        for fb in fam:
            for bb, t in fb.calls(re.compile(r"std::boxed::Box as std::ops::Fn>::call$|Fn>::call$")):
                if not str(t.get("x", "")).startswith("m:"):
                    fc.append((fb, bb))
            for bb, t in fb.calls(re.compile(r"^tokio::task::spawn_local$")):
                sp.append((fb, bb, t))
        w = [bb for bb, t in b.calls("turmoil::rt::with")] + [hbb for hbb, hb in helpers]
        ok = len(fc) == 1 and len(sp) == 1 and len(w) == 1
        # the factory is host code: its synchronous prefix must run inside the host's runtime like the future it returns (outside, tokio's
        # Instant::now() is the wall clock) - the call sits in the closure handed to rt::with, not in the function itself
        withs = [(xb, t) for xb in [b] + [hb for _, hb in helpers] for bb, t in xb.calls("turmoil::rt::with")]
        inside = ok and all(any(fb.id in closure_args(xb, t) or any(fb.id.startswith(cid) for cid in closure_args(xb, t)) for xb, t in withs) for fb, bb in fc)
        if ok and not inside:
            ctx.inst(R, f"{fid}:factory-inside-runtime", False, b.span, f"`{fid}` calls the software factory outside the closure it hands to rt::with: the synchronous part of the "
                     "factory runs on the bare thread, where tokio::time::Instant::now() is the machine's wall clock - a start time taken there differs in every execution")
        elif ok:
            ctx.ok(R, f"{fid}:factory-inside-runtime", b.span, "the factory runs inside the host's runtime")
        if fid.endswith("bounce") and ok:
            # the `with` call must be on every path where kind is Host (bounce panics otherwise)
            st = [bb for bb, t in b.calls(re.compile(r"^std::option::Option::(replace|insert)$")) if "field:turmoil::rt::Rt::handle" in Slicer(ctx.w).atoms(b, t["args"][0])]
            st += [bb for bb, i, s2 in b.all_stmts() if place_last_field(s2["p"]) == "turmoil::rt::Rt::handle" and s2["p"]["p"][-1].get("f") == "handle"
                   and "call:turmoil::rt::with" in Slicer(ctx.w).atoms(b, s2["r"].get("o", {}))]
            ok = bool(st) and all(b.dominated_by_block(x, w[0]) for x in st)
        ctx.inst(R, f"{fid}:starts-once", ok, b.span, "software factory called once, spawned once, handle stored" if ok else
                 f"`{fid}`: the software factory is not called exactly once and spawned exactly once per call ({len(fc)} factory call(s), {len(sp)} spawn(s))")
    ctx.floor(R, 4)


def r6(ctx):
    R = "C04-R6"
    ctx.rule(R, "per-host keying: in Sim::crash the hosts entry whose Fs / io_uring state is crashed is looked up with World::current, written "
                "from the same `h` that selects rts[h]; in Sim::step fs_arc / iou_arc and the ticked runtime derive from the loop key addr; "
                "Host::new creates the Fs / IoUringHostState behind fresh Arc::new")
    b = ctx.body(R, "turmoil::sim::Sim::crash")
    if b and ctx.config in ("all", "fs", "fs_iou"):
        ok = False
        for fb in ctx.w.family(b.id):
            for bb, t in fb.calls(re.compile(r"^indexmap::IndexMap::get_mut$")):
                a0 = Slicer(ctx.w).atoms(fb, t["args"][0])
                a1 = Slicer(ctx.w).atoms(fb, t["args"][1])
                if "field:turmoil::world::World::hosts" in a0 and "field:turmoil::world::World::current" in a1:
                    ok = True
        ctx.inst(R, "crash:fs-of-current-host", ok, b.span, "the crashed Fs is the current host's" if ok else "Sim::crash does not look the Fs up by World::current")
    st = ctx.body(R, "turmoil::sim::Sim::step")
    if st and ctx.config in ("all", "fs", "fs_iou"):
        gets = [t for bb, t in st.calls(re.compile(r"^indexmap::IndexMap::get$")) if "field:turmoil::world::World::hosts" in Slicer(ctx.w).atoms(st, t["args"][0])]
        ok = bool(gets) and all("field:(tuple)::0" in Slicer(ctx.w).atoms(st, t["args"][1]) for t in gets)
        ctx.inst(R, "step:state-of-loop-host", ok, st.span, "per-host fs / io_uring state is fetched under the loop's own address" if ok else
                 "Sim::step enters fs / io_uring state that is not looked up under the address of the runtime being ticked")
    hn = ctx.body(R, "turmoil::host::Host::new")
    if hn and ctx.config in ("all", "fs", "fs_iou"):
        an = [t for bb, t in hn.calls(re.compile(r"^std::sync::Arc::new$"))]
        fsn = any(True for _ in hn.calls(re.compile(r"^turmoil_fs::Fs::new$")))
        ctx.inst(R, "Host::new:fresh-state", len(an) >= 1 and fsn, hn.span, "each host gets a freshly constructed Fs behind its own Arc" if an and fsn else "Host::new does not construct a fresh Fs / Arc per host")
    ctx.floor(R, 1)


def r8(ctx):
    R = "C04-R8"
    ctx.rule(R, "peers of a host that goes away are told: (a) a connect that is abandoned (its host crashes, the future is dropped, it times "
                "out) after the listener already answered the SYN leaves an *established* stream on the peer - so ConnectGuard::drop must "
                "look at the acknowledgement and send a RST (World::send_message / send_loopback with Segment::Rst) before it removes the "
                "local entry; (b) the RST arm of Tcp::receive_from_network, which removes the socket, wakes a writer parked on flow-control "
                "credits (a call on the removed socket's flow control), otherwise a peer blocked in write never learns the connection is gone")
    gd = ctx.w.drop_impl("turmoil::net::tcp::stream::ConnectGuard")
    if not gd:
        if ctx.strict:
            ctx.bad(R, "anchor-missing:ConnectGuard::drop", "", "Drop for ConnectGuard not found")
    else:
        sends = False
        for fb in ctx.w.family(gd):
            for bb, t in fb.calls(re.compile(r"World::send_message$|tcp::stream::send_loopback$")):
                if any(s["r"]["k"] == "agg" and s["r"].get("adt") == "turmoil::envelope::Segment" and s["r"].get("variant") == "Rst" for _, _, s in fb.all_stmts()):
                    sends = True
        ctx.inst(R, "connect-guard:tells-the-peer", sends, ctx.w.bodies[gd].span, "an abandoned connect that was already answered resets the peer's stream" if sends else
                 "ConnectGuard::drop only removes the local stream-table entry: when the listener has already fired the SYN-ACK (accept() returned an established stream) "
                 "and the connecting host then crashes or drops the future, the peer is never told - its read blocks for the rest of the run")
    # (c) a dropped half takes the whole stream entry away (Tcp::reset_stream, which also silences the sibling half's FIN) only on
    # a path on which it has sent the RST itself; every other path releases its own half (close_stream_half) so that the write
    # half still finds the socket and sends the FIN
    for adt in ("turmoil::net::tcp::stream::ReadHalf", "turmoil::net::tcp::stream::WriteHalf"):
        hd = ctx.w.drop_impl(adt)
        if not hd:
            if ctx.strict:
                ctx.bad(R, f"anchor-missing:{adt}::drop", "", f"Drop for {adt} not found")
            continue
        k = 0
        for fb in ctx.w.family(hd):
            rst_blocks = [bb for bb, t in fb.calls(re.compile(r"World::send_message$|tcp::stream::send_loopback$"))
                          if any(re.search(r"Segment::Rst$|variant:Rst$|agg:turmoil::envelope::Segment::Rst", a) for a in Slicer(ctx.w).atoms(fb, t["args"][-1]))]
            if not rst_blocks:
                rst_def = [bb for bb, i, st in fb.all_stmts() if st["r"]["k"] == "agg" and st["r"].get("adt") == "turmoil::envelope::Segment" and st["r"].get("variant") == "Rst"]
                rst_blocks = [bb for bb, t in fb.calls(re.compile(r"World::send_message$|tcp::stream::send_loopback$")) if rst_def and fb.dominated_by_any(bb, blocks=rst_def)]
            for bb, t in fb.calls("turmoil::host::Tcp::reset_stream"):
                ok = bool(rst_blocks) and fb.dominated_by_any(bb, blocks=rst_blocks)
                ctx.inst(R, f"half-drop:{adt.rsplit('::', 1)[1]}:whole-entry-only-after-rst#{k}", ok, t["s"], "the stream entry is torn down only after the RST was sent" if ok else
                         f"Drop for {adt.rsplit('::', 1)[1]} removes the whole stream entry (reset_stream) on a path that has not sent a RST: the sibling write half no longer finds the "
                         "socket, sends no FIN, and a peer that half-closed and is waiting for the answer stays blocked in read after this host crashed")
                k += 1
    rf = ctx.body(R, "turmoil::host::Tcp::receive_from_network")
    if rf:
        rst = [m["Rst"] for sbb, m, els, adt, pl in variant_edges(rf, lambda p: True) if adt == "turmoil::envelope::Segment" and "Rst" in m]
        wakes = False
        if rst:
            for x in rf.reachable(rst[0][1]):
                if not rf.dominated_by_edge(x, rst[0]):
                    continue
                t = rf.term(x)
                if t["k"] == "call" and in_repo(t["f"]) and any("field:turmoil::host::StreamSocket::flow_control" in Slicer(ctx.w).atoms(rf, a) or
                                                                  "FlowControl" in rf.tys[i]["s"] for a, i in zip(t["args"], t.get("at", [None] * len(t["args"])) ) if i is not None or True):
                    if any("field:turmoil::host::StreamSocket::flow_control" in Slicer(ctx.w).atoms(rf, a) for a in t["args"]):
                        wakes = True
        dropw = any(ctx.w.drop_impl(a) for a in ("turmoil::host::StreamSocket", "turmoil::net::tcp::stream::FlowControl", "turmoil::net::tcp::stream::BidiFlowControl"))
        ok = wakes or dropw
        ctx.inst(R, "rst:wakes-blocked-writer", ok, rf.term(rst[0][1]).get("s", rf.span) if rst else rf.span, "a RST wakes the write side" if ok else
                 "the Rst arm removes the socket without touching its flow control: a peer that used up its credits and is parked in write is never woken "
                 "(write-only peer of a crashed host: hangs after the crash, and after the bounce although its table entry is gone)")
    ctx.floor(R, 2)


def r9(ctx):
    R = "C04-R9"
    ctx.rule(R, "a crashed or bounced host's tasks are dropped in the same environment they were polled in: Sim::step enters the host's "
                "filesystem (turmoil_fs::enter; with the ring feature turmoil_io_uring::host::enter) around Rt::tick; the destructors that "
                "Rt::crash / Rt::bounce run (a BufWriter flushing, a lock-file guard removing its file) use the same thread-locals, so the "
                "functions of Sim that call Rt::crash / Rt::bounce must enter the host's filesystem first. Without it the first such destructor "
                "panics (`no Fs is current`; tokio swallows one panic per task: the work is silently not done), a second one in the same task "
                "aborts the process")
    if ctx.config not in ("all", "fs", "fs_iou"):
        ctx.info(R, "feature-off", "", "unstable-fs not enabled in this configuration: nothing to analyse")
        return
    ENTER = re.compile(r"^turmoil_fs::enter$")
    n = 0
    bad = []
    for b in sorted(ctx.w.bodies.values(), key=lambda b: b.id):
        if not b.id.startswith("turmoil::sim::Sim::") or "::tests::" in b.id:
            continue
        for bb, t in b.calls(re.compile(r"^turmoil::rt::Rt::(crash|bounce)$")):
            n += 1
            root = b
            while root.parent and root.parent in ctx.w.bodies:
                root = ctx.w.bodies[root.parent]
            # entered here, or in the function that runs this closure (run_with_hosts) before it calls the closure
            ok = any(b.dominated_by_block(bb, eb) for eb, _ in b.calls(ENTER))
            if not ok:
                for fb in ctx.w.family(root.id):
                    if any(True for _ in fb.calls(ENTER)):
                        ok = True
                if not ok:
                    for cb, cbb, ct in who_calls(ctx.w, root.id):
                        pass
                    # helpers the root hands the closure to
                    for hb_, hbb, ht in [(root, x, y) for x, y in root.calls(re.compile(r"^turmoil::sim::Sim::"))]:
                        hb = ctx.w.bodies.get(ht["f"])
                        if hb and any(True for fb in ctx.w.family(hb.id) for _ in fb.calls(ENTER)):
                            ok = True
            if not ok:
                bad.append((root.id, t["f"].rsplit("::", 1)[1], t["s"]))
    ctx.inst(R, "tasks-dropped-with-fs-entered", n >= 2 and not bad, bad[0][2] if bad else "", f"{n} crash / bounce sites run with the host's filesystem entered" if n >= 2 and not bad else
             (f"`{bad[0][0]}` calls Rt::{bad[0][1]} - which drops the host's tasks and runs their destructors - without entering the host's filesystem "
              f"({len(bad)} of {n} sites): a destructor that touches the fs panics with `no Fs is current`, the flush / lock-file removal is silently lost on a bounce, "
              "and two such destructors in one task abort the process" if bad else f"only {n} Rt::crash / Rt::bounce call sites found in Sim: re-derive"))
    ctx.floor(R, 1)


def run(ctx):
    from . import C09
    C09.r12(ctx)  # a socket dropped by the crash leaves its groups without taking the other members with it
    from . import C05
    C05.r11(ctx, R="C04-R10")   # the old incarnation's destructors run inside the *old* runtime: nothing they spawn survives into the next one
    r9(ctx)
    if ctx.config in ("all", "fs", "fs_iou"):
        from . import C07
        C07.r2(ctx)   # Fs::crash leaves nothing of the old incarnation behind: pending log, unsynced entries, page cache
    r8(ctx)
    scan_rule(ctx, "C04")
    r1(ctx)
    r2(ctx)
    r3(ctx)
    r4(ctx)
    r5(ctx)
    r6(ctx)
    C02.r3(ctx)   # the crashed host's FIN is remembered as EOF on both read paths (read and peek): a peer is unblocked for good
    C02.r2(ctx)   # R4: FIN on drop unless shut down
    C02.r7(ctx)   # R4: RST only for unread data
    C02.r4(ctx)   # the crashed sender's FIN fits the peer's receive queue
    C02.r12(ctx)  # the RST of a connect abandoned by a crash goes from the connector to the acceptor (source / destination not swapped)
    C12.r4(ctx)   # a half-open connect is released when the crash drops its future
    C12.r8(ctx)   # requests abandoned by a crashed connector do not count against the backlog (a panic in step takes every host down)
    C12.r9(ctx)   # ... and do not strand a live request behind them: accept parks only on an empty queue
    from . import C01
    C01.r8(ctx)   # a scoped context (the entered Fs) is put back exactly as it was found: a guard that leaves the slot set hands the next host's destructors somebody else's filesystem
