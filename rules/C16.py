"""C16 - turmoil-net never exceeds its buffer caps, the MSS or the peer's window (bounded-write rules)."""
from .common import *

DECIDED = ("R1 Tcb::send_buf grows only in tcp::poll_send, by min(buf.len(), send_buf_cap - len) bytes, and a full buffer parks and "
           "returns Pending; R2 Tcb::recv_buf grows only in handle_established, by min(payload.len(), recv_buf_cap - len); R3 "
           "segment_one cuts payloads to unsent.min(mss).min(snd_wnd - in_flight) with mss = mtu(of the source ip) - ip header - tcp "
           "header, advances snd_nxt by that length and emits a FIN only when window remains; R4 udp::send_to pushes only behind the "
           "false edge of `len > max_payload` and the true edge returns EMSGSIZE; R5 windows advertised on an existing connection "
           "come from advertised_window(recv_cap, recv_buf.len()).")
NOT_DECIDED = "the numeric invariants over all interleavings (they follow from R1-R5 only together with arithmetic we do not prove)."
DECIDED += "; R3 also: the window operand of the min chain is snd_wnd minus the bytes in flight"
DECIDED += "; R7 snd_wnd follows only ACKs that are not behind snd_una; every data segment carries bytes (unsent, MSS and remaining window all tested > 0)"
DECIDED += "; R1 / R2 also: the room is the cap minus the buffer's whole len(); R4 also: UDP and TCP choose the loopback MTU under the same predicate"
DECIDED += '; R4 also: the datagram length is compared at full width (no narrowing cast); R5 re-derived: SYN / SYN-ACK and their retransmissions advertise advertised_window(recv_buf_cap, 0), no constant; R7 also: a segment that does not advance snd_una may only widen snd_wnd'
DECIDED += "; R5 also: the occupancy handed to advertised_window is the receive buffer's own len()"
DECIDED += "; R8 the fabric's KernelConfig is only read after construction (every host gets a copy)"
DECIDED += '; no raw sequence number is widened before window arithmetic (shared C06-R16)'
DECIDED += '; R9 a Kernel field that has a namesake in KernelConfig is initialised from it'
ASSUMPTIONS = ["usize::min / saturating_sub semantics"]

T = "turmoil_net::kernel::socket::Tcb::"
K = "turmoil_net::kernel::Kernel::"
GROW = re.compile(r"^bytes::BytesMut::(extend_from_slice|put_slice|put|extend|put_u8|resize|unsplit|reserve)$|BytesMut as (bytes::BufMut|std::iter::Extend)>::")


def _on_field(b, op, field):
    o = deref_origin(b, op)
    if o["k"] == "place":
        _, fields = root_place(b, o["p"])
        return field in fields
    return False


def _grow_sites(ctx, field):
    out = []
    for b in sorted(ctx.w.bodies.values(), key=lambda b: b.id):
        if b.crate != "turmoil_net":
            continue
        for bb, t in b.calls(GROW):
            if t["args"] and _on_field(b, t["args"][0], field) and not t["f"].endswith("reserve"):
                out.append((b, bb, t))
    return out


def _bounded(ctx, b, t, cap_field, buf_field):
    """slice length derives from min(.., cap.saturating_sub(buf.len()))"""
    at = Slicer(ctx.w).atoms(b, t["args"][1])
    has_min = any(re.search(r"call:.*(::min$|cmp::min$|Ord>::min$)", a) for a in at)
    has_sub = any(re.search(r"call:.*saturating_sub$|call:.*checked_sub$|binop:Sub", a) for a in at)
    # the room is what the cap leaves above the *whole* buffer: the subtrahend is `buf.len()` itself, not a part of it
    # (for send_buf the bytes in flight still sit in the buffer and count against the cap)
    whole = []
    subs = [(bb2, t2["args"][0], t2["args"][1], t2["s"]) for bb2, t2 in b.calls(re.compile(r"::(saturating_sub|checked_sub|wrapping_sub)$")) if len(t2["args"]) == 2]
    subs += [(bb2, s2["r"]["a"], s2["r"]["b"], s2["s"]) for bb2, i2, s2 in b.all_stmts() if i2 != "term" and s2["r"]["k"] == "bin" and s2["r"]["op"].startswith("Sub")]
    for bb2, a0, a1, sp in subs:
        if "field:" + cap_field not in Slicer(ctx.w).atoms(b, a0):
            continue
        o = origin(b, a1)
        while o["k"] == "cast":
            o = o["o"]
        whole.append(o["k"] == "call" and re.search(r"::len$", o["t"]["f"]) is not None and _on_field(b, o["t"]["args"][0], buf_field))
    return has_min and has_sub and ("field:" + cap_field in at) and ("field:" + buf_field in at) and bool(whole) and all(whole), at


def r1(ctx):
    R = "C16-R1"
    ctx.rule(R, "send_buf growth: only in tcp::poll_send; appended slice length = min(buf.len(), Kernel::send_buf_cap.saturating_sub(len)); "
                "space == 0 reaches register_write_waker + Pending and no growth")
    sites = _grow_sites(ctx, T + "send_buf")
    for b, bb, t in sites:
        root = b.id
        ok_where = root == "turmoil_net::kernel::tcp::poll_send"
        okb, at = _bounded(ctx, b, t, K + "send_buf_cap", T + "send_buf")
        ctx.inst(R, f"grow:{root}", ok_where and okb, t["s"], "write bounded by the free space below send_buf_cap" if ok_where and okb else
                 (f"`{root}` grows send_buf" + ("" if ok_where else " outside poll_send") + ("" if okb else " by a length not bounded by send_buf_cap - len") +
                  ": more unsent + unacknowledged bytes than the cap can be queued"))
    if not sites:
        ctx.bad(R, "grow:none", "", "no send_buf growth site found (anchor moved)")
    ps = ctx.body(R, "turmoil_net::kernel::tcp::poll_send")
    if ps:
        z = []
        for sbb, te, fe, o in guards_on(ps, lambda o: o["k"] == "bin" and o["op"] == "Eq"):
            a0 = Slicer(ctx.w).atoms(ps, o["a"])
            if "field:" + K + "send_buf_cap" in a0 and (op_const(o["b"]) or {}).get("v") == 0:
                z += te
        ok = False
        for e in z:
            r_ = ps.reachable(e[1])
            parks = [bb for bb, t in ps.calls(re.compile(r"register_write_waker$")) if bb in r_]
            grows = [bb for b2, bb, t in sites if b2.id == ps.id and bb in r_]
            ok = bool(parks) and not grows
        ctx.inst(R, "poll_send:full-parks", ok, ps.span, "a full send buffer parks the writer and accepts nothing" if ok else
                 "with no free space poll_send does not park-and-return-Pending (writes beyond the cap)")
    ctx.floor(R, 2)


def r2(ctx):
    R = "C16-R2"
    ctx.rule(R, "recv_buf growth: only in handle_established; length = min(payload.len(), Kernel::recv_buf_cap.saturating_sub(len))")
    sites = _grow_sites(ctx, T + "recv_buf")
    for b, bb, t in sites:
        ok_where = b.id == "turmoil_net::kernel::tcp::handle_established"
        okb, at = _bounded(ctx, b, t, K + "recv_buf_cap", T + "recv_buf")
        ctx.inst(R, f"grow:{b.id}", ok_where and okb, t["s"], "accepted bytes bounded by the free room below recv_buf_cap" if ok_where and okb else
                 f"`{b.id}` grows recv_buf" + ("" if ok_where else " outside handle_established") + ("" if okb else " by a length not bounded by recv_buf_cap - len"))
    if not sites:
        ctx.bad(R, "grow:none", "", "no recv_buf growth site found (anchor moved)")
    ctx.floor(R, 1)


def r3(ctx):
    R = "C16-R3"
    ctx.rule(R, "segment_one: payload = copy_from_slice(send_buf[start..start+n]) with n = unsent.min(mss).min(wnd_remaining); mss from "
                "mss_for(k, local.ip()); wnd_remaining = snd_wnd.saturating_sub(in_flight); snd_nxt += n; FIN only under wnd_remaining > 0; "
                "mss_for selects loopback_mtu / mtu by the *source* ip and subtracts both headers")
    b = ctx.body(R, "turmoil_net::kernel::tcp::segment_one")
    if b:
        cps = list(b.calls(re.compile(r"^bytes::Bytes::copy_from_slice$")))
        for bb, t in cps:
            at = Slicer(ctx.w).atoms(b, t["args"][0])
            mins = [a for a in at if re.search(r"call:.*::min$", a)]
            ok = len(mins) >= 1 and "call:turmoil_net::kernel::tcp::mss_for" in at and "field:" + T + "snd_wnd" in at and "field:" + T + "send_buf" in at
            # two min applications: count min calls feeding the range end
            nmin = sum(1 for x, tt in b.calls(re.compile(r"::min$")) if x in b.reachable(0))
            ctx.inst(R, "segment_one:payload-bound", ok and nmin >= 2, t["s"], "payload length = min(unsent, mss, remaining window)" if ok and nmin >= 2 else
                     "segment payload is not bounded by both the MSS and the peer's remaining window (atoms: " + ", ".join(sorted(a for a in at if 'min' in a or 'mss' in a or 'snd_wnd' in a)) + ")")
        if not cps:
            ctx.bad(R, "segment_one:payload-bound", b.span, "payload construction not found")
        # the window operand of the min chain is the *remaining* window: snd_wnd minus what is already in flight (snd_nxt - snd_una)
        def min_leaves(op, depth=0):
            o = origin(b, op)
            if o["k"] == "call" and re.search(r"::min$", o["t"]["f"]) and depth < 6:
                return [x for a in o["t"]["args"] for x in min_leaves(a, depth + 1)]
            return [op]
        wl = []
        for bb, t in b.calls(re.compile(r"::min$")):
            for lf in min_leaves({"c": t["d"]} if not t["d"].get("p") else t["args"][0]):
                at = Slicer(ctx.w).atoms(b, lf)
                if "field:" + T + "snd_wnd" in at:
                    wl.append((at, t["s"]))
        okw = bool(wl) and all("field:" + T + "snd_nxt" in at and "field:" + T + "snd_una" in at and
                               any(re.search(r"call:.*(saturating_sub|checked_sub)$|binop:Sub", a) for a in at) for at, _ in wl)
        ctx.inst(R, "segment_one:window-minus-in-flight", okw, wl[0][1] if wl else b.span, "segments are cut to snd_wnd - (snd_nxt - snd_una)" if okw else
                 "a segment is cut to the peer's whole window, not to what remains of it after the bytes already in flight: more than the advertised window can be outstanding")
        # mss argument = local ip
        for bb, t in b.calls("turmoil_net::kernel::tcp::mss_for"):
            at = Slicer(ctx.w).atoms(b, t["args"][1])
            ok = "call:turmoil_net::kernel::tcp::bound_endpoint" in at and "field:" + T + "peer" not in at
            ctx.inst(R, "segment_one:mss-of-source", ok, t["s"], "MSS computed for the local (source) address" if ok else "MSS is not computed from the socket's own local address")
        # FIN under wnd_remaining > 0
        finw = [bb for bb, i, s in b.all_stmts() if s["r"]["k"] == "agg" and s["r"].get("ak") == "tuple" and len(s["r"]["ops"]) == 3
                and (op_const(s["r"]["ops"][2]) or {}).get("v") == 1]
        gt = []
        for sbb, te, fe, o in guards_on(b, lambda o: o["k"] == "bin" and o["op"] == "Gt"):
            a0 = Slicer(ctx.w).atoms(b, o["a"])
            if "field:" + T + "snd_wnd" in a0 and (op_const(o["b"]) or {}).get("v") == 0:
                gt += te
        for x in finw:
            ok = bool(gt) and b.dominated_by_any(x, edges=gt)
            ctx.inst(R, "segment_one:fin-needs-window", ok, b.site(x), "FIN emitted only with window remaining" if ok else "a FIN can be emitted with a closed window")
    m = ctx.body(R, "turmoil_net::kernel::tcp::mss_for")
    if m:
        lb = []
        for sbb, te, fe, o in guards_on(m, lambda o: o["k"] == "call" and o["t"]["f"].endswith("IpAddr::is_loopback")):
            at = Slicer(ctx.w).atoms(m, o["t"]["args"][0])
            okarg = any(a.startswith("arg:2:") for a in at)
            r_t = m.reachable(te[0][1]) if te else set()
            r_f = m.reachable(fe[0][1]) if fe else set()
            rd = lambda blocks, f: any(place_last_field(op_place(s["r"].get("o")) or {"p": []}) == K + f for x in blocks for s in m.stmts(x) if s["r"]["k"] == "use" and op_place(s["r"]["o"]))
            # first block of each edge reads the right mtu
            t_lo = any(place_last_field(op_place(s["r"]["o"])) == K + "loopback_mtu" for s in m.stmts(te[0][1]) if s["r"]["k"] == "use" and op_place(s["r"]["o"])) if te else False
            f_mtu = any(place_last_field(op_place(s["r"]["o"])) == K + "mtu" for s in m.stmts(fe[0][1]) if s["r"]["k"] == "use" and op_place(s["r"]["o"])) if fe else False
            ctx.inst(R, "mss_for:mtu-selection", okarg and t_lo and f_mtu, o["t"]["s"], "loopback source -> loopback_mtu, otherwise mtu" if okarg and t_lo and f_mtu else
                     "mss_for does not select loopback_mtu for a loopback source and mtu otherwise")
        forms, want, consts = _header_forms(m, "TCP_HEADER_SIZE")
        okh = want is not None and forms == want
        ctx.inst(R, "mss_for:headers", okh, m.span, f"MSS = MTU - (IP header + TCP header): {sorted(forms)}" if okh else
                 f"mss_for is not MTU minus the IP header and the TCP header in each address family (offsets found {sorted(forms)}, constants {consts})")
    ctx.floor(R, 5)


def r4(ctx):
    R = "C16-R4"
    ctx.rule(R, "udp::send_to: Kernel::outbound.push_back dominated by the false edge of Gt(buf.len(), max_payload(..)); the true edge "
                "returns EMSGSIZE without pushing; max_payload = mtu(loopback or not) - ip header - udp header")
    b = ctx.body(R, "turmoil_net::kernel::udp::send_to")
    if not b:
        cands = [x for x in ctx.w.find(r"^turmoil_net::kernel::udp::") if any(True for _ in x.calls("turmoil_net::kernel::udp::max_payload"))]
        b = cands[0] if cands else None
    if not b:
        return
    pushes = [(bb, t) for bb, t in b.calls(re.compile(r"^std::collections::VecDeque::push_back$")) if _on_field(b, t["args"][0], K + "outbound")]
    emit = [(bb, t) for bb, t in b.calls(re.compile(r"::emit$"))]
    fe_all, te_all = [], []
    for sbb, te, fe, o in guards_on(b, lambda o: o["k"] == "bin" and o["op"] in ("Gt", "Le", "Lt", "Ge")):
        a0 = Slicer(ctx.w).atoms(b, o["a"])
        a1 = Slicer(ctx.w).atoms(b, o["b"])
        if "call:turmoil_net::kernel::udp::max_payload" in a1 and any(a.startswith("arg:") for a in a0) and o["op"] == "Gt":
            fe_all += fe
            te_all += te
    sends = pushes + emit
    # the length that is compared is the buffer's length, not a narrowed copy of it (`buf.len() as u32` wraps past 4 GiB and the test passes)
    WIDTH = {"u8": 8, "u16": 16, "u32": 32, "u64": 64, "usize": 64, "i32": 32, "i64": 64, "u128": 128}
    for sbb, te, fe, o in guards_on(b, lambda o: o["k"] == "bin" and o["op"] in ("Gt", "Le", "Lt", "Ge")):
        sides = [(o["a"], o["b"]), (o["b"], o["a"])]
        for x, y in sides:
            if "call:turmoil_net::kernel::udp::max_payload" not in Slicer(ctx.w).atoms(b, y):
                continue
            narrowed = None
            cur = x
            for _ in range(8):
                pl = op_place(cur)
                if pl is None or pl.get("p"):
                    break
                d = single_def(b, pl["l"])
                if d is None or d[1] == "term":
                    break
                r = d[2]["r"]
                if r["k"] == "cast" and op_place(r["o"]) is not None and not op_place(r["o"]).get("p"):
                    src = b.tys[b.locals[op_place(r["o"])["l"]]["ty"]].get("s")
                    dst = b.tys[r["ty"]].get("s")
                    if WIDTH.get(src, 0) > WIDTH.get(dst, 64):
                        narrowed = (src, dst, d[2]["s"])
                    cur = r["o"]
                elif r["k"] == "use":
                    cur = r["o"]
                else:
                    break
            ctx.inst(R, "send:length-not-narrowed", narrowed is None, narrowed[2] if narrowed else b.term(sbb).get("s", b.span),
                     "the buffer length is compared at full width" if narrowed is None else
                     f"the datagram length is cast from {narrowed[0]} to {narrowed[1]} before it is compared with max_payload: a payload of 4 GiB + n bytes wraps to n, "
                     "passes the MTU test and is queued instead of being rejected with EMSGSIZE")
    if not sends:
        ctx.bad(R, "send:mtu-guard", b.span, "no packet emission found in the UDP send path")
    def _guards(fb):
        fe_, te_ = [], []
        for sbb, te, fe, o in guards_on(fb, lambda o: o["k"] == "bin" and o["op"] in ("Gt",)):
            a1 = Slicer(ctx.w).atoms(fb, o["b"])
            if "call:turmoil_net::kernel::udp::max_payload" in a1:
                fe_ += fe
                te_ += te
        return fe_, te_
    for bb, t in sends:
        ok = bool(fe_all) and b.dominated_by_any(bb, edges=fe_all)
        if not ok:
            # accepted alternative: every in-repo caller performs the test before calling
            callers = who_calls(ctx.w, b.id)
            unguarded = []
            for cb, cbb, ct in callers:
                fe_c, _ = _guards(cb)
                if not (fe_c and cb.dominated_by_any(cbb, edges=fe_c)):
                    unguarded.append(cb.id)
            ok = bool(callers) and not unguarded
            ctx.inst(R, "send:mtu-guard", ok, t["s"], "datagram queued only when it fits the MTU (checked by every caller)" if ok else
                     f"a datagram can be queued without the `len > max_payload` test (unchecked path through {sorted(set(unguarded)) or b.id}): oversized payloads are sent instead of rejected")
            continue
        ctx.inst(R, "send:mtu-guard", ok, t["s"], "datagram queued only when it fits the MTU")
    for e in te_all:
        r_ = b.reachable(e[1])
        ems = any((op_const(a) or {}).get("def", "").endswith("EMSGSIZE") or "EMSGSIZE" in str((op_const(a) or {}).get("k")) for x in r_ for _, t in [(x, b.term(x))] if t["k"] == "call" for a in t["args"])
        nopush = not any(bb in r_ for bb, _ in sends)
        ctx.inst(R, "send:emsgsize", ems and nopush, b.term(e[1]).get("s", b.span), "oversized datagram is rejected with EMSGSIZE" if ems and nopush else "oversized datagram is not rejected with EMSGSIZE")
    mp = ctx.body(R, "turmoil_net::kernel::udp::max_payload")
    if mp:
        forms, want, consts = _header_forms(mp, "UDP_HEADER_SIZE")
        okh = want is not None and forms == want
        ctx.inst(R, "max_payload:headers", okh, mp.span, f"payload room = MTU - (IP header + UDP header): {sorted(forms)}" if okh else
                 f"max_payload is not MTU minus the IP header and the UDP header in each address family (offsets found {sorted(forms)}, constants {consts})")
    # the MTU is chosen the same way for UDP and for TCP: the read of Kernel::loopback_mtu hangs on the same predicate in both
    sel = {}
    for fid in ("turmoil_net::kernel::udp::max_payload", "turmoil_net::kernel::tcp::mss_for"):
        fb = ctx.body(R, fid)
        if not fb:
            continue
        lo = [bb for bb, i, s2 in fb.all_stmts() if i != "term" and any(place_last_field(pl) == K + "loopback_mtu" for pl in [op_place(o) for o in _rv_ops(s2["r"])] if pl)]
        preds = set()
        for sbb, te, fe, o in guards_on(fb, lambda o: o["k"] == "call"):
            if lo and all(fb.dominated_by_any(x, edges=te) for x in lo):
                preds.add(o["t"]["f"])
        sel[fid] = (preds, fb.span)
    if len(sel) == 2:
        (pa, sa), (pb, sb) = sel.values()
        ok = bool(pa) and pa == pb
        ctx.inst(R, "mtu-selection:udp~tcp", ok, sa, f"both choose loopback_mtu under {sorted(x.rsplit('::', 1)[1] for x in pa)}" if ok else
                 f"udp::max_payload chooses the loopback MTU under {sorted(pa)} but tcp::mss_for under {sorted(pb)}: on a path where they differ one protocol "
                 "accepts a payload that the other bounds by the smaller MTU (a datagram larger than the MTU of the interface it leaves from is accepted)")
    ctx.floor(R, 4)


def _header_forms(fb, l4):
    """affine forms of the function's result, and the forms wanted: one symbolic input (the MTU) minus IP header minus the layer-4 header,
    per address family; the header sizes are the named constants the function itself uses"""
    consts = {}
    for bb, i, s in fb.all_stmts():
        for o in [s["r"].get("o"), s["r"].get("a"), s["r"].get("b")]:
            c = op_const(o) if isinstance(o, dict) else None
            if c and c.get("def"):
                consts[c["def"].rsplit("::", 1)[1]] = c.get("v")
    for bb, t in fb.calls():
        for a in t["args"]:
            c = op_const(a)
            if c and c.get("def"):
                consts[c["def"].rsplit("::", 1)[1]] = c.get("v")
    forms = affine_forms(fb, {"c": {"l": 0}})
    want = {(1, -(consts.get(ip, 0) + consts.get(l4, 0))) for ip in ("IPV4_HEADER_SIZE", "IPV6_HEADER_SIZE")} \
        if {"IPV4_HEADER_SIZE", "IPV6_HEADER_SIZE", l4} <= set(consts) else None
    return forms, want, consts


def _rv_ops(r):
    return [o for o in [r.get("o"), r.get("a"), r.get("b")] + list(r.get("ops", [])) if isinstance(o, dict)]


def r5(ctx):
    R = "C16-R5"
    ctx.rule(R, "every TcpSegment built on an existing connection takes its window from advertised_window(recv_buf_cap, recv_buf.len()), "
                "or the constant 0 (RST) - the handshake segments included (SYN, SYN-ACK and their retransmissions advertise "
                "advertised_window(recv_buf_cap, 0)); advertised_window = min(cap - len, u16::MAX)")
    n = 0
    cnt = {}
    for b in sorted(ctx.w.bodies.values(), key=lambda b: b.id):
        if b.crate != "turmoil_net" or not b.id.startswith("turmoil_net::kernel::tcp::"):
            continue
        for bb, i, s in b.all_stmts():
            r = s["r"]
            if r["k"] == "agg" and r.get("adt") == "turmoil_net::kernel::packet::TcpSegment":
                idx = r["fields"].index("window") if "window" in r["fields"] else None
                if idx is None:
                    continue
                op = r["ops"][idx]
                c = op_const(op)
                k = f"{b.id}:window#{nth(cnt, b.id)}"
                if c is not None:
                    if c.get("v") == 0:
                        ctx.ok(R, k, s["s"], "window 0 (RST)")
                    else:
                        # a handshake segment that advertises a constant invites a first flight larger than the receive buffer: the receiver
                        # truncates it and gets more than one window ahead of what the sender believes after a go-back-N rewind, whose ACKs
                        # the sender then discards until it aborts with TimedOut - without any loss
                        ctx.bad(R, k, s["s"], f"`{b.id}` advertises the constant window {c.get('v')} in a handshake segment instead of what the receive buffer can take "
                                "(advertised_window(recv_buf_cap, 0)): with recv_buf_cap below the constant the first flight overruns the receiver, and after a "
                                "retransmission rewind the sender discards the receiver's ACKs and aborts although nothing was lost")
                    continue
                at = Slicer(ctx.w).atoms(b, op)
                ok = "call:turmoil_net::kernel::tcp::advertised_window" in at
                ctx.inst(R, k, ok, s["s"], "window from advertised_window(..)" if ok else "advertised window does not come from advertised_window(recv_cap, recv_buf.len())")
    aw = ctx.body(R, "turmoil_net::kernel::tcp::advertised_window")
    if aw:
        ok = any(True for _ in aw.calls(re.compile(r"saturating_sub$"))) and any(True for _ in aw.calls(re.compile(r"::min$")))
        ctx.inst(R, "advertised_window:shape", ok, aw.span, "min(cap.saturating_sub(len), u16::MAX)" if ok else "advertised_window is no longer min(cap - len, u16::MAX)")
        for bb, t in who_calls(ctx.w, "turmoil_net::kernel::tcp::advertised_window")[0:0]:
            pass
    # which parameter is the capacity and which the occupancy is read off the helper itself (`cap.saturating_sub(len)`), not off the
    # declaration order - a swap of the private helper's parameters together with all call sites changes nothing
    ci, li = 0, 1
    if aw:
        for bb, t in aw.calls(re.compile(r"saturating_sub$")):
            pa = [sorted(int(z.split(":")[1]) for z in Slicer(ctx.w).atoms(aw, x) if z.startswith("arg:")) for x in t["args"][:2]]
            if len(pa) == 2 and len(pa[0]) == 1 and len(pa[1]) == 1 and pa[0] != pa[1]:
                ci, li = pa[0][0] - 1, pa[1][0] - 1
    for b, bb, t in who_calls(ctx.w, "turmoil_net::kernel::tcp::advertised_window"):
        if max(ci, li) >= len(t["args"]):
            continue
        a0 = Slicer(ctx.w).atoms(b, t["args"][ci])
        a1 = Slicer(ctx.w).atoms(b, t["args"][li])
        c1 = op_const(t["args"][li])
        ok = "field:" + K + "recv_buf_cap" in a0 and ("field:" + T + "recv_buf" in a1 or (c1 is not None and c1.get("v") == 0))
        if ok and c1 is None:
            # the occupancy is the buffer's length as it is now - not a figure corrected by what was just read (split_to already removed it)
            o1 = origin(b, t["args"][li])
            while o1["k"] == "cast":
                o1 = o1["o"]
            ok = o1["k"] == "call" and re.search(r"::len$", o1["t"]["f"]) is not None and _on_field(b, o1["t"]["args"][0], T + "recv_buf")
        ctx.inst(R, f"{b.id}:advertised_window-args#{nth(cnt, (b.id, 'aw'))}", ok, t["s"], "advertised_window(recv_buf_cap, recv_buf.len())" if ok else
                 "advertised_window is called with arguments other than (recv_buf_cap, recv_buf.len())")
    ctx.floor(R, 8)


def r6(ctx):
    R = "C16-R6"
    ctx.rule(R, "every transition of a TCB into Established records the window the peer advertised in the segment that completed the "
                "handshake (Tcb::snd_wnd := TcpSegment::window on every path from the state write); every ACK processed on an open "
                "connection refreshes it")
    n = 0
    for b in sorted(ctx.w.bodies.values(), key=lambda b: b.id):
        if b.crate != "turmoil_net" or not b.id.startswith("turmoil_net::kernel::tcp::"):
            continue
        est = []
        for bb, i, s in b.all_stmts():
            if place_last_field(s["p"]) == T + "state":
                r = s["r"]
                v = r.get("variant") if r["k"] == "agg" else None
                if v is None and r["k"] == "use":
                    o = origin(b, r["o"])
                    v = o["r"].get("variant") if o["k"] == "agg" else None
                if v == "Established":
                    est.append((bb, s))
        if not est:
            continue
        ww = [bb for bb, i, s in b.all_stmts() if place_last_field(s["p"]) == T + "snd_wnd" and
              "field:turmoil_net::kernel::packet::TcpSegment::window" in Slicer(ctx.w).atoms(b, s["r"].get("o", {}))]
        for bb, s in est:
            n += 1
            ok = bb in ww or (bool(ww) and not always_passes(b, ww, frm=bb))
            ctx.inst(R, f"{b.id}:established#{n}", ok, s["s"], "peer window recorded when the connection becomes Established" if ok else
                     "a connection becomes Established without taking the peer's advertised window from the completing segment: the sender keeps the handshake's "
                     "65535 and can put more bytes in flight than the peer advertised")
    ctx.floor(R, 2)


def r7(ctx):
    R = "C16-R7"
    ctx.rule(R, "(a) the peer's window is taken only from a segment that is not older than what was already processed: in "
                "handle_established the write Tcb::snd_wnd := segment.window hangs on a comparison of the segment's ack number with "
                "Tcb::snd_una - an ACK overtaken on the wire describes a window the peer may have closed since; (b) segment_one makes "
                "progress in every iteration: each operand of the min chain that cuts the payload (unsent, MSS, remaining window) is "
                "tested `> 0` before a data segment is built - a zero-length data segment does not advance snd_nxt and the loop never ends")
    he = ctx.body(R, "turmoil_net::kernel::tcp::handle_established")
    if he:
        ws = [(bb, s) for bb, i, s in he.all_stmts() if place_last_field(s["p"]) == T + "snd_wnd" and s["r"]["k"] == "use"
              and "field:turmoil_net::kernel::packet::TcpSegment::window" in Slicer(ctx.w).atoms(he, s["r"]["o"])]
        fresh = []
        for sbb, te, fe, o in guards_on(he, lambda o: True):
            at = Slicer(ctx.w).atoms(he, he.term(sbb)["d"])
            if "field:turmoil_net::kernel::packet::TcpSegment::ack" in at and "field:" + T + "snd_una" in at:
                fresh.append((sbb, te, fe))
        def decides(sbb, bb):
            """the test in sbb can veto the write in bb: bb is reachable from sbb but not from every successor of sbb"""
            succ = he.succ(sbb)
            return bb in he.reachable(sbb) and any(bb not in he.reachable(x) for x in succ)
        for bb, s in ws:
            ok = any(he.dominated_by_any(bb, edges=te) or he.dominated_by_any(bb, edges=fe) for sbb, te, fe in fresh)
            if not ok:
                # `rel > 0 || (rel == 0 && ..)`: every path to the write consults the comparison (one such test dominates it) and the
                # comparison can veto it (one such test has a side from which the write is unreachable)
                ok = any(he.dominated_by_block(bb, sbb) for sbb, te, fe in fresh) and any(decides(sbb, bb) for sbb, te, fe in fresh)
            ctx.inst(R, "handle_established:window-from-fresh-ack", ok, s["s"], "snd_wnd follows only ACKs that are not behind snd_una" if ok else
                     "snd_wnd is overwritten from every ACK-flagged segment, stale ones included: ACKs delivered out of order (windows 3000 / 2000 / 1000 / 0 "
                     "reversed) re-open a window the peer has closed and the sender puts 3 x 1000 bytes in flight against an advertised window of 0")
        # (c) two ACKs with the *same* ack number can swap places too (the ACK of a segment, window 0, and the window update that follows the
        # reader's drain): the receiver's right edge never moves left, so a segment that does not advance snd_una may only widen the window -
        # the write must also hang on a comparison of the segment's window with the current snd_wnd (or on the `advanced` outcome)
        widen = []
        for sbb, te, fe, o in guards_on(he, lambda o: True):
            at = Slicer(ctx.w).atoms(he, he.term(sbb)["d"])
            if "field:turmoil_net::kernel::packet::TcpSegment::window" in at and "field:" + T + "snd_wnd" in at:
                widen.append((sbb, te, fe))
        for bb, s in ws:
            # the comparison decides the write: the write's block is control-dependent on it (reachable on one side only), or a flag it
            # computes is tested on the way (the slice of some dominating test contains both operands)
            ok = any(he.dominated_by_any(bb, edges=te) != he.dominated_by_any(bb, edges=fe) for sbb, te, fe in widen)
            if not ok:
                ok = any(decides(sbb, bb) for sbb, te, fe in widen)
            if not ok:
                for sbb, tt in switch_blocks(he):
                    if any(he.dominated_by_edge(bb, (sbb, x)) for x in he.succ(sbb)) and len(he.succ(sbb)) > 1:
                        at = Slicer(ctx.w).atoms(he, tt["d"])
                        if "field:turmoil_net::kernel::packet::TcpSegment::window" in at and "field:" + T + "snd_wnd" in at:
                            ok = True
            ctx.inst(R, "handle_established:equal-ack-only-widens", ok, s["s"], "a segment that does not advance snd_una can only widen the window" if ok else
                     "snd_wnd is overwritten by any segment whose ack equals snd_una, whatever its window: when the ACK of a segment (window 0) and the window update "
                     "that follows the reader's drain swap places on the wire, the stale 0 wins, and with nothing in flight and no persist timer both sides wait for ever - no packet was lost")
        if not ws and ctx.strict:
            ctx.bad(R, "handle_established:window-from-fresh-ack", he.span, "no write snd_wnd := segment.window found")
    so = ctx.body(R, "turmoil_net::kernel::tcp::segment_one")
    if so:
        def min_leaves(op, depth=0):
            o = origin(so, op)
            if o["k"] == "call" and re.search(r"::min$", o["t"]["f"]) and depth < 6:
                return [x for a in o["t"]["args"] for x in min_leaves(a, depth + 1)]
            return [op]

        def key(o):
            while o["k"] == "cast":
                o = o["o"]
            if o["k"] in ("call", "bin", "discr", "ref", "agg"):
                return (o["k"], o.get("bb"))
            if o["k"] == "place":
                return ("place", str(o["p"]))
            return (o["k"], id(o))
        cps = list(so.calls(re.compile(r"^bytes::Bytes::copy_from_slice$")))
        pos = {}
        for sbb, te, fe, o in guards_on(so, lambda o: o["k"] == "bin" and o["op"] in ("Gt", "Ne") and (op_const(o["b"]) or {}).get("v") == 0):
            pos.setdefault(key(origin(so, o["a"])), []).extend(te)
        for cbb, ct in cps:
            # the length of the slice: the last min call feeding the range end
            mins = [t for bb, t in so.calls(re.compile(r"::min$")) if so.dominated_by_block(cbb, bb)]
            if not mins:
                continue
            leaves = min_leaves({"c": mins[-1]["d"]})
            missing = []
            for lf in leaves:
                k = key(origin(so, lf))
                if not (k in pos and so.dominated_by_any(cbb, edges=pos[k])):
                    at = Slicer(ctx.w).atoms(so, lf)
                    missing.append("MSS" if any("mss_for" in a for a in at) else "remaining window" if "field:" + T + "snd_wnd" in at else "unsent")
            ctx.inst(R, "segment_one:every-segment-carries-bytes", not missing, ct["s"], "unsent, MSS and the remaining window are all positive when a data segment is cut" if not missing else
                     f"a data segment is cut to min(..) without testing {missing} > 0: with an MTU no larger than the headers (IPv6 with mtu 60) the MSS is 0, the segment is empty, "
                     "snd_nxt does not advance and segment_one emits segments forever")
    ctx.floor(R, 3)


def r8(ctx):
    R = "C16-R8"
    ctx.rule(R, "every host gets the configured limits: the KernelConfig a Net / Fabric was built with (Fabric::default_cfg: mtu, send_buf_cap, "
                "recv_buf_cap, ..) is stored by the constructor and afterwards only read - each Kernel::with_config receives a copy. Moving "
                "it out (mem::take / replace, a `&mut` borrow, an assignment) gives the first host the caps and every later host the defaults")
    F = "turmoil_net::fabric::Fabric::default_cfg"
    n = 0
    bad = []
    for b in sorted(ctx.w.bodies.values(), key=lambda x: x.id):
        if b.crate != "turmoil_net":
            continue
        for bb, i, st in b.all_stmts():
            if i == "term":
                continue
            r = st["r"]
            if r["k"] == "ref" and F in place_fields(r["p"]):
                n += 1
                if r["bk"] == "mut":
                    bad.append((b.id, st["s"], "borrows it mutably"))
            if F in place_fields(st["p"]) and not b.id.endswith(("::new", "::with_config")):
                n += 1
                bad.append((b.id, st["s"], "assigns to it"))
            if r["k"] == "use" and isinstance(r.get("o"), dict) and r["o"].get("m") and F in place_fields(r["o"]["m"]):
                n += 1
                bad.append((b.id, st["s"], "moves it out"))
    ctx.inst(R, "fabric:config-only-read", n > 0 and not bad, bad[0][1] if bad else "", "the fabric's KernelConfig is only read (cloned) after construction" if n and not bad else
             (f"`{bad[0][0]}` {bad[0][2]} (Fabric::default_cfg): after the first add_host the fabric holds KernelConfig::default() - hosts added later ignore the configured mtu / buffer caps "
              "(a 600-byte-mtu net emits 1460-byte segments, a 2 KiB receive cap queues 32 KiB)" if bad else "no read of Fabric::default_cfg found: re-derive"))
    ctx.floor(R, 1)


def r9(ctx):
    R = "C16-R9"
    ctx.rule(R, "a configured limit reaches the field of its own name: where a Kernel is built from a KernelConfig (Kernel::with_config), every "
                "field that has a namesake in KernelConfig (send_buf_cap, recv_buf_cap, mtu, ..) is initialised from that namesake and from no "
                "other KernelConfig field - two same-typed caps crossed in the constructor compile, and the guards in tcp.rs are then fed the "
                "wrong numbers")
    KC = "field:turmoil_net::kernel::KernelConfig::"
    cfgf = {f.get("name") for v in (ctx.w.adts.get("turmoil_net::kernel::KernelConfig") or {}).get("variants", []) for f in v.get("fields", [])}
    n = 0
    for b in sorted(ctx.w.bodies.values(), key=lambda x: x.id):
        if b.crate != "turmoil_net":
            continue
        for bb, i, st in b.all_stmts():
            r = st["r"]
            if i == "term" or r["k"] != "agg" or r.get("adt") != "turmoil_net::kernel::Kernel" or not r.get("fields"):
                continue
            for fname, op in zip(r["fields"], r["ops"]):
                if fname not in cfgf:
                    continue
                got = {a[len(KC):] for a in Slicer(ctx.w).atoms(b, op) if a.startswith(KC)}
                if not got:
                    continue
                n += 1
                ok = got == {fname}
                ctx.inst(R, f"kernel-field:{fname}", ok, st["s"], f"Kernel::{fname} is taken from KernelConfig::{fname}" if ok else
                         f"`{b.id}` initialises Kernel::{fname} from KernelConfig::{sorted(got)}: with asymmetric settings the send buffer is capped by the receive cap (poll_send queues "
                         "past send_buf_cap with no WouldBlock) and the receiver holds / advertises past recv_buf_cap")
    ctx.floor(R, 4)


def run(ctx):
    r9(ctx)
    r8(ctx)
    from . import C06
    C06.r16(ctx)   # the room left in the peer's window is computed on wrapping differences of sequence numbers
    r7(ctx)
    r6(ctx)
    r1(ctx)
    r2(ctx)
    r3(ctx)
    r4(ctx)
    r5(ctx)
