"""C02 - turmoil::net TCP delivers an intact, ordered byte stream and then EOF (structural part)."""
from .common import *

DECIDED = ("R1 every Data/Fin segment carries a sequence number obtained from the per-stream counter (Tcp::assign_send_seq), one "
           "per segment; R2 every Data segment is built behind a successful FlowControl::try_acquire and a writer without credit "
           "only reports WouldBlock; every Fin is built behind `!is_shutdown`; R3 on both read paths (poll_read_priv, poll_peek) the "
           "Data arm releases exactly one credit and the Fin arm none; R4 the bounded receive queue has a slot for every segment "
           "kind that is not credit-gated (queue capacity - credits >= number of un-gated kinds, or a retry path exists); "
           "R5 in-flight messages cannot be duplicated (Protocol/Segment/Envelope/Sent are not Clone/Copy); R6 the reorder buffer "
           "releases segments only at recv_seq + 1 and the payload is copied from the caller's buffer.")
NOT_DECIDED = ("correctness of the reorder buffer's arithmetic beyond its shape, byte equality, eventual delivery on healthy links "
               "beyond R4, RST semantics.")
DECIDED += "; R12 source / destination are never swapped on the TCP send path (send_loopback / send_message get (pair.local, pair.remote))"
DECIDED += "; R13 a FIN is never answered with a RST (closed stream; read half dropped)"
DECIDED += "; R13 also: StreamSocket::buffer, which runs only while the stream's table entry exists, builds no RST (segments for a dropped read half are discarded; the open write direction is left alone)"
DECIDED += '; R14 ReadHalf::put_slice decides from the bytes that remain after the copy whether something is stashed; the stream entry is released by the two Drop impls only (shared C12-R7)'
DECIDED += '; R15 the stream wrappers forward each poll_ method to the method of the same name; FlowControl::register_waker replaces the registered waker'
DECIDED += '; R14 also: a read that copied stashed bytes returns without polling the channel again; every segment handed to StreamSocket::buffer enters the reorder buffer'
ASSUMPTIONS = ["tokio mpsc::channel(n) holds exactly n items", "each direction of a stream has one WriteHalf (one FIN)"]

SEG = "turmoil::envelope::Segment"


def _seg_sites(ctx, variants):
    out = []
    for b in sorted(ctx.w.bodies.values(), key=lambda b: b.id):
        if b.crate != "turmoil":
            continue
        for bb, i, s in b.all_stmts():
            r = s["r"]
            if r["k"] == "agg" and r.get("adt") == SEG and r.get("variant") in variants:
                out.append((b, bb, i, s, r))
    return out


def _root_fn(ctx, b):
    while b.parent and b.parent in ctx.w.bodies:
        b = ctx.w.bodies[b.parent]
    return b


def r1(ctx):
    R = "C02-R1"
    ctx.rule(R, "operand 0 of every Segment::Data / Segment::Fin construction derives from Tcp::assign_send_seq (through "
                "WriteHalf::seq), and the constructing block is not in a loop with its seq call outside (one number per segment)")
    cnt = {}
    for b, bb, i, s, r in _seg_sites(ctx, ("Data", "Fin")):
        root = _root_fn(ctx, b)
        k = f"{root.id}:{r['variant']}#{nth(cnt, (root.id, r['variant']))}"
        at = Slicer(ctx.w, into_callees=3).atoms(b, r["ops"][0])
        ok = "call:turmoil::host::Tcp::assign_send_seq" in at
        consts = [a for a in at if a.startswith("const:") and not a.startswith("const:turmoil") and "closure" not in a]
        if not ok:
            ctx.bad(R, k, s["s"], f"sequence number of Segment::{r['variant']} does not come from Tcp::assign_send_seq (atoms {sorted(at)[:5]})")
            continue
        # the seq call must be in the same acyclic region: the block must not be able to reach itself without passing the seq call
        seqbbs = [x for x, t in b.calls(re.compile(r"WriteHalf::seq$|Tcp::assign_send_seq$"))]
        loop = bb in b.reachable(bb, removed_blocks=seqbbs) - {bb} if False else False
        succs = set()
        for sx in b.succ(bb):
            succs |= b.reachable(sx, removed_blocks=seqbbs)
        if bb in succs:
            ctx.bad(R, k, s["s"], "segment construction sits in a loop that does not re-draw the sequence number")
        else:
            ctx.ok(R, k, s["s"], "sequence number drawn from the per-stream counter")
    ctx.floor(R, 3)


def r2(ctx):
    R = "C02-R2"
    ctx.rule(R, "Segment::Data is constructed only behind the true edge of FlowControl::try_acquire (looking through the "
                "World::current closure); the false edge reaches only an Err return; Segment::Fin is constructed only behind "
                "a false test of WriteHalf::is_shutdown")
    cnt = {}
    for b, bb, i, s, r in _seg_sites(ctx, ("Data",)):
        root = _root_fn(ctx, b)
        k = f"{root.id}:Data#{nth(cnt, (root.id, 'Data'))}"
        edges = []
        fam = ctx.w.family(root.id)
        for fb in fam:
            te, fe = call_guard_edges(fb, "turmoil::net::tcp::stream::FlowControl::try_acquire")
            edges += [(fb.id, e) for e in te]
        ok = bool(edges) and dominated_in_family(ctx.w, b, bb, edges=edges)
        sh_f = []
        for fb in fam:
            for sbb, te2, fe2, o in guards_on(fb, lambda o: o["k"] == "place" and place_has_field(o["p"], "turmoil::net::tcp::stream::WriteHalf::is_shutdown")):
                sh_f += [(fb.id, e) for e in fe2]
        ok_sh = bool(sh_f) and dominated_in_family(ctx.w, b, bb, edges=sh_f)
        ctx.inst(R, k + ":not-after-shutdown", ok_sh, s["s"], "no Data segment once the write half is shut down" if ok_sh else
                 "Segment::Data can be sent although the write half is shut down: the bytes are sequenced behind the FIN, accepted and silently discarded by the peer")
        # a Data segment always carries bytes: an empty one is indistinguishable from EOF for the reader (read() -> Ok(0))
        ne = []
        for fb in fam:
            for sbb, te3, fe3, o in guards_on(fb, lambda o: o["k"] == "bin" and o["op"] in ("Eq", "Ne", "Gt", "Lt", "Le", "Ge") and
                                              ((op_const(o["a"]) or {}).get("v") == 0 or (op_const(o["b"]) or {}).get("v") == 0)):
                at = Slicer(ctx.w).atoms(fb, o["a"]) | Slicer(ctx.w).atoms(fb, o["b"])
                if any(re.search(r"call:.*(Buf::remaining|::len|::remaining)$", a) for a in at) and any(a.startswith("arg:") for a in at):
                    empty_is_true = o["op"] in ("Eq", "Le", "Lt") if (op_const(o["b"]) or {}).get("v") == 0 else o["op"] in ("Eq", "Ge", "Gt")
                    ne += [(fb.id, e) for e in (fe3 if empty_is_true else te3)]
        ok_ne = bool(ne) and dominated_in_family(ctx.w, b, bb, edges=ne)
        ctx.inst(R, k + ":carries-bytes", ok_ne, s["s"], "a Data segment is only built for a non-empty buffer" if ok_ne else
                 "Segment::Data can be built from an empty buffer: a zero-length write through this entry point takes a credit and a sequence number and the peer's "
                 "read() returns Ok(0) - a false end-of-stream in the middle of the data")
        ctx.inst(R, k, ok, s["s"], "Data segment built behind a successful try_acquire" if ok else
                 "Segment::Data is constructed on a path that did not acquire a flow-control credit: the bounded receive queue can overflow and data is dropped")
    # writer without credit
    tw = ctx.body(R, "turmoil::net::tcp::stream::WriteHalf::try_write")
    if tw:
        te, fe = call_guard_edges(tw, "turmoil::net::tcp::stream::FlowControl::try_acquire")
        if not fe:
            ctx.bad(R, "try_write:no-credit-path", tw.span, "try_write does not branch on try_acquire")
        for e in fe:
            r_ = tw.reachable(e[1])
            sends = [bb for bb, t in tw.calls(re.compile(r"World::current$|WriteHalf::send$|send_message$|send_loopback$")) if bb in r_]
            errs = [bb for bb in r_ for s in tw.stmts(bb) if s["r"]["k"] == "agg" and s["r"].get("variant") == "Err" and s["p"]["l"] == 0]
            oks = [bb for bb in r_ for s in tw.stmts(bb) if s["r"]["k"] == "agg" and s["r"].get("variant") == "Ok" and s["p"]["l"] == 0]
            wb = [bb for bb in r_ for s in tw.stmts(bb) if s["r"]["k"] == "agg" and s["r"].get("variant") == "WouldBlock"]
            ok = not sends and errs and not oks and wb
            ctx.inst(R, "try_write:no-credit-path", ok, tw.term(e[1]).get("s", tw.span),
                     "without a credit try_write returns Err(WouldBlock) and sends nothing" if ok else
                     "without a credit try_write can still send or report success (bytes silently discarded / queue overflow)")
    for b, bb, i, s, r in _seg_sites(ctx, ("Fin",)):
        root = _root_fn(ctx, b)
        k = f"{root.id}:Fin#{nth(cnt, (root.id, 'Fin'))}"
        edges = []
        for fb in ctx.w.family(root.id):
            for sbb, te, fe, o in guards_on(fb, lambda o: o["k"] == "place" and place_has_field(o["p"], "turmoil::net::tcp::stream::WriteHalf::is_shutdown")):
                edges += [(fb.id, e) for e in fe]
        ok = bool(edges) and dominated_in_family(ctx.w, b, bb, edges=edges)
        ctx.inst(R, k, ok, s["s"], "Fin built only when not already shut down" if ok else
                 "Segment::Fin can be sent although the write half is already shut down (second FIN / duplicate sequence slot)")
    # is_shutdown set after the FIN was sent in poll_shutdown_priv
    ps = ctx.body(R, "turmoil::net::tcp::stream::WriteHalf::poll_shutdown_priv")
    if ps:
        wr = []
        for fb in ctx.w.family(ps.id):
            for bb, i, s in fb.all_stmts():
                if place_last_field(s["p"]) == "turmoil::net::tcp::stream::WriteHalf::is_shutdown":
                    c = op_const(s["r"].get("o")) if s["r"]["k"] == "use" else None
                    wr.append((fb, bb, s, c))
        ok = any(c is not None and c.get("v") == 1 for _, _, _, c in wr)
        ctx.inst(R, "poll_shutdown_priv:marks-shutdown", ok, ps.span, "shutdown records is_shutdown = true" if ok else
                 "poll_shutdown_priv no longer records is_shutdown = true: Drop will send a second FIN")
    ctx.floor(R, 6)


def r3(ctx):
    R = "C02-R3"
    ctx.rule(R, "in poll_read_priv and poll_peek the SequencedSegment::Data arm calls FlowControl::release exactly once on every "
                "path and the Fin arm never; the two siblings agree")
    shapes = {}
    for fid in ("turmoil::net::tcp::stream::ReadHalf::poll_read_priv", "turmoil::net::tcp::stream::ReadHalf::poll_peek"):
        b = ctx.body(R, fid)
        if not b:
            continue
        ves = [v for v in variant_edges(b, lambda p: True) if v[3] == "turmoil::host::SequencedSegment"]
        if not ves:
            ctx.bad(R, f"{fid}:no-match", b.span, "no match on the received SequencedSegment")
            continue
        sbb, m, els, adt, pl = ves[0]
        rel = set(bb for bb, t in b.calls("turmoil::net::tcp::stream::FlowControl::release"))
        for v in ("Data", "Fin"):
            e = m.get(v, els)
            pc = path_counts(b, e[1], lambda x: x in rel)
            want = (1, 1) if v == "Data" else (0, 0)
            shapes.setdefault(v, []).append(pc)
            ctx.inst(R, f"{fid}:{v}", pc == want, b.term(e[1]).get("s", b.span),
                     f"{v} arm releases {pc} credit(s) per path (required {want})" +
                     ("" if pc == want else (": the writer's credits leak and it blocks forever" if v == "Data" and (pc or (0, 0))[0] < 1
                      else ": credits are over-released, the bounded queue can overflow and drop data")))
        # the Fin arm must record end-of-stream (the FIN has been popped from the queue: nothing else remembers it)
        e = m.get("Fin", els)
        wr = set()
        for bb2, i2, s2 in b.all_stmts():
            if place_last_field(s2["p"]) == "turmoil::net::tcp::stream::ReadHalf::is_closed" and s2["r"]["k"] == "use":
                c = op_const(s2["r"]["o"])
                if c is not None and c.get("v") == 1:
                    wr.add(bb2)
        pc = path_counts(b, e[1], lambda x: x in wr)
        ctx.inst(R, f"{fid}:Fin-marks-closed", pc is not None and pc[0] >= 1, b.term(e[1]).get("s", b.span),
                 "Fin arm sets is_closed = true on every path" if pc is not None and pc[0] >= 1 else
                 "the Fin arm consumes the FIN without recording is_closed: the next read waits forever instead of returning EOF")
        # release must not happen anywhere else in the function
        other = [bb for bb in rel if not any(b.dominated_by_edge(bb, m.get(v, els)) for v in ("Data",))]
        ctx.inst(R, f"{fid}:release-elsewhere", not other, b.span, "credits released only in the Data arm" if not other else
                 "FlowControl::release is also called outside the Data arm")
    ctx.floor(R, 8)


def r4(ctx):
    R = "C02-R4"
    ctx.rule(R, "StreamSocket::new: mpsc::channel capacity Q and FlowControl credits C are both `capacity + k`; with U = kinds "
                "routed into StreamSocket::buffer that are not credit-gated (Fin, at most one per direction), require Q - C >= |U| "
                "or a retry path from the readers back into the reorder buffer")
    b = ctx.body(R, "turmoil::host::StreamSocket::new")
    if not b:
        return
    ch = list(b.calls("tokio::sync::mpsc::channel"))
    fc = list(b.calls(re.compile(r"BidiFlowControl::new$|FlowControl::new$")))
    if len(ch) != 1 or len(fc) != 1:
        ctx.bad(R, "turmoil::host::StreamSocket::new:shape", b.span, "expected exactly one mpsc::channel and one flow-control construction")
        return
    q = linear(b, ch[0][1]["args"][0])
    c = linear(b, fc[0][1]["args"][0])
    if not q or not c or q[0] != c[0]:
        ctx.bad(R, "turmoil::host::StreamSocket::new:shape", ch[0][1]["s"], f"queue capacity {q} and credits {c} are not both `capacity + k` of the same parameter")
        return
    # un-gated kinds = variants of SequencedSegment handed to StreamSocket::buffer minus Data (gated by R2)
    rf = ctx.body(R, "turmoil::host::Tcp::receive_from_network")
    kinds = set()
    if rf:
        for bb, t in rf.calls("turmoil::host::StreamSocket::buffer"):
            o = origin(rf, t["args"][2]) if len(t["args"]) > 2 else {"k": "?"}
            if o["k"] == "agg":
                kinds.add(o["r"].get("variant"))
            else:
                kinds.add("?")
    ungated = sorted(k for k in kinds if k != "Data")
    slack = q[1] - c[1]
    # retry path: anything reachable from the readers that re-drives the reorder buffer
    retry = may_call(ctx.w, ["turmoil::net::tcp::stream::ReadHalf::poll_read_priv", "turmoil::net::tcp::stream::ReadHalf::poll_peek"],
                     re.compile(r"StreamSocket::buffer$|StreamSocket::drain|StreamSocket::flush"))
    ok = slack >= len(ungated) or bool(retry)
    ctx.inst(R, "turmoil::host::StreamSocket::new:queue-slack", ok, ch[0][1]["s"],
             f"queue = capacity{q[1]:+d}, credits = capacity{c[1]:+d}, un-gated kinds {ungated}: slack {slack} >= {len(ungated)}" if ok else
             f"queue = capacity{q[1]:+d}, credits = capacity{c[1]:+d} but {ungated} is not credit-gated and nothing retries the reorder "
             "buffer: a FIN arriving on a full queue is parked forever and the reader never sees EOF")
    # Full arm of buffer() must not consume the sequence slot
    bf = ctx.body(R, "turmoil::host::StreamSocket::buffer")
    if bf:
        dec = [s for bb, i, s in bf.all_stmts() if place_last_field(s["p"]) == "turmoil::host::StreamSocket::recv_seq"]
        ctx.inst(R, "turmoil::host::StreamSocket::buffer:recv_seq-writes", len(dec) >= 1, bf.span, f"{len(dec)} writes to recv_seq")
    ctx.floor(R, 1)


def r5(ctx):
    R = "C02-R5"
    ctx.rule(R, "messages in flight are move-only: none of Protocol, Segment, Syn, Envelope, Sent, Datagram-carrying wrappers "
                "implements Clone or Copy (type table of the checked program)")
    for adt in ("turmoil::envelope::Protocol", "turmoil::envelope::Segment", "turmoil::envelope::Syn", "turmoil::envelope::Envelope",
                "turmoil::top::Sent", "turmoil::host::SequencedSegment"):
        if adt not in ctx.w.adts:
            if ctx.strict:
                ctx.bad(R, f"anchor-missing:{adt}", "", f"type `{adt}` not found")
            continue
        cl = ctx.w.implements(adt, "std::clone::Clone") or ctx.w.implements(adt, "std::marker::Copy")
        ctx.inst(R, f"not-clone:{adt}", not cl, ctx.w.adts[adt].get("span", ""), "not Clone/Copy" if not cl else
                 f"`{adt}` became Clone/Copy: an in-flight message can be duplicated")
    ctx.floor(R, 6)


def r6(ctx):
    R = "C02-R6"
    ctx.rule(R, "StreamSocket::buffer hands a segment to the reader only when its key is recv_seq + 1 (contiguity test dominates "
                "the permit.send) and sends exactly the segment removed under that key; Data payload is Bytes::copy_from_slice of "
                "the caller's buffer")
    bf = ctx.body(R, "turmoil::host::StreamSocket::buffer")
    if bf:
        sends = list(bf.calls(re.compile(r"mpsc::Permit::send$|mpsc::Sender::(try_send|send)$")))
        te, fe = call_guard_edges(bf, re.compile(r"^indexmap::IndexMap::contains_key$"))
        for bb, t in sends:
            ok = bool(te) and bf.dominated_by_any(bb, edges=te)
            at = Slicer(ctx.w).atoms(bf, t["args"][-1])
            rm = any(a.startswith("call:indexmap::IndexMap::swap_remove") or a.startswith("call:indexmap::IndexMap::shift_remove") or a.startswith("call:indexmap::IndexMap::remove") for a in at)
            ok2 = rm and "field:turmoil::host::StreamSocket::recv_seq" in at
            ctx.inst(R, "buffer:contiguous-release", ok and ok2, t["s"],
                     "segment released only after contains_key(recv_seq + 1), taken from the buffer by that key" if ok and ok2 else
                     "a segment can be handed to the reader without the contiguity test / not by its sequence key: bytes may be reordered")
        # the contains_key argument is recv_seq + 1
        for bb, t in bf.calls(re.compile(r"^indexmap::IndexMap::contains_key$")):
            o = deref_origin(bf, t["args"][1])
            lin = None
            if o["k"] == "place":
                lin = linear(bf, {"c": o["p"]})
            ok = lin is not None and lin[0] == ("field", "turmoil::host::StreamSocket::recv_seq") and lin[1] == 1
            ctx.inst(R, "buffer:next-key", ok, t["s"], "next key is recv_seq + 1" if ok else f"next expected key is not recv_seq + 1 ({lin})")
    tw = ctx.w.bodies.get("turmoil::net::tcp::stream::WriteHalf::try_write::{closure#0}")
    if tw:
        for b, bb, i, s, r in _seg_sites(ctx, ("Data",)):
            if b.id != tw.id:
                continue
            at = Slicer(ctx.w).atoms(b, r["ops"][1])
            ok = "call:bytes::Bytes::copy_from_slice" in at
            ctx.inst(R, "try_write:payload-copy", ok, s["s"], "payload = Bytes::copy_from_slice(buf)" if ok else
                     "Data payload is not a copy of the caller's buffer")
    ctx.floor(R, 3)


def r7(ctx):
    R = "C02-R7"
    ctx.rule(R, "Drop for ReadHalf resets the connection (RST) only for unread *data*: every inspection of the receive queue "
                "that feeds the decision is kind-aware (a match on SequencedSegment reaching its Data variant); a queued FIN alone "
                "must lead to the graceful close_stream_half path")
    d = ctx.body(R, "<turmoil::net::tcp::stream::ReadHalf as std::ops::Drop>::drop")
    if not d:
        return
    n = 0
    for fb in ctx.w.family(d.id):
        rst = [bb for bb, i, s in fb.all_stmts() if s["r"]["k"] == "agg" and s["r"].get("adt") == SEG and s["r"].get("variant") == "Rst"]
        if not rst:
            continue
        for bb, t in fb.calls():
            if not t["args"]:
                continue
            o = deref_origin(fb, t["args"][0])
            if o["k"] != "place":
                continue
            _, fields = root_place(fb, o["p"])
            if "turmoil::net::tcp::stream::Rx::recv" not in fields:
                continue
            if not any(r_ in fb.reachable(bb) for r_ in rst):
                continue
            n += 1
            k = f"drop:recv-inspection:{t['f']}"
            if re.search(r"mpsc::Receiver::(try_recv|poll_recv)$", t["f"]):
                # its result must be matched down to SequencedSegment::Data
                ves = [v for v in variant_edges(fb, lambda p: True) if v[3] == "turmoil::host::SequencedSegment"]
                ok = any("Data" in m for _, m, _, _, _ in ves)
                ctx.inst(R, k, ok, t["s"], "queue head inspected by kind (Data vs Fin)" if ok else
                         "try_recv result is not matched on SequencedSegment::Data")
            else:
                ctx.bad(R, k, t["s"], f"`{t['f']}` inspects the receive queue without looking at the segment kind: a queued FIN "
                        "counts as unread data, the drop sends RST instead of closing gracefully and accepted bytes can be lost")
        graceful = list(fb.calls("turmoil::host::Tcp::close_stream_half"))
        ctx.inst(R, "drop:graceful-path", bool(graceful), fb.span, "graceful path calls close_stream_half" if graceful else "no graceful close path")
    ctx.floor(R, 2)


def r10(ctx):
    R = "C02-R10"
    ctx.rule(R, "StreamSocket::next_send_seq is a monotone counter (every write is +1 of itself): no two segments of a stream share a sequence number")
    counter_rule(ctx, R, "turmoil::host::StreamSocket::next_send_seq", step=1)
    ctx.floor(R, 1)


SEND_PATH = re.compile(r"World::send_message$|WriteHalf::send$|Topology::enqueue_message$|Link::enqueue(_message)?$|Host::receive_from_network$|"
                       r"Tcp::receive_from_network$|StreamSocket::buffer$|FlowControl::try_acquire$|WriteHalf::seq$|Tcp::assign_send_seq$")
DISCARD_OK = {
    "<turmoil::net::tcp::stream::ReadHalf as std::ops::Drop>::drop": "a destructor cannot report; the RST is best effort and the stream is torn down locally right after",
    "<turmoil::net::tcp::stream::WriteHalf as std::ops::Drop>::drop": "a destructor cannot report; a FIN that cannot be sent means the link is gone (the peer is refused / reset by the topology)",
    "<turmoil::net::tcp::stream::ConnectGuard as std::ops::Drop>::drop": "a destructor cannot report; the RST for an abandoned, already answered connect is best effort (an unreachable peer is reset by the topology)",
    "turmoil::net::tcp::stream::send_loopback": "the RST bounced back to the local sender of a loopback segment has no further feedback path",
    "turmoil::top::Link::deliver_messages": "an RST reply that cannot be queued (link partitioned) is dropped like any other message on that link",
}


def r11(ctx):
    R = "C02-R11"
    ctx.rule(R, "error discipline on the send / receive path of turmoil::net: the result of send_message / send / enqueue / receive_from_network / "
                "buffer / try_acquire / seq is examined or propagated; only the enumerated best-effort sites may discard it (a writer is "
                "blocked or told an error, never silently discarded)")
    dropped_results_rule(ctx, R, SEND_PATH, DISCARD_OK, ("turmoil",))
    ctx.floor(R, 15)


def r12(ctx):
    R = "C02-R12"
    ctx.rule(R, "source / destination are never swapped on the TCP send path: WriteHalf::send, ReadHalf's RST and connect's SYN call "
                "send_loopback / send_message with (pair.local, pair.remote) in that order; the loopback Envelope is {src: first, dst: second}")
    L, Rm = "field:turmoil::net::SocketPair::local", "field:turmoil::net::SocketPair::remote"
    n = 0
    for b in sorted(ctx.w.bodies.values(), key=lambda b: b.id):
        if b.crate != "turmoil" or "net::tcp::stream" not in b.id:
            continue
        for bb, t in b.calls(re.compile(r"World::send_message$|tcp::stream::send_loopback$")):
            off = 1 if t["f"].endswith("send_message") else 0
            a0 = Slicer(ctx.w).atoms(b, t["args"][off])
            a1 = Slicer(ctx.w).atoms(b, t["args"][off + 1])
            n += 1
            ok = L in a0 and Rm not in a0 and Rm in a1 and L not in a1
            rootb = b
            while rootb.parent and rootb.parent in ctx.w.bodies:
                rootb = ctx.w.bodies[rootb.parent]
            ctx.inst(R, f"{rootb.id}:{t['f'].rsplit('::', 1)[1]}#{n}", ok, t["s"], "(pair.local, pair.remote)" if ok else
                     f"`{t['f']}` in `{rootb.id}` is not called with (pair.local, pair.remote): the segment travels in the wrong direction")
    ctx.floor(R, 5)


def r13(ctx):
    R = "C02-R13"
    ctx.rule(R, "a FIN is never answered with a RST: a FIN carries no data, so nothing is lost when its addressee is gone - (a) in "
                "Tcp::receive_from_network the Fin arm's `no such stream` edge builds no Segment::Rst (the local side closed gracefully; "
                "there is no TIME-WAIT state and a RST would destroy what it sent before closing); (b) StreamSocket::buffer, which runs "
                "only while the stream's table entry exists (the read half may be dropped, the write half is still open), builds no RST at "
                "all: inbound segments nobody will read are discarded and the open direction is left alone")
    rf = ctx.body(R, "turmoil::host::Tcp::receive_from_network")
    if rf:
        rsts = [bb for bb, i, s in rf.all_stmts() if s["r"]["k"] == "agg" and s["r"].get("adt") == "turmoil::envelope::Segment" and s["r"].get("variant") == "Rst"]
        fin = [m["Fin"] for sbb, m, els, adt, pl in variant_edges(rf, lambda p: True) if adt == "turmoil::envelope::Segment" and "Fin" in m]
        bad = [x for x in rsts if fin and any(rf.dominated_by_edge(x, e) for e in fin)]
        ctx.inst(R, "receive:fin-to-closed-stream", bool(fin) and not bad, rf.site(bad[0]) if bad else rf.span,
                 "a FIN for a stream that is gone is dropped silently" if fin and not bad else
                 "a FIN that reaches a host after its stream was closed on both halves is answered with a RST: the RST removes the peer's socket and the "
                 "peer's reader gets ConnectionReset instead of the bytes this side wrote before closing, then EOF")
    bf = ctx.body(R, "turmoil::host::StreamSocket::buffer")
    if bf:
        # the socket is still in the table here (some half of the stream is alive): whatever arrives for a read half that was
        # dropped is discarded - a RST would remove the peer's socket and with it the direction that is still in use
        rsts = [(fb, bb) for fb in ctx.w.family(bf.id) for bb, i, s in fb.all_stmts()
                if i != "term" and s["r"]["k"] == "agg" and s["r"].get("adt") == "turmoil::envelope::Segment" and s["r"].get("variant") == "Rst"]
        ok = not rsts
        ctx.inst(R, "buffer:no-reset-while-a-half-is-open", ok, rsts[0][0].site(rsts[0][1]) if rsts else bf.span,
                 "segments for a dropped read half are discarded; the open write direction is left alone" if ok else
                 "StreamSocket::buffer answers a segment with a RST once the read half was dropped although the write half is still open: data (or a FIN) "
                 "from the peer kills the direction that is still in use - the peer's reader gets ConnectionReset instead of the bytes this side's writes accepted")
    ctx.floor(R, 2)


def r14(ctx):
    R = "C02-R14"
    ctx.rule(R, "what a read does not copy out is kept: ReadHalf::put_slice copies min(available, room) bytes and returns the rest for the next "
                "read; whether there is a rest is decided from the bytes themselves after the copy (is_empty / len of what remains), never from "
                "the caller's buffer - a test against the buffer's capacity drops the tail of a segment that straddles a partly filled buffer "
                "(read_exact across a segment boundary)")
    ps = ctx.body(R, "turmoil::net::tcp::stream::ReadHalf::put_slice")
    if not ps:
        return
    rets = [bb for bb, i, s in ps.all_stmts() if i != "term" and s["p"]["l"] == 0 and not s["p"].get("p") and s["r"]["k"] == "agg" and s["r"].get("variant") in ("None", "Some")]
    bad = set()
    for bb in rets:
        for sbb in control_switches(ps, bb):
            for a in Slicer(ctx.w).atoms(ps, ps.term(sbb)["d"]):
                if a.startswith("call:tokio::io::ReadBuf::") or a.startswith("arg:2:"):
                    bad.add(a)
    # `(!avail.is_empty()).then_some(avail)`: the decision is the receiver of then_some / then
    for bb, t in ps.calls(re.compile(r"^bool::(then_some|then)$")):
        if t["d"]["l"] == 0 or any(op_place(s["r"].get("o")) and op_place(s["r"]["o"])["l"] == t["d"]["l"] for b2, i, s in ps.all_stmts() if i != "term" and s["p"]["l"] == 0 and s["r"]["k"] == "use"):
            rets.append(bb)
            for a in Slicer(ctx.w).atoms(ps, t["args"][0]):
                if a.startswith("call:tokio::io::ReadBuf::") or a.startswith("arg:2:"):
                    bad.add(a)
    # `Some(avail).filter(|rest| !rest.is_empty())`: the decision is the predicate handed to Option::filter
    for bb, t in ps.calls(re.compile(r"^std::option::Option::filter$")):
        rets.append(bb)
        for cid in closure_args(ps, t):
            cb = ctx.w.bodies.get(cid)
            for bb2, t2 in (cb.calls() if cb else []):
                if t2["f"].startswith("tokio::io::ReadBuf::"):
                    bad.add("call:" + t2["f"])
                for a in t2["args"]:
                    for x in Slicer(ctx.w).atoms(cb, a):
                        if x.startswith("call:tokio::io::ReadBuf::") or (x.startswith("arg:2:") and x.endswith("::put_slice")):
                            bad.add(x)
    ctx.inst(R, "put_slice:rest-decided-by-the-bytes", bool(rets) and not bad, ps.span, "the rest is stashed whenever bytes remain after the copy" if rets and not bad else
             (f"ReadHalf::put_slice decides whether something is left from the caller's buffer ({sorted(bad)}) instead of from the bytes that remain after the copy: "
              "on a partly filled ReadBuf the tail of a segment is silently dropped" if bad else "put_slice no longer returns Option<rest>: re-derive"))
    # a read that copied stashed bytes into the caller's buffer returns them: nothing on the way from that copy to the return can
    # answer Pending (tokio hands `read()` a fresh ReadBuf on every poll - bytes copied before a Pending are lost)
    pr = ctx.w.bodies.get("turmoil::net::tcp::stream::ReadHalf::poll_read_priv")
    if pr:
        copies = [bb for bb, t in pr.calls("turmoil::net::tcp::stream::ReadHalf::put_slice")]
        polls = [bb for bb, t in pr.calls(re.compile(r"::poll_recv$|::poll_recv_many$|Future>::poll$"))]
        again = [(c, p_) for c in copies for p_ in polls if p_ in pr.reachable(c) and p_ != c]
        ctx.inst(R, "poll_read:a-copy-is-returned", bool(copies) and bool(polls) and not again, pr.term(again[0][0])["s"] if again else pr.span,
                 "after bytes were copied out the read returns Ready without polling the channel again" if copies and polls and not again else
                 ("ReadHalf::poll_read_priv polls the channel after it already copied stashed bytes into the caller's buffer: when no segment is queued "
                  "the poll answers Pending and the copied bytes are lost from the stream (ABCDEFGH, IJ is read as ABC..IJ)" if again else
                  "poll_read_priv: put_slice / poll_recv sites not found: re-derive"))
    elif ctx.strict:
        ctx.bad(R, "anchor-missing:poll_read_priv", "", "ReadHalf::poll_read_priv not found")
    # every segment handed to the reorder buffer enters it
    sb = ctx.w.bodies.get("turmoil::host::StreamSocket::buffer")
    if sb:
        ins = [bb for bb, t in sb.calls(re.compile(r"^indexmap::IndexMap::insert$|BTreeMap::insert$|HashMap::insert$")) if "turmoil::host::StreamSocket::buf" in _fields(sb, t["args"][0])]
        skip = [x for x in sb.exits() if not sb.dominated_by_any(x, blocks=ins)] if ins else sb.exits()
        ctx.inst(R, "reorder-buffer:every-segment-enters", bool(ins) and not skip, sb.term(skip[0]).get("s", sb.span) if skip else sb.span,
                 "no path through StreamSocket::buffer returns without storing the segment" if ins and not skip else
                 "StreamSocket::buffer can return without inserting the segment into the reorder buffer: a segment (a FIN is not credit-gated) that arrives "
                 "ahead of the ones before it is silently discarded - the reader gets every byte but never end-of-file")
    elif ctx.strict:
        ctx.bad(R, "anchor-missing:StreamSocket::buffer", "", "StreamSocket::buffer not found")
    ctx.floor(R, 3)


def _fields(b, op):
    o = deref_origin(b, op)
    return root_place(b, o["p"])[1] if o["k"] == "place" else []


def r15(ctx):
    R = "C02-R15"
    ctx.rule(R, "(a) the stream wrappers delegate each AsyncRead / AsyncWrite method to the method of the same name: OwnedReadHalf / OwnedWriteHalf / "
                "TcpStream::poll_X reach poll_X (or poll_X_priv) of the half they wrap and no other poll_ method - `shutdown()` on an owned write "
                "half that ends in poll_flush returns Ok and sends no FIN; (b) a writer that parks on flow-control credits leaves *its own* waker: "
                "FlowControl::register_waker stores the waker it is given unconditionally (a `get_or_insert` keeps the waker of a write that was "
                "cancelled, and the writer that is really parked is never woken)")
    n = 0
    for b in ctx.w.find(r"^<turmoil::net::tcp::.* as tokio::io::Async(Read|Write)>::poll_\w+$"):
        name = b.id.rsplit("::", 1)[1]
        polls = [t["f"] for bb, t in b.calls(re.compile(r"::poll_\w+$")) if t["f"].startswith(("turmoil::", "<turmoil::"))]
        if not polls:
            continue   # the innermost implementation (WriteHalf::poll_flush does nothing)
        n += 1
        other = sorted({f for f in polls if f.rsplit("::", 1)[1] not in (name, name + "_priv")})
        ctx.inst(R, f"delegates:{b.id}", not other, b.span, f"{name} is forwarded to {name}" if not other else
                 f"`{b.id}` forwards to `{other[0]}`: the operation asked for is not the one performed (a shutdown that only flushes returns Ok and the peer never sees end-of-file "
                 "while the half is alive)")
    ctx.floor(R, 8)
    rw = ctx.w.bodies.get("turmoil::net::tcp::stream::FlowControl::register_waker")
    if rw:
        W = "arg:2:"
        lazy = [t for bb, t in rw.calls(re.compile(r"Option::(get_or_insert|get_or_insert_with|or|or_else|xor)$"))]
        stores = [s2 for bb, i, s2 in rw.all_stmts() if i != "term" and s2["r"]["k"] == "agg" and s2["r"].get("variant") == "Some"
                  and any(a.startswith(W) for o in s2["r"].get("ops", []) for a in Slicer(ctx.w).atoms(rw, o))]
        stores += [t for bb, t in rw.calls(re.compile(r"Option::(replace|insert)$")) if any(a.startswith(W) for x in t["args"] for a in Slicer(ctx.w).atoms(rw, x))]
        ok = bool(stores) and not lazy
        ctx.inst(R, "register_waker:replaces", ok, (lazy[0]["s"] if lazy else rw.span), "the parked writer's waker replaces whatever was registered" if ok else
                 "FlowControl::register_waker keeps a waker that is already registered: after a parked write was cancelled (timeout, select!) the next writer that parks is never "
                 "registered - when the reader frees a credit the stale waker is woken and the real writer sleeps for ever (the rest of the stream and its FIN are never sent)")
    elif ctx.strict:
        ctx.bad(R, "anchor-missing:register_waker", "", "FlowControl::register_waker not found")


def run(ctx):
    r15(ctx)
    r14(ctx)
    from . import C12
    C12.r7(ctx)   # the stream's table entry lives as long as one half does: close_stream_half is called by the two Drop impls only
    r13(ctx)
    r12(ctx)
    r11(ctx)
    r10(ctx)
    from . import C03
    C03.r7(ctx, ops=("hold", "release"), R="C02-R9")    # a released link is healthy again in both directions (bytes keep flowing after hold / release)
    r7(ctx)
    r1(ctx)
    r2(ctx)
    r3(ctx)
    r4(ctx)
    r5(ctx)
    r6(ctx)


def extra(tier, repo, work, insts):
    """E5 compile-fail witnesses (thorough tier)"""
    if tier != "thorough":
        return []
    from engine.side import witnesses
    return witnesses("C02", repo, work)
