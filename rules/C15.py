"""C15 - ports and simulated addresses are never handed out twice while in use (structural part)."""
from .common import *

DECIDED = ("R1 Host::assign_ephemeral_port returns a candidate only behind the false edges of both Udp::is_port_assigned and "
           "Tcp::is_port_assigned applied to that candidate; Tcp::is_port_assigned compares the port of every bind key and the "
           "*local* port of every live stream, Udp::is_port_assigned every bind key; the cursor wraps to the range start; "
           "R2 Udp::bind and Tcp::bind insert only on the Vacant arm and return AddrInUse on Occupied, keyed by the port (sibling "
           "agreement); R3 ports come back: socket / listener / stream-half Drop impls release, and no stream entry is left "
           "un-owned (shared C12-R4); R4 host names: Dns::names is written only by entry(name).or_insert_with(|| addrs.next()), the "
           "address counter is only incremented, reverse lookup reads the same map.")
NOT_DECIDED = ("distinctness beyond the 16-bit v4 host space, wrap-around behaviour as histories, crash releasing ports as behaviour "
               "(C04 covers the destructors).")
DECIDED += "; R1 compares the very read that produced the returned port with the argument of both in-use checks (flow-sensitive read site)"
DECIDED += "; R5 names never receive the address of a host registered by literal address; R6 handles identify their own incarnation of a stream-table entry (recorded finding D33)"
DECIDED += '; R1 also: the in-use predicates depend on port numbers only (a port bound at any local address is in use)'
DECIDED += '; R5 also: every address the name allocator returns passed the taken test; R1 also: the port scan makes one attempt per port of the inclusive range'
DECIDED += '; R5 also: Dns::reserve records the address on every path'
ASSUMPTIONS = ["IndexMap::entry Occupied/Vacant semantics"]


def _on_field(b, op, field):
    o = deref_origin(b, op)
    if o["k"] == "place":
        _, fields = root_place(b, o["p"])
        return field in fields
    return False


def r1(ctx):
    R = "C15-R1"
    ctx.rule(R, "ephemeral allocation skips everything in use: return dominated by both is_port_assigned false edges on the candidate; "
                "the two predicates read Udp::binds, Tcp::binds and the local port of Tcp::sockets keys")
    b = ctx.body(R, "turmoil::host::Host::assign_ephemeral_port")
    if b:
        ute, ufe = call_guard_edges(b, "turmoil::host::Udp::is_port_assigned")
        tte, tfe = call_guard_edges(b, "turmoil::host::Tcp::is_port_assigned")
        rets = [(bb, s) for bb, i, s in b.all_stmts() if s["p"]["l"] == 0 and not s["p"].get("p")]
        for bb, s in rets:
            ok = all(guarded_by_pred(b, bb, lambda o, pat=pat: o["k"] == "call" and callee_matches(o["t"], pat), side=False)
                     for pat in ("turmoil::host::Udp::is_port_assigned", "turmoil::host::Tcp::is_port_assigned"))
            ctx.inst(R, "assign_ephemeral_port:return-guard", ok, s["s"], "port returned only if neither UDP nor TCP has it in use" if ok else
                     "assign_ephemeral_port can return a port without both in-use checks (UDP binds, TCP binds and live streams)")
            # the candidate tested is the candidate returned
            at = Slicer(ctx.w).atoms(b, s["r"].get("o")) if s["r"]["k"] == "use" else set()
            same = True
            for _, t in list(b.calls("turmoil::host::Udp::is_port_assigned")) + list(b.calls("turmoil::host::Tcp::is_port_assigned")):
                o1 = origin(b, t["args"][1])
                o2 = origin(b, s["r"]["o"]) if s["r"]["k"] == "use" else None
                if not o2 or o1.get("p") != o2.get("p"):
                    same = False
                # flow-sensitive: the very read that produced the returned value, not a later re-read of the (already advanced) cursor
                if s["r"]["k"] == "use" and read_site(b, t["args"][1]) != read_site(b, s["r"]["o"]):
                    same = False
            ctx.inst(R, "assign_ephemeral_port:same-candidate", same, s["s"], "the checked port is the returned port" if same else
                     "the in-use checks are applied to a different value than the returned port")
        if not rets:
            ctx.bad(R, "assign_ephemeral_port:return-guard", b.span, "no return value assignment found")
        # the scan looks at every port of the (inclusive) range once: one attempt per port. `end - start` attempts leave the port directly
        # behind the cursor unexamined - when it is the only free one the allocator reports exhaustion although a port was just released
        its = [t for bb, t in b.calls(re.compile(r"IntoIterator>::into_iter$|^std::iter::IntoIterator::into_iter$"))
               if "field:turmoil::host::Host::ephemeral_ports" in Slicer(ctx.w).atoms(b, t["args"][0])]
        # `let mut attempts = self.ephemeral_ports.clone(); while attempts.next().is_some() { .. }`: the range itself is the counter
        for bb, t in b.calls(re.compile(r"RangeInclusive as std::iter::Iterator>::next$")):
            if "field:turmoil::host::Host::ephemeral_ports" in Slicer(ctx.w).atoms(b, t["args"][0]) and not any(x is t for x in its):
                its.append(dict(t, _incl=True))
        okn = False
        why = "no loop over the ephemeral range found"
        for t in its:
            ty = b.ty_str(t["at"][0]) if t.get("at") else ""
            at = Slicer(ctx.w).atoms(b, t["args"][0])
            if "RangeInclusive<" in ty or t.get("_incl"):
                okn = True
            elif "Range<" in ty:
                o = origin(b, t["args"][0])
                end = o["r"]["ops"][1] if o["k"] == "agg" and len(o["r"].get("ops", [])) == 2 else None
                sh = expr_shape(b, end) if end is not None else None
                okn = any(re.search(r"::(count|len)$", a) for a in at) or (isinstance(sh, tuple) and sh[0] == "Add" and "const:1" in sh[1:])
                why = f"the loop makes {shape_str(sh) if sh is not None else '?'} attempts"
        ctx.inst(R, "assign_ephemeral_port:one-attempt-per-port", okn, its[0]["s"] if its else b.span, "the scan makes one attempt for every port of the inclusive range" if okn else
                 f"{why}, one short of the number of ports in the inclusive range: the port just behind the cursor is never examined - with every other port in use the allocator "
                 "panics `ports exhausted` although that port was released")
        # wrap-around: a write of ephemeral_ports.start() to next_ephemeral_port exists under the `== end` test
        wr = [s for bb, i, s in b.all_stmts() if place_last_field(s["p"]) == "turmoil::host::Host::next_ephemeral_port"]
        wraps = any("call:std::ops::RangeInclusive::start" in Slicer(ctx.w).atoms(b, s["r"]["o"]) for s in wr if s["r"]["k"] == "use")
        # one assignment from an `if` expression: `self.next = if candidate == last { first } else { candidate + 1 }`
        two = len(wr) >= 2 or any(s["r"]["k"] == "use" and op_place(s["r"]["o"]) is not None and len(b.defs().get(op_place(s["r"]["o"])["l"], [])) >= 2 for s in wr)
        ctx.inst(R, "assign_ephemeral_port:wraps", wraps and two, b.span, "cursor wraps to the start of the range" if wraps else
                 "cursor no longer wraps to ephemeral_ports.start()")
    t = ctx.body(R, "turmoil::host::Tcp::is_port_assigned")
    if t:
        fam = ctx.w.family(t.id)
        keys = [tt for bb, tt in t.calls(re.compile(r"^indexmap::IndexMap::(keys|contains_key|get|iter)$"))]
        on_binds = any(_on_field(t, tt["args"][0], "turmoil::host::Tcp::binds") for tt in keys)
        on_socks = any(_on_field(t, tt["args"][0], "turmoil::host::Tcp::sockets") for tt in keys)
        ctx.inst(R, "tcp:reads-binds-and-streams", on_binds and on_socks, t.span, "scans listener binds and live streams" if on_binds and on_socks else
                 "Tcp::is_port_assigned no longer scans both the listener binds and the live streams")
        # the stream closure must compare the LOCAL port
        okl = False
        bad = False
        for fb in fam:
            for bb, i, s in fb.all_stmts():
                for pl in ([s["r"]["p"]] if "p" in s["r"] and isinstance(s["r"].get("p"), dict) else []) + [op_place(o) for o in _ops(s["r"]) if op_place(o)]:
                    fs = place_fields(pl)
                    if "turmoil::net::SocketPair::local" in fs:
                        okl = True
                    if "turmoil::net::SocketPair::remote" in fs:
                        bad = True
        ctx.inst(R, "tcp:compares-local-port", okl and not bad, t.span, "live streams are matched by their local port" if okl and not bad else
                 "Tcp::is_port_assigned matches live streams by the remote port (or not by SocketPair::local): a local port in use by a stream is handed out again")
    u = ctx.body(R, "turmoil::host::Udp::is_port_assigned")
    if u:
        keys = [tt for bb, tt in u.calls(re.compile(r"^indexmap::IndexMap::(keys|contains_key|get)$"))]
        ok = any(_on_field(u, tt["args"][0], "turmoil::host::Udp::binds") for tt in keys)
        ctx.inst(R, "udp:reads-binds", ok, u.span, "scans UDP binds" if ok else "Udp::is_port_assigned no longer reads Udp::binds")
    # in use means bound at *any* local address (the property's words): the verdict of either predicate depends on port numbers only
    for fid in ("turmoil::host::Udp::is_port_assigned", "turmoil::host::Tcp::is_port_assigned"):
        fb0 = ctx.w.bodies.get(fid)
        if not fb0:
            continue
        seen = []
        for fb in ctx.w.family(fid):
            for bb, tt in fb.calls(re.compile(r"::(is_loopback|is_unspecified|is_multicast|ip|is_ipv4|is_ipv6)$")):
                seen.append(tt["f"].rsplit("::", 1)[1] + "()")
            for bb, i, s2 in fb.all_stmts():
                for pl in ([s2["r"]["p"]] if isinstance(s2["r"].get("p"), dict) else []) + [op_place(o) for o in _ops(s2["r"]) if op_place(o)]:
                    for f in place_fields(pl):
                        if f.endswith("::bind_addr"):
                            seen.append(f.rsplit("::", 2)[-2] + "::bind_addr")
        ctx.inst(R, f"{fid.rsplit('::', 2)[-2].lower()}:address-blind", not seen, fb0.span, "the verdict depends on port numbers only" if not seen else
                 f"`{fid}` looks at addresses ({sorted(set(seen))}): a port bound at some local address (e.g. loopback) no longer counts as in use and is handed out "
                 "again by ephemeral assignment")
    # callers: every place that needs a fresh port calls assign_ephemeral_port
    ctx.floor(R, 8)


def _ops(r):
    out = []
    for kk in ("o", "a", "b"):
        if kk in r and isinstance(r[kk], dict):
            out.append(r[kk])
    out += r.get("ops", [])
    return out


def r2(ctx):
    R = "C15-R2"
    ctx.rule(R, "Udp::bind and Tcp::bind (siblings): IndexMap::entry(addr.port()); Occupied arm returns Err(AddrInUse); the only insertion "
                "is VacantEntry::insert on the Vacant arm")
    for fid, fld in (("turmoil::host::Udp::bind", "turmoil::host::Udp::binds"), ("turmoil::host::Tcp::bind", "turmoil::host::Tcp::binds")):
        b = ctx.body(R, fid)
        if not b:
            continue
        ent = [(bb, t) for bb, t in b.calls(re.compile(r"^indexmap::IndexMap::entry$")) if _on_field(b, t["args"][0], fld)]
        ins = [(bb, t) for bb, t in b.calls(re.compile(r"^indexmap::map::VacantEntry::insert$|^indexmap::IndexMap::(insert|insert_full|shift_insert)$|Entry::(or_insert|or_insert_with|insert_entry)$"))]
        ves = [v for v in variant_edges(b, lambda p: True) if v[3] == "indexmap::map::Entry"]
        ok = len(ent) == 1 and len(ves) >= 1
        msg = []
        if ok:
            sbb, m, els, adt, pl = ves[0]
            occ, vac = m.get("Occupied"), m.get("Vacant")
            for bb, t in ins:
                if not (t["f"].endswith("VacantEntry::insert") and vac and b.dominated_by_edge(bb, vac)):
                    ok = False
                    msg.append(f"insertion `{t['f']}` outside the Vacant arm")
            if not ins:
                ok = False
                msg.append("no insertion")
            if occ:
                r_ = b.reachable(occ[1])
                inuse = any(s["r"]["k"] == "agg" and s["r"].get("variant") == "AddrInUse" for x in r_ for s in b.stmts(x))
                okret = any(b.term(x)["k"] == "return" for x in r_) and not any(x in r_ for x, _ in ins)
                if not (inuse and okret):
                    ok = False
                    msg.append("Occupied arm does not fail with AddrInUse")
            else:
                ok = False
            key_at = Slicer(ctx.w).atoms(b, ent[0][1]["args"][1])
            if "call:std::net::SocketAddr::port" not in key_at:
                ok = False
                msg.append("entry key is not addr.port()")
        if not ok and not ent:
            # accepted alternative: `if binds.contains_key(&port) { return Err(AddrInUse) } .. binds.insert(port, ..)`
            te_all, fe_all = [], []
            for sbb, te, fe, o in guards_on(b, lambda o: o["k"] == "call" and re.search(r"^indexmap::IndexMap::contains_key$", o["t"]["f"])):
                t = o["t"]
                if _on_field(b, t["args"][0], fld) and "call:std::net::SocketAddr::port" in Slicer(ctx.w).atoms(b, t["args"][1]):
                    te_all += te
                    fe_all += fe
            fins = [(bb, t) for bb, t in ins if t["f"].startswith("indexmap::IndexMap::") and _on_field(b, t["args"][0], fld)]
            if te_all and fins:
                keyed = all("call:std::net::SocketAddr::port" in Slicer(ctx.w).atoms(b, t["args"][1]) for bb, t in fins)
                guarded = all(b.dominated_by_any(bb, edges=fe_all) for bb, t in fins)
                r_ = set()
                for e in te_all:
                    r_ |= b.reachable(e[1])
                inuse = any(s2["r"]["k"] == "agg" and s2["r"].get("variant") == "AddrInUse" for x in r_ for s2 in b.stmts(x))
                okret = any(b.term(x)["k"] == "return" for x in r_) and not any(x in r_ for x, _ in fins)
                ok = keyed and guarded and inuse and okret
                msg = [] if ok else ["contains_key guard does not protect the insertion / does not fail with AddrInUse"]
        ctx.inst(R, f"{fid}:occupied-vacant", ok, b.span, "duplicate bind rejected with AddrInUse, insertion only when vacant" if ok else
                 f"`{fid}`: " + ("; ".join(msg) or "not an entry()/Occupied/Vacant bind") + " - a port in use can be bound twice")
    ctx.floor(R, 2)


def r3(ctx):
    R = "C15-R3"
    ctx.rule(R, "ports come back: Drop for UdpSocket / TcpListener / ReadHalf / WriteHalf reach their unbind / release call on every "
                "path inside World::current_if_set; Udp::unbind / Tcp::unbind remove the bind entry; no stream entry without owner (C12-R4)")
    table = [("turmoil::net::udp::UdpSocket", re.compile(r"Udp::unbind$")),
             ("turmoil::net::tcp::listener::TcpListener", re.compile(r"Tcp::unbind$")),
             ("turmoil::net::tcp::stream::ReadHalf", re.compile(r"Tcp::(reset_stream|close_stream_half)$")),
             ("turmoil::net::tcp::stream::WriteHalf", re.compile(r"Tcp::(reset_stream|close_stream_half)$"))]
    for adt, rel in table:
        d = ctx.w.drop_impl(adt)
        if not d:
            ctx.bad(R, f"drop:{adt}", "", f"`{adt}` has no Drop impl: its port is never released")
            continue
        db = ctx.w.bodies[d]
        ok = False
        for bb, t in db.calls("turmoil::world::World::current_if_set"):
            if always_passes(db, [bb]):
                continue
            for cid in closure_args(db, t):
                cb = ctx.w.bodies.get(cid)
                if cb and always_calls(ctx.w, cb, rel):
                    ok = True
        ctx.inst(R, f"drop:{adt}", ok, db.span, "Drop releases on every path" if ok else f"Drop for `{adt}` has a path that does not release its table entry / port")
    for fid, fld in (("turmoil::host::Udp::unbind", "turmoil::host::Udp::binds"), ("turmoil::host::Tcp::unbind", "turmoil::host::Tcp::binds")):
        b = ctx.body(R, fid)
        if b:
            rm = [bb for bb, t in b.calls(re.compile(r"^indexmap::IndexMap::(swap_remove|shift_remove|remove)$")) if _on_field(b, t["args"][0], fld)]
            ok = bool(rm) and not always_passes(b, rm)
            ctx.inst(R, f"{fid}:removes", ok, b.span, "unbind removes the entry on every path" if ok else f"`{fid}` does not always remove the bind entry")
    for fid in ("turmoil::host::Tcp::reset_stream", "turmoil::host::Tcp::close_stream_half"):
        b = ctx.body(R, fid)
        if b:
            rm = [bb for bb, t in b.calls(re.compile(r"^indexmap::IndexMap::(swap_remove|shift_remove|remove)$")) if _on_field(b, t["args"][0], "turmoil::host::Tcp::sockets")]
            if not rm and fid.endswith("close_stream_half"):
                rm = [bb for bb, t in b.calls("turmoil::host::Tcp::reset_stream")]   # the last half removes the entry through the sibling that removes it outright
            ctx.inst(R, f"{fid}:removes", bool(rm), b.span, "removes the stream entry" if rm else f"`{fid}` never removes the stream entry")
    from . import C12
    C12.r4(ctx)
    ctx.floor(R, 8)


def _bit_range(b, op, width):
    """[lo, hi) of the counter bits an address component is built from: cast(BitAnd(Shr(host, k), mask)) shapes; None if constant"""
    o = origin(b, op)
    if o["k"] == "const":
        return None
    shift, mask_bits, cast_bits = 0, None, None
    cur = o
    # `let [_, _, a, b] = host.to_be_bytes()`: element i of the byte array of an N-byte integer
    if cur["k"] == "place" and cur["p"].get("p") and len(cur["p"]["p"]) == 1 and isinstance(cur["p"]["p"][0], dict) and "ci" in cur["p"]["p"][0] \
            and not cur["p"]["p"][0].get("fe"):
        src = origin(b, {"c": {"l": cur["p"]["l"]}})
        if src["k"] == "call":
            m = re.search(r"<impl u(\d+)>::to_(be|le)_bytes$|::u(\d+)::to_(be|le)_bytes$|^u(\d+)::to_(be|le)_bytes$", src["t"]["f"])
            if m:
                g = [x for x in m.groups() if x]
                nbytes, endian, i = int(g[0]) // 8, g[1], cur["p"]["p"][0]["ci"]
                lo = (nbytes - 1 - i) * 8 if endian == "be" else i * 8
                inner = _bit_range(b, src["t"]["args"][0], 10 ** 6)
                base = inner[0] if inner and inner[0] != "?" else 0
                return (base + lo, base + lo + 8)
        return ("?", "?")
    for _ in range(8):
        if cur["k"] == "cast":
            dst = b.tys[cur["ty"]]["s"]
            m = re.match(r"u(\d+)$", dst)
            if m:
                cast_bits = int(m.group(1)) if cast_bits is None else min(cast_bits, int(m.group(1)))
            cur = cur["o"]
        elif cur["k"] == "bin" and cur["op"] == "BitAnd":
            c = op_const(cur["b"]) or op_const(cur["a"])
            other = cur["a"] if op_const(cur["b"]) else cur["b"]
            if c is None or "v" not in c:
                return ("?", "?")
            v = c["v"]
            if v & (v + 1) != 0:
                return ("?", "?")
            mask_bits = v.bit_length()
            cur = origin(b, other)
        elif cur["k"] == "bin" and cur["op"] in ("Shr", "ShrUnchecked"):
            c = op_const(cur["b"])
            if c is None or "v" not in c:
                return ("?", "?")
            shift += c["v"]
            cur = origin(b, cur["a"])
        else:
            break
    bits = min(x for x in (mask_bits, cast_bits, width) if x is not None)
    return (shift, shift + bits)


def r4(ctx):
    R = "C15-R4"
    ctx.rule(R, "names are stable and distinct: Dns::names is mutated only through entry(..).or_insert_with(closure calling "
                "IpVersionAddrIter::next); next() only increments its counter; reverse() scans the same map")
    NAMES = "turmoil::dns::Dns::names"
    mut = re.compile(r"^indexmap::IndexMap::(insert|insert_full|swap_remove|shift_remove|remove|clear|retain|drain|pop|entry|extend|get_mut|get_index_mut|iter_mut|values_mut|sort|reverse|swap_indices|move_index|truncate|split_off)")
    n = 0
    for b in sorted(ctx.w.bodies.values(), key=lambda b: b.id):
        if b.crate != "turmoil":
            continue
        for bb, t in b.calls(mut):
            if not t["args"] or not _on_field(b, t["args"][0], NAMES):
                continue
            n += 1
            m = t["f"].rsplit("::", 1)[1]
            k = f"{b.id}:{m}"
            if m == "entry":
                # result must flow into or_insert_with whose closure calls IpVersionAddrIter::next
                ok = False
                for bb2, t2 in b.calls(re.compile(r"^indexmap::map::Entry::or_insert_with$")):
                    for cid in closure_args(b, t2):
                        cb = ctx.w.bodies.get(cid)
                        if cb and any(True for _ in cb.calls("turmoil::ip::IpVersionAddrIter::next")):
                            ok = True
                if not ok:
                    # `match names.entry(name) { Occupied(known) => *known.get(), Vacant(slot) => *slot.insert(next free address) }`
                    for sbb, m, els, adt, pl in variant_edges(b, lambda p: True):
                        if adt != "indexmap::map::Entry" or "Vacant" not in m or "Occupied" not in m:
                            continue
                        ins = [x for x, t3 in b.calls(re.compile(r"^indexmap::map::VacantEntry::insert(_entry)?$"))
                               if "call:turmoil::ip::IpVersionAddrIter::next" in Slicer(ctx.w).atoms(b, t3["args"][1])]
                        occ = b.reachable(m["Occupied"][1])
                        draws = [x for x, _ in b.calls("turmoil::ip::IpVersionAddrIter::next")]
                        ok = bool(ins) and all(b.dominated_by_edge(x, m["Vacant"]) for x in ins + draws) and not any(x in occ for x in ins + draws)
                ctx.inst(R, k, ok, t["s"], "name gets the next address on first sight and keeps it" if ok else
                         "names.entry(..) is not completed by or_insert_with(|| addrs.next()): a known name can be re-mapped or two names share an address")
            else:
                ctx.bad(R, k, t["s"], f"`{t['f']}` mutates the name table outside first-sight insertion: name -> address is no longer stable")
    nx = ctx.body(R, "turmoil::ip::IpVersionAddrIter::next")
    if nx:
        adds = [t for bb, t in nx.calls(re.compile(r"^core::num::<impl u(32|128)>::wrapping_add$|::wrapping_add$|::checked_add$"))]
        ones = all(op_const(t["args"][1]) is not None and op_const(t["args"][1]).get("v") == 1 for t in adds)
        ctx.inst(R, "addr-counter:increments", len(adds) == 2 and ones, nx.span, "both counters advance by exactly one per allocation" if len(adds) == 2 and ones else
                 "the address counter is not advanced by exactly one per allocated address")
        # the address is built from the pre-increment value
    if nx:
        for ctor, width in (("std::net::Ipv4Addr::new", 8), ("std::net::Ipv6Addr::new", 16)):
            for bb, t in nx.calls(ctor):
                ranges = []
                for a in t["args"]:
                    r_ = _bit_range(nx, a, width)
                    if r_:
                        ranges.append(r_)
                ranges.sort()
                ok = bool(ranges) and ranges[0][0] == 0 and all(ranges[i][1] == ranges[i + 1][0] for i in range(len(ranges) - 1))
                ctx.inst(R, f"addr-bits:{ctor.rsplit('::', 2)[-2]}", ok, t["s"], f"counter bits {ranges} tile the address without gap or overlap" if ok else
                         f"the counter bits placed into the address are {ranges}: they do not tile [0, n) contiguously, so two different counter values (names) map to the same address")
    rv = ctx.body(R, "turmoil::dns::Dns::reverse")
    if rv:
        ok = any(t["args"] and _on_field(rv, t["args"][0], NAMES) for bb, t in rv.calls(re.compile(r"^indexmap::IndexMap::iter$|IntoIterator>::into_iter$|^std::iter::IntoIterator::into_iter$")))
        ctx.inst(R, "reverse:same-map", ok, rv.span, "reverse lookup scans Dns::names" if ok else "reverse lookup does not read Dns::names")
    ctx.floor(R, 5)


def r5(ctx):
    R = "C15-R5"
    ctx.rule(R, "a name is never given an address that a registered host already holds: hosts may be registered by a literal address "
                "inside the simulated subnet, which the name allocator (a bare counter) knows nothing about - so World::register must "
                "tell Dns about every registered address (a call into Dns with the address, or a write to a Dns field) and the "
                "allocation must test the candidate against that set before it is inserted for a name")
    reg = ctx.body(R, "turmoil::world::World::register")
    told = False
    if reg:
        for fb in ctx.w.family(reg.id):
            for bb, t in fb.calls(re.compile(r"^turmoil::dns::Dns::")):
                if any(any(a.startswith("arg:2:") for a in Slicer(ctx.w).atoms(fb, x)) for x in t["args"][1:]):
                    told = True
            for bb, i, s in fb.all_stmts():
                if any(f.startswith("turmoil::dns::Dns::") for f in place_fields(s["p"])):
                    told = True
            # ... or (an inlined helper) a mutating call on a Dns field that is handed the address
            for bb, t in fb.calls(re.compile(r"::(insert|insert_full|push|push_back|extend|entry)$")):
                if t["args"] and any(a.startswith("field:turmoil::dns::Dns::") for a in Slicer(ctx.w).atoms(fb, t["args"][0])) and \
                        any(any(a.startswith("arg:2:") for a in Slicer(ctx.w).atoms(fb, x)) for x in t["args"][1:]):
                    told = True
    # ... and Dns remembers every address it is told about: Dns::reserve records unconditionally (a reservation skipped because the
    # allocator "has passed" the address is off by one exactly when the literal address is the allocator's next draw)
    rs = ctx.w.bodies.get("turmoil::dns::Dns::reserve")
    if rs:
        rec = [bb for bb, t in rs.calls(re.compile(r"::(insert|insert_full|push|push_back)$")) if t["args"] and any(a.startswith("field:turmoil::dns::Dns::") for a in Slicer(ctx.w).atoms(rs, t["args"][0]))]
        skip = [x for x in rs.exits() if not (rec and rs.dominated_by_any(x, blocks=rec))]
        ctx.inst(R, "reserve:records-on-every-path", bool(rec) and not skip, rs.span, "every registered address is recorded" if rec and not skip else
                 "Dns::reserve records the address only under a condition: a host registered by a literal address the condition lets through is unknown to the allocator - the next new "
                 "name resolves to that host's address and registering the name panics `already registered host`")
    tested = False
    for b in ctx.w.bodies.values():
        if b.crate != "turmoil" or "dns" not in b.id:
            continue
        nx = [bb for bb, t in b.calls("turmoil::ip::IpVersionAddrIter::next")]
        if not nx:
            continue
        for sbb, te, fe, o in guards_on(b, lambda o: o["k"] == "call" and re.search(r"::(contains|contains_key)$", o["t"]["f"])):
            if any(a.startswith("call:turmoil::ip::IpVersionAddrIter::next") for a in Slicer(ctx.w).atoms(b, o["t"]["args"][1])):
                tested = True
    # every address the allocator hands out was tested: a draw that is returned without passing the `taken` test (the second draw of a
    # single `if` instead of a loop) lands on the next literal host when two of them are adjacent
    untested = []
    for b in ctx.w.bodies.values():
        if b.crate != "turmoil" or "dns" not in b.id:
            continue
        for nbb, nt in b.calls("turmoil::ip::IpVersionAddrIter::next"):
            if nt["d"].get("p"):
                continue
            d = nt["d"]["l"]
            guards = []
            for sbb, te, fe, o in guards_on(b, lambda o: o["k"] == "call" and re.search(r"::(contains|contains_key)$", o["t"]["f"])):
                og = deref_origin(b, o["t"]["args"][1])
                if (og.get("k") == "call" and og.get("bb") == nbb) or (og.get("k") == "place" and og["p"]["l"] == d and not og["p"].get("p")):
                    guards += fe
            rl = ret_locals(b)
            outs = [nbb] if d == 0 else []
            outs += [bb for bb, i, s2 in b.all_stmts() if i != "term" and not s2["p"].get("p") and s2["p"]["l"] in rl and s2["r"]["k"] == "use"
                     and (op_place(s2["r"]["o"]) or {}).get("l") == d and not (op_place(s2["r"]["o"]) or {}).get("p")]
            for x in outs:
                if not (guards and x != nbb and b.dominated_by_any(x, edges=guards)):
                    untested.append(nt["s"])
    tested = tested and not untested
    ok = told and tested
    ctx.inst(R, "names-avoid-registered-addresses", ok, reg.span if reg else "", "registered addresses are reserved and skipped by the name allocator" if ok else
             "the name allocator never learns which addresses are taken by hosts registered by literal address: sim.client(192.168.0.3, ..) followed by three "
             "names gives `host-2` the address 192.168.0.3 - two hosts, one address; reverse lookup names the wrong host and registering `host-2` panics")
    ctx.floor(R, 1)


def r6(ctx):
    R = "C15-R6"
    ctx.rule(R, "a handle acts only on its own incarnation of a stream-table entry: entries of Tcp::sockets are keyed by SocketPair, they are "
                "removed behind the back of live handles (the Rst arm of receive_from_network, reset_stream), and the same pair can then be "
                "registered again once the ephemeral cursor wraps - so Tcp::close_stream_half / reset_stream / the Drop impls of the halves "
                "must identify the entry by more than the pair (a generation / incarnation argument compared with the entry). Otherwise the "
                "stale handle of a reset stream tears down the newer live stream and frees its port while it is in use")
    rf = ctx.body(R, "turmoil::host::Tcp::receive_from_network")
    ch = ctx.w.fns.get("turmoil::host::Tcp::close_stream_half")
    if not rf or not ch:
        if ctx.strict and not ch:
            ctx.bad(R, "anchor-missing:Tcp::close_stream_half", "", "close_stream_half not found")
        return
    removes_behind = any(True for bb, t in rf.calls(re.compile(r"^indexmap::IndexMap::(swap_remove|shift_remove|remove)$"))
                         if "field:turmoil::host::Tcp::sockets" in Slicer(ctx.w).atoms(rf, t["args"][0]))
    tys = ctx.w.tys[ch["crate"]]
    params = [tys[i]["s"] for i in ch["inputs"][1:]]
    only_pair = len(params) == 1 and params[0].endswith("SocketPair")
    ok = not (removes_behind and only_pair)
    ctx.inst(R, "stream-entry:incarnation", ok, ch["span"], "handles identify their own incarnation of the entry" if ok else
             "stream-table entries are removed while handles to them exist (RST) and Tcp::close_stream_half(pair) finds the entry by SocketPair alone: after the "
             "ephemeral cursor wraps, a new stream with the same pair is torn down by the old handle's Drop - its port (49152) is handed out again while the stream is live, "
             "its writes fail with BrokenPipe and its peer receives a FIN it never sent")
    ctx.floor(R, 1)


def run(ctx):
    from . import C04
    C04.r2(ctx)   # a port comes back when its host crashes: the crash cancels every task of the host, whether or not its main future is still running
    r6(ctx)
    r5(ctx)
    r1(ctx)
    r2(ctx)
    r3(ctx)
    r4(ctx)
