"""C01 - same seed, configuration and programs give the same execution (structural hygiene part)."""
from .common import *

DECIDED = ("R1 no order-exposing use of a RandomState-keyed std collection; R2 entropy / wall-clock / identity sources only at "
           "enumerated, verified sites; R3 every tokio runtime built is current-thread, paused, time-enabled and (crate turmoil) "
           "seeded from the world RNG; R4 every random draw / seeding is rooted in the seeded generators; R5 process-global "
           "mutable state is an enumerated table with enumerated accessors; R6 hosts are stepped in IndexMap order, optionally "
           "shuffled with the world RNG.")
NOT_DECIDED = ("determinism of tokio / rand / indexmap / regex internals (trusted); deterministic-but-wrong logic; the trace "
               "equality itself.")
DECIDED += "; R7 the virtual clock is read only from host code or under an entered runtime (tokio's Instant::now() is the wall clock elsewhere)"
DECIDED += '; R8 enter-guards restore their thread-locals on every path of drop, and a guard-managed Cell thread-local is written only by the function that builds the guard and by the guard'
DECIDED += "; R9 the host's tasks are destroyed (crash / bounce) while a runtime is entered: destructors read the virtual clock, not the wall clock (shared C05-R11)"
DECIDED += "; R8 also: a nesting guard writes back the value it saved; the software factory runs inside the host's runtime (shared C04-R5)"
DECIDED += '; the client and the host runtime are built alike (shared C05-R5); entering a scope installs its own value of a scoped thread-local on every path'
DECIDED += '; R10 a Builder setter stores its argument on every path; the key of a hashed collection (hasher / hash_one / build_hasher) is an entropy source (R2)'
DECIDED += '; a dropped barrier is unregistered under the id it was registered with (shared C20-R4)'
ASSUMPTIONS = ["IndexMap/IndexSet/VecDeque/Vec/BTreeMap iterate in a process-independent order",
               "SmallRng::seed_from_u64/from_seed are pure functions of the seed"]

HASHY = ("std::collections::HashMap", "std::collections::HashSet")
KEYED_USE = re.compile(
    r"^std::collections::Hash(Map|Set)::(new|with_capacity|insert|get|get_mut|get_key_value|contains|contains_key|remove|"
    r"remove_entry|take|entry|len|is_empty|clear|reserve|shrink_to_fit|replace)$|"
    r"^<std::collections::Hash(Map|Set) as std::(clone::Clone|cmp::PartialEq|default::Default)>::|"
    r"^std::collections::hash_map::(Entry|OccupiedEntry|VacantEntry)::(or_insert|or_insert_with|or_default|and_modify|insert|"
    r"get|get_mut|into_mut|key|remove|remove_entry)$")


def _is_hashy(t, body):
    if t.get("k") != "adt":
        return False
    a = t["adt"]
    if a in HASHY:
        # hasher parameter: HashMap<K,V,S,A> / HashSet<T,S,A>; anything but a fixed, seedless hasher is random
        hs = [body.tys[x] for x in t.get("args", ()) if isinstance(x, int)]
        return any(h.get("adt") == "std::hash::RandomState" for h in hs)
    if a.startswith(("std::collections::hash_map::", "std::collections::hash_set::")) and \
            not a.startswith(("std::collections::hash_map::Entry", "std::collections::hash_map::OccupiedEntry",
                              "std::collections::hash_map::VacantEntry", "std::collections::hash_map::DefaultHasher",
                              "std::collections::hash_map::RandomState")):
        return True
    return False


def r1(ctx):
    R = "C01-R1"
    ctx.rule(R, "every call that receives or returns a std HashMap/HashSet keyed by RandomState (or one of their iterators) "
                "must be a keyed use (insert/get/contains/remove/entry/len/clear/clone/eq); iteration, draining, retain, "
                "extend, Debug or passing it on exposes the per-process random order")
    colls = 0
    cnt = {}
    for b in sorted(ctx.w.bodies.values(), key=lambda b: b.id):
        for bb, t in b.calls():
            tys = list(t.get("at", ()))
            dt = b.locals[t["d"]["l"]]["ty"] if not t["d"].get("p") else None
            if dt is not None:
                tys.append(dt)
            if not any(type_mentions(b, x, _is_hashy) for x in tys):
                continue
            if is_macro_noise(t):
                continue
            f = t["f"]
            k = f"{b.id}:{f}#{nth(cnt, (b.id, f))}"
            if KEYED_USE.search(f):
                ctx.ok(R, k, t["s"], "keyed use of a RandomState collection")
            else:
                ctx.bad(R, k, t["s"], f"`{f}` receives/returns a RandomState-keyed std collection: its result depends on "
                        "the per-process hash keys (order-exposing or escaping use)")
        # Drop of the collection itself is fine; a `for` loop shows up as IntoIterator::into_iter above
    # inventory of ADT fields holding such collections (they must go through R1 at every use)
    for name, a in sorted(ctx.w.adts.items()):
        if not a.get("local"):
            continue
        tys = ctx.w.tys[a["crate"]]

        class _V:
            pass
        v = _V()
        v.tys = tys
        v.peel = lambda t, tys=tys: t
        for var in a["variants"]:
            for f in var["fields"]:
                if "ty" in f and type_mentions(v, f["ty"], _is_hashy):
                    ctx.info(R, f"field:{name}::{f['name']}", a.get("span", ""),
                             "struct field holds a RandomState-keyed collection (every use is checked above)")
    # positive control: the rule's type predicate must recognise the fixture's known-bad shape (checked in selftest)
    ctx.floor(R, 1)


ENTROPY = re.compile(
    r"^std::time::SystemTime::now$|^std::time::Instant::now$|::from_os_rng$|::try_from_os_rng$|::from_entropy$|^rand::rng$|"
    r"^rand::thread_rng$|^rand::random$|^rand::random_range$|^rand::random_bool$|^rand::random_iter$|^rand::random_ratio$|"
    r"^rand::fill$|^getrandom::|^uuid::Uuid::new_v[1467]$|^uuid::Uuid::now_v|"
    r"^std::hash::RandomState::new$|^<std::hash::RandomState as std::default::Default>::default$|"
    r"^std::env::(var|var_os|vars|vars_os|args|args_os|current_dir|temp_dir)$|^std::process::id$|^std::thread::current$|"
    r"^std::ptr::(const_ptr|mut_ptr)::.*::(addr|expose_provenance)$|::expose_provenance$|^<\*(const|mut) T>::addr$|"
    r"^tokio::time::Instant::into_std$|^std::thread::spawn$|^tokio::runtime::Builder::new_multi_thread$|"
    r"^tokio::task::spawn_blocking$|^std::collections::hash_map::DefaultHasher::new$|"
    # the per-process key of a hashed collection read back as a number: `map.hasher().hash_one(x)`, `BuildHasher::build_hasher`
    r"^indexmap::Index(Map|Set)::hasher$|^std::collections::Hash(Map|Set)::hasher$|BuildHasher>::hash_one$|^std::hash::BuildHasher::hash_one$|"
    r"BuildHasher>::build_hasher$|^std::hash::BuildHasher::build_hasher$")

# allow table: (function family root, callee regex) -> (reason, verifier)
def _verify_config_default(ctx, b, bb, t):
    # value may only flow into the `epoch` field of the Config aggregate
    l = t["d"]["l"]
    for bb2, i, s in b.all_stmts():
        r = s["r"]
        if r["k"] == "agg" and r.get("adt") == "turmoil::config::Config":
            for name, o in zip(r["fields"], r["ops"]):
                if op_base(o) == l and name != "epoch":
                    return f"SystemTime::now() flows into Config::{name}"
            return None
    return "Config aggregate not found"


def _verify_builder_build(ctx, b, bb, t):
    # the call must sit on the None edge of the match on Builder::rng_seed
    for sbb, m, els, adt, pl in variant_edges(b, lambda p: place_has_field(p, "turmoil::builder::Builder::rng_seed")):
        some_e = m.get("Some")
        none_e = m.get("None") or els
        if some_e and b.dominated_by_edge(bb, none_e) and bb not in b.reachable(some_e[1], removed_blocks=[sbb]):
            return None
        if none_e and b.dominated_by_edge(bb, none_e):
            return None
    return "from_os_rng is not confined to the `rng_seed == None` arm"


def _verify_barrier_id(ctx, b, bb, t):
    # ids may only be compared for equality
    bad = []
    for fld in ("turmoil::barriers::BarrierState::id", "turmoil::barriers::Barrier::id"):
        for ob in ctx.w.bodies.values():
            if ob.crate != "turmoil":
                continue
            for bb2, t2 in ob.calls():
                for a in t2["args"]:
                    o = deref_origin(ob, a)
                    if o["k"] == "place" and place_last_field(o["p"]) == fld:
                        if not re.search(r"PartialEq>::(eq|ne)$|^std::cmp::PartialEq::(eq|ne)$|Clone>::clone$", t2["f"]) \
                                and not is_macro_noise(t2):
                            bad.append(f"{ob.id} -> {t2['f']}")
    return None if not bad else "barrier id used other than for equality: " + ", ".join(bad[:3])


def _verify_direct_io(ctx, b, bb, t):
    return None


ALLOW_CALLS = [
    ("<turmoil::config::Config as std::default::Default>::default", r"^std::time::SystemTime::now$",
     "default epoch; overwritten by Builder::epoch, which the property conditions on", _verify_config_default),
    ("turmoil::builder::Builder::build", r"::from_os_rng$",
     "only when no rng_seed was configured (property conditions on the seed)", _verify_builder_build),
    ("turmoil::barriers::Barrier::build", r"^uuid::Uuid::new_v4$",
     "barrier identity, used only for equality", _verify_barrier_id),
]
# pointer->integer casts: O_DIRECT alignment checks (address dependent by design, outside the program families)
ALLOW_CASTS = {
    "turmoil_fs::shim::std::fs::File::read_at_internal": "O_DIRECT buffer alignment test",
    "turmoil_fs::shim::std::fs::File::write_at_internal": "O_DIRECT buffer alignment test",
    "turmoil_io_uring::sim::exec_read": "O_DIRECT buffer alignment test",
    "turmoil_io_uring::sim::exec_write": "O_DIRECT buffer alignment test",
}


def _root(ctx, b):
    while b.parent and b.parent in ctx.w.bodies:
        b = ctx.w.bodies[b.parent]
    return b.id


def r2(ctx):
    R = "C01-R2"
    ctx.rule(R, "who-may-call over entropy / wall-clock / process-identity sources and pointer->integer casts: only the "
                "enumerated sites, each re-verified (value flow / dominating test)")
    cnt = {}
    for b, bb, t in who_calls(ctx.w, ENTROPY):
        if is_macro_noise(t):
            continue
        root = _root(ctx, b)
        k = f"{root}:{t['f']}#{nth(cnt, (root, t['f']))}"
        allowed = None
        for fn, pat, reason, ver in ALLOW_CALLS:
            if root == fn and re.search(pat, t["f"]):
                allowed = (reason, ver)
        if allowed is None:
            ctx.bad(R, k, t["s"], f"`{t['f']}` is a nondeterminism source (entropy / wall clock / identity / threads) "
                    f"called from `{b.id}`, which is not an allowed site")
            continue
        err = allowed[1](ctx, b, bb, t)
        if err:
            ctx.bad(R, k, t["s"], f"allowed site no longer satisfies its justification: {err}")
        else:
            ctx.ok(R, k, t["s"], f"allowed: {allowed[0]} (verified)")
    # an entropy source handed over as a function value (`seed.map_or_else(SmallRng::from_os_rng, SmallRng::seed_from_u64)`) is a call
    # site too: it is allowed where the call would be, and only as the *default* of an Option combinator on the value the call's
    # justification tests (the configured seed)
    for b in sorted(ctx.w.bodies.values(), key=lambda b: b.id):
        if b.crate not in ("turmoil", "turmoil_net", "turmoil_fs", "turmoil_io_uring"):
            continue
        for bb, t in b.calls():
            for ai, a in enumerate(t["args"]):
                fi = a.get("fn") if isinstance(a, dict) else None
                if not fi or not ENTROPY.search(fi):
                    continue
                root = _root(ctx, b)
                k = f"{root}:{fi}#{nth(cnt, (root, fi))}"
                allowed = [x for x in ALLOW_CALLS if x[0] == root and re.search(x[1], fi)]
                dflt = re.search(r"Option::(map_or_else|unwrap_or_else|or_else)$", t["f"]) is not None and ai == 1
                recv = Slicer(ctx.w).atoms(b, t["args"][0]) if t["args"] else set()
                if allowed and dflt and (root != "turmoil::builder::Builder::build" or "field:turmoil::builder::Builder::rng_seed" in recv):
                    ctx.ok(R, k, t["s"], f"allowed: {allowed[0][2]} (function value used as the None-side default)")
                else:
                    ctx.bad(R, k, t["s"], f"`{fi}` (a nondeterminism source) is handed to `{t['f']}` as a function value in `{b.id}`, which is not an allowed use")
    for b in sorted(ctx.w.bodies.values(), key=lambda b: b.id):
        for bb, i, s in b.all_stmts():
            r = s["r"]
            if r["k"] == "cast" and ("PointerExposeProvenance" in r["ck"] or r["ck"] == "Transmute"):
                if s.get("x") and not s["x"].startswith("d:"):
                    continue
                if r["ck"] == "Transmute":
                    # only pointer->int transmutes matter
                    src = origin(b, r["o"])
                    dst = b.tys[r["ty"]]
                    if dst.get("k") != "prim":
                        continue
                root = _root(ctx, b)
                k = f"{root}:ptr2int#{nth(cnt, (root, 'cast'))}"
                if root in ALLOW_CASTS:
                    # must be used only under the direct_io test: provenance of the cast feeds a switch, nothing else
                    ctx.ok(R, k, s["s"], f"allowed: {ALLOW_CASTS[root]}")
                else:
                    ctx.bad(R, k, s["s"], f"pointer address converted to an integer in `{b.id}`: address-dependent behaviour")
    ctx.floor(R, 7)


def r3(ctx):
    R = "C01-R3"
    ctx.rule(R, "every function that builds a tokio runtime configures it current_thread + enable_time + start_paused(true), "
                "never multi-thread; in crate turmoil also rng_seed(<bytes drawn from rt::Config::rng>); the build passes "
                "--cfg tokio_unstable")
    n = 0
    for b, bb, t in who_calls(ctx.w, "tokio::runtime::Builder::build"):
        n += 1
        fam_calls = {}
        for bb2, t2 in b.calls(re.compile(r"^tokio::runtime::Builder::")):
            fam_calls.setdefault(t2["f"].rsplit("::", 1)[1], []).append((bb2, t2))
        k = b.id
        probs = []
        if "new_current_thread" not in fam_calls:
            probs.append("no new_current_thread()")
        if "new_multi_thread" in fam_calls:
            probs.append("new_multi_thread()")
        if "enable_time" not in fam_calls:
            probs.append("no enable_time()")
        sp = fam_calls.get("start_paused")
        if not sp:
            probs.append("no start_paused(true)")
        else:
            for bb2, t2 in sp:
                c = op_const(t2["args"][1]) if len(t2["args"]) > 1 else None
                if not c or c.get("v") != 1:
                    probs.append("start_paused argument is not the constant `true`")
                if not b.dominated_by_block(bb, bb2):
                    probs.append("start_paused not on every path to build()")
        for name in ("new_current_thread", "enable_time"):
            for bb2, t2 in fam_calls.get(name, []):
                if not b.dominated_by_block(bb, bb2):
                    probs.append(f"{name} not on every path to build()")
        if b.crate == "turmoil":
            rs = fam_calls.get("rng_seed")
            if not rs:
                probs.append("no rng_seed(..) (tokio's select!/scheduler randomness unseeded)")
            else:
                for bb2, t2 in rs:
                    at = Slicer(ctx.w).atoms(b, t2["args"][1])
                    if "field:turmoil::rt::Config::rng" not in at or not any(a.startswith("call:rand::Rng::random") for a in at):
                        probs.append("rng_seed argument is not drawn from rt::Config::rng")
                    if bb2 not in b.reachable(0) or bb not in b.reachable(bb2):
                        probs.append("rng_seed does not reach build()")
            if "--cfg" not in ctx.rustflags or "tokio_unstable" not in ctx.rustflags:
                probs.append("/repo/.cargo/config.toml does not pass --cfg tokio_unstable (rng_seed / unhandled_panic compiled out)")
        elif "rng_seed" not in fam_calls:
            ctx.info(R, k + ":unseeded-fixture", t["s"], "turmoil-net fixture runtime is not seeded (C01 is about Sim/Builder)")
        if probs:
            ctx.bad(R, k, t["s"], "tokio runtime not deterministic: " + "; ".join(sorted(set(probs))))
        else:
            ctx.ok(R, k, t["s"], "runtime is current-thread, time-enabled, paused" + (", seeded" if b.crate == "turmoil" else ""))
    # the per-host generator must survive re-initialisation (crash / bounce rebuild the runtime through the same init)
    RNGF = "turmoil::rt::Config::rng"
    for b in sorted(ctx.w.bodies.values(), key=lambda b: b.id):
        if b.crate != "turmoil":
            continue
        for bb, t in b.calls():
            if not t["args"] or is_macro_noise(t):
                continue
            o = deref_origin(b, t["args"][0])
            if o["k"] == "place" and place_last_field(o["p"]) == RNGF and isinstance(o["p"]["p"][-1], dict) and o["p"]["p"][-1].get("f") == "rng":
                m = t["f"].rsplit("::", 1)[1]
                okm = t["f"] in ("std::option::Option::as_mut", "std::option::Option::as_ref", "std::option::Option::is_some", "std::option::Option::is_none",
                                  "<std::option::Option as std::clone::Clone>::clone", "<std::option::Option as std::fmt::Debug>::fmt")
                ctx.inst(R, f"{b.id}:config-rng:{m}", okm, t["s"], "generator borrowed in place" if okm else
                         f"`{t['f']}` moves / replaces the per-host generator rt::Config::rng: a runtime rebuilt after crash or bounce finds no generator and tokio seeds itself from OS entropy")
        for bb, i, s in b.all_stmts():
            if place_last_field(s["p"]) == RNGF and isinstance(s["p"]["p"][-1], dict) and s["p"]["p"][-1].get("f") == "rng":
                ctx.bad(R, f"{b.id}:config-rng:assign", s["s"], "rt::Config::rng is overwritten after construction")
            r = s["r"]
            if r["k"] == "use" and "m" in r["o"] and place_last_field(op_place(r["o"])) == RNGF and op_place(r["o"])["p"][-1].get("f") == "rng":
                ctx.bad(R, f"{b.id}:config-rng:move-out", s["s"], "rt::Config::rng is moved out of the stored config: the next init is unseeded")
    # other ways to get a runtime
    for b, bb, t in who_calls(ctx.w, re.compile(r"^tokio::runtime::Runtime::new$|^tokio::runtime::Handle::(block_on|spawn_blocking)$")):
        if is_macro_noise(t):
            continue
        ctx.bad(R, f"{b.id}:{t['f']}", t["s"], f"`{t['f']}`: a runtime obtained outside the checked builders")
    ctx.floor(R, 3)


DRAW = re.compile(r"^rand::Rng::|^rand::RngCore::|^<.* as rand::RngCore>::|rand::prelude::SliceRandom>::shuffle$|"
                  r"rand_distr::Distribution>::sample|^rand::distr::|^rand::seq::|IndexedRandom|IteratorRandom|"
                  r"^rand::prelude::SliceRandom::|^rand_distr::Distribution::sample")
SEEDING = re.compile(r"rand::SeedableRng>::(seed_from_u64|from_seed|from_rng)$|^rand::SeedableRng::(seed_from_u64|from_seed|from_rng)$")
RNG_ROOT_FIELDS = {"field:turmoil::world::World::rng", "field:turmoil_fs::Fs::rng", "field:turmoil::rt::Config::rng",
                   "field:turmoil_io_uring::host::IoUringHostState::rng", "field:turmoil_fs::PageCache::rng"}


def _rng_arg_index(b, t):
    """index of the argument that is the generator"""
    for i, ai in enumerate(t.get("at", ())):
        ty = b.peel(b.tys[ai])
        s = ty.get("s", "")
        if "Rng" in s or ty.get("k") == "param" or ty.get("k") == "dyn" and "RngCore" in s:
            return i
    return None


def _rooted(ctx, b, op, depth=0, seen=None):
    """is the generator operand rooted in a seeded generator (field roots) - parameters resolved at every call site"""
    if seen is None:
        seen = set()
    at = Slicer(ctx.w, through_calls=True).atoms(b, op)
    if at & RNG_ROOT_FIELDS:
        return True, None
    args = [a for a in at if a.startswith("arg:")]
    if not args:
        return False, f"generator has no seeded root (atoms: {sorted(at)[:6]})"
    if depth > 6:
        return False, "parameter chain too deep"
    # resolve each parameter at all in-repo call sites
    for a in args:
        _, n, rest = a.split(":", 2)
        fid = rest.split("@", 1)[1]
        n = int(n)
        fb = ctx.w.bodies.get(fid)
        if fb is None:
            continue
        if fb.kind == "Closure":
            # closure parameter: the combinator hands in the generator (e.g. FsContext::current(|fs| ..)) - accept when
            # the parameter's type is an in-repo state type that owns a root field
            pty = fb.peel(fb.local_ty(n)) if n < len(fb.locals) else {}
            if pty.get("adt") in ("turmoil_fs::Fs", "turmoil::world::World", "turmoil_io_uring::host::IoUringHostState",
                                  "turmoil_io_uring::sim::RingState"):
                return True, None
            continue
        if (fid, n) in seen:
            continue
        seen.add((fid, n))
        sites = [(cb, bb, t) for cb, bb, t in who_calls(ctx.w, fid)]
        if not sites:
            if fb.vis and fb.vis.startswith("Public"):
                continue   # public API boundary: caller supplies the generator
            continue
        for cb, bb, t in sites:
            if n - 1 < len(t["args"]):
                ok, why = _rooted(ctx, cb, t["args"][n - 1], depth + 1, seen)
                if not ok:
                    return False, f"via `{cb.id}`: {why}"
    return True, None


def r4(ctx):
    R = "C01-R4"
    ctx.rule(R, "the generator of every random draw and the seed of every SeedableRng construction derive from the seeded "
                "generators (World::rng, Fs::rng, rt::Config::rng, IoUringHostState::rng) or from a parameter that does at "
                "every in-repo call site")
    cnt = {}
    for b, bb, t in who_calls(ctx.w, DRAW):
        if is_macro_noise(t) or not in_repo(b.id):
            continue
        gi = _rng_arg_index(b, t)
        k = f"{b.id}:{t['f']}#{nth(cnt, (b.id, t['f']))}"
        if gi is None:
            ctx.bad(R, k, t["s"], f"cannot identify the generator argument of `{t['f']}`")
            continue
        ok, why = _rooted(ctx, b, t["args"][gi])
        if ok:
            ctx.ok(R, k, t["s"], "draw rooted in a seeded generator")
        else:
            ctx.bad(R, k, t["s"], f"random draw `{t['f']}` in `{b.id}` is not rooted in the seeded generators: {why}")
    for b, bb, t in who_calls(ctx.w, SEEDING):
        k = f"{b.id}:{t['f']}#{nth(cnt, (b.id, t['f']))}"
        at = Slicer(ctx.w).atoms(b, t["args"][0])
        roots = {"field:turmoil::builder::Builder::rng_seed"} | RNG_ROOT_FIELDS
        if at & roots or any(a.startswith("arg:") for a in at) or all(a.startswith("const:") for a in at):
            if any(ENTROPY.search(a[5:]) for a in at if a.startswith("call:")):
                ctx.bad(R, k, t["s"], "seed derives from an entropy source")
            else:
                ctx.ok(R, k, t["s"], "seed derives from the configured seed / a seeded draw / a parameter / a literal")
        else:
            ctx.bad(R, k, t["s"], f"seed of `{t['f']}` has no deterministic root (atoms {sorted(at)[:6]})")
    ctx.floor(R, 20)


# process-global mutable state: key -> allowed accessor functions (root function ids)
GLOBALS = {
    "turmoil::barriers::BARRIERS": {
        "<turmoil::barriers::Barrier as std::ops::Drop>::drop",
        "turmoil::barriers::Barrier::build",
        "turmoil::barriers::trigger",
        "turmoil::barriers::trigger_noop",
    },
    "turmoil::world::CURRENT": {
        "turmoil::world::World::current",
        "turmoil::world::World::current_if_set",
        "turmoil::world::World::enter",
        "turmoil::world::World::try_current",
    },
    "turmoil_fs::CURRENT_CORRUPTION": {
        "<turmoil_fs::FsEnterGuard as std::ops::Drop>::drop",
        "turmoil_fs::enter",
        "turmoil_fs::fire_corruption",
    },
    "turmoil_fs::CURRENT_FS_ARC": {
        "<turmoil_fs::FsEnterGuard as std::ops::Drop>::drop",
        "turmoil_fs::FsContext::current",
        "turmoil_fs::FsContext::current_if_set",
        "turmoil_fs::FsHandle::current",
        "turmoil_fs::enter",
    },
    "turmoil_fs::CURRENT_NOW": {
        "<turmoil_fs::FsEnterGuard as std::ops::Drop>::drop",
        "turmoil_fs::FsContext::current",
        "turmoil_fs::FsContext::current_if_set",
        "turmoil_fs::FsHandle::current",
        "turmoil_fs::enter",
    },
    "turmoil_fs::WORKER_FS_CONTEXT": {
        "<turmoil_fs::FsHandleGuard as std::ops::Drop>::drop",
        "turmoil_fs::FsContext::current",
        "turmoil_fs::FsContext::current_if_set",
        "turmoil_fs::FsContext::in_worker_context",
        "turmoil_fs::FsHandle::enter",
    },
    "turmoil_io_uring::host::CURRENT_IOU_ARC": {
        "<turmoil_io_uring::host::IoUringEnterGuard as std::ops::Drop>::drop",
        "turmoil_io_uring::host::IoUringContext::current",
        "turmoil_io_uring::host::IoUringContext::current_if_set",
        "turmoil_io_uring::host::enter",
        "turmoil_io_uring::host::with_fs_and_io_uring",
    },
    "turmoil_io_uring::host::CURRENT_NOW": {
        "<turmoil_io_uring::host::IoUringEnterGuard as std::ops::Drop>::drop",
        "turmoil_io_uring::host::IoUringContext::current",
        "turmoil_io_uring::host::IoUringContext::current_if_set",
        "turmoil_io_uring::host::enter",
    },
    "turmoil_net::CURRENT": {
        "<turmoil_net::EnterGuard as std::ops::Drop>::drop",
        "turmoil_net::EnterGuard::deliver",
        "turmoil_net::EnterGuard::egress_all",
        "turmoil_net::EnterGuard::evaluate",
        "turmoil_net::EnterGuard::set_current",
        "turmoil_net::Net::enter",
        "turmoil_net::install_rule",
        "turmoil_net::lookup_host",
        "turmoil_net::netstat",
        "turmoil_net::set_current",
        "turmoil_net::sys",
        "turmoil_net::uninstall_rule",
    },
}


def r5(ctx):
    R = "C01-R5"
    ctx.rule(R, "process-global mutable state (statics / thread_locals of the four crates) is exactly the enumerated table, "
                "and each key is touched only by its enumerated accessor functions (enter / guard drop / current)")
    w = ctx.w
    keys = {}
    for s in w.consts:
        t = w.tys[s["crate"]][s["ty"]]
        if t.get("adt") == "std::thread::LocalKey" and "::FOO" not in s["id"]:
            keys[s["id"]] = s
    for s in w.statics:
        if "__CALLSITE" in s["id"] or "__RUST_STD_INTERNAL" in s["id"] or (s.get("x") or "").startswith("m:$crate"):
            continue
        if s.get("x", "").startswith("m:tracing"):
            continue
        keys[s["id"]] = s
    for kid, s in sorted(keys.items()):
        if kid not in ACCESSORS:
            ctx.bad(R, f"unlisted-global:{kid}", s.get("cs") or s["span"],
                    f"`{kid}` is process-global state that is not in the checked table: state that survives a simulation makes "
                    "an in-process repeat differ from a fresh process")
    for kid in ACCESSORS:
        if kid not in keys and ctx.strict:
            ctx.bad(R, f"anchor-missing:{kid}", "", f"global `{kid}` from the table no longer exists")
    # accessors
    used = {}
    for b in w.bodies.values():
        root = _root(ctx, b)
        for bb in b.live_blocks():
            ops = []
            for s in b.blocks[bb]["st"]:
                if "r" in s:
                    r = s["r"]
                    for kk in ("o", "a", "b"):
                        if kk in r and isinstance(r[kk], dict):
                            ops.append((r[kk], s))
                    for o in r.get("ops", ()):
                        ops.append((o, s))
            t = b.term(bb)
            for o in t.get("args", ()):
                ops.append((o, t))
            for o, s in ops:
                c = op_const(o)
                if c and (c.get("def") in keys or c.get("static") in keys):
                    kid = c.get("def") if c.get("def") in keys else c.get("static")
                    used.setdefault(kid, {}).setdefault(root, s.get("s", ""))
    for kid, roots in sorted(used.items()):
        allowed = ACCESSORS.get(kid)
        if allowed is None:
            continue
        for root, site in sorted(roots.items()):
            k = f"{kid}<-{root}"
            if root in allowed:
                ctx.ok(R, k, site, "enumerated accessor")
            else:
                ctx.bad(R, k, site, f"`{root}` touches process-global `{kid}` but is not one of its enumerated accessors")
    ctx.floor(R, 20)


ACCESSORS = {}


def r6(ctx):
    R = "C01-R6"
    ctx.rule(R, "Sim::step visits hosts in IndexMap (registration) order, optionally shuffled by World::rng under the "
                "random_node_order test")
    b = ctx.body(R, "turmoil::sim::Sim::step")
    if not b:
        return
    its = [(bb, t) for bb, t in b.calls(re.compile(r"^indexmap::IndexMap::(iter_mut|iter|keys|values_mut)$"))]
    src = None
    for bb, t in its:
        o = deref_origin(b, t["args"][0])
        if o["k"] == "place" and place_has_field(o["p"], "turmoil::sim::Sim::rts"):
            src = (bb, t)
    if not src:
        ctx.bad(R, "step:order-source", b.span, "host iteration in Sim::step does not start from IndexMap::iter*/keys on Sim::rts")
    else:
        ctx.ok(R, "step:order-source", src[1]["s"], "hosts enumerated from the IndexMap Sim::rts")
    sh = list(b.calls(re.compile(r"SliceRandom>::shuffle$")))
    for bb, t in sh:
        at = Slicer(ctx.w).atoms(b, t["args"][1])
        te, fe = [], []
        for sbb, t_e, f_e, o in guards_on(b, lambda o: o["k"] == "place" and place_has_field(o["p"], "turmoil::config::Config::random_node_order")):
            te += t_e
            fe += f_e
        ok_rng = "field:turmoil::world::World::rng" in at
        ok_guard = bool(te) and b.dominated_by_any(bb, edges=te)
        if ok_rng and ok_guard:
            ctx.ok(R, "step:shuffle", t["s"], "shuffle uses World::rng under the random_node_order test")
        else:
            ctx.bad(R, "step:shuffle", t["s"], "host-order shuffle " + ("" if ok_rng else "does not use World::rng; ") +
                    ("" if ok_guard else "is not guarded by Config::random_node_order"))
    if not sh:
        ctx.info(R, "step:shuffle", b.span, "no shuffle present")
    ctx.floor(R, 2)


def r7(ctx, R="C01-R7"):
    ctx.rule(R, "the virtual clock is read only where a paused runtime is current: HostTimer::elapsed / sim_elapsed / since_epoch end in "
                "tokio's Instant::now(), which is the *wall clock* when no runtime is entered. Their callers are therefore limited to "
                "the free functions turmoil::elapsed / sim_elapsed / since_epoch (host code, running inside the host's runtime) and to "
                "bodies that first enter a runtime (Runtime::enter, as Rt::now does); a call from the simulation driver itself "
                "(Sim::step between hosts, Sim::crash ..) leaks real time into the simulation")
    HT = re.compile(r"^turmoil::host::HostTimer::(elapsed|sim_elapsed|since_epoch)$")
    n = 0
    for b, bb, t in who_calls(ctx.w, HT):
        root = b
        while root.parent and root.parent in ctx.w.bodies:
            root = ctx.w.bodies[root.parent]
        if root.id.startswith("turmoil::host::HostTimer::"):
            continue
        n += 1
        host_code = root.id in ("turmoil::elapsed", "turmoil::sim_elapsed", "turmoil::since_epoch")
        entered = [x for x, t2 in b.calls(re.compile(r"^tokio::runtime::(Runtime|Handle)::enter$"))]
        ok = host_code or (bool(entered) and b.dominated_by_any(bb, blocks=entered))
        ctx.inst(R, f"clock-read:{root.id}->{t['f'].rsplit('::', 1)[1]}", ok, t["s"], "read from host code / under an entered runtime" if ok else
                 f"`{root.id}` reads the host clock through `{t['f']}` with no runtime entered: tokio::time::Instant::now() falls back to the wall clock there, so the value "
                 "(the `now` handed to the simulated filesystem and io_uring: file timestamps, completion times) is epoch + sim time + real elapsed time and differs from run to run")
    # the clock source itself: tokio's Instant::now() / elapsed() are virtual only inside a paused runtime
    NOW_OK = {"turmoil::host::HostTimer::elapsed": "in-step progress of the host, read from host code (or None between steps)",
              "turmoil::rt::Rt::now": "reads the host runtime's clock under Runtime::enter",
              "turmoil_io_uring::async_fd::AsyncFd::readable": "host code waiting on a ring, inside the host's runtime"}
    for b, bb, t in who_calls(ctx.w, re.compile(r"^tokio::time::Instant::(now|elapsed)$|^std::time::Instant::(now|elapsed)$")):
        root = b
        while root.parent and root.parent in ctx.w.bodies:
            root = ctx.w.bodies[root.parent]
        if not in_repo(root.id) or "::test" in root.id:
            continue
        ok = root.id in NOW_OK
        ctx.inst(R, f"instant:{root.id}", ok, t["s"], NOW_OK.get(root.id, "") if ok else
                 f"`{root.id}` reads `{t['f']}`: outside a host's paused runtime this is the wall clock (and inside one it is that host's clock, not the link's): "
                 "whatever is scheduled from it depends on how long the process has really been running")
    ctx.floor(R, 6)


def r8(ctx):
    R = "C01-R8"
    ctx.rule(R, "scoped process state is restored unconditionally: every thread-local that an enter-guard's Drop manages is written back on "
                "every path through the drop (the `LocalKey::with(..)` that restores it is not under a condition). A restore skipped when "
                "there was no outer value leaves the thread-local pointing at the last host / simulation: later drops outside any `enter` "
                "then act on the wrong host's state, and a second simulation in the same process starts from a different state")
    n = 0
    global ACCESSORS
    if not ACCESSORS:
        ACCESSORS = TABLE_ACCESSORS   # called as a shared rule from another property's check
    guards = sorted({a for accs in ACCESSORS.values() for a in accs if a.endswith("as std::ops::Drop>::drop")})
    for gid in guards:
        b = ctx.w.bodies.get(gid)
        if not b:
            continue
        managed = sorted(k for k, accs in ACCESSORS.items() if gid in accs)
        withs = [(bb, t) for bb, t in b.calls(re.compile(r"LocalKey<T>::with$|LocalKey::with$|LocalKey<T>::set$|LocalKey::set$|LocalKey<T>::replace$|ScopedKey"))]
        for kid in managed:
            def names(a):
                o = origin(b, a)
                c = o.get("op") if o["k"] == "const" else None
                if o["k"] == "ref":
                    o2 = origin(b, {"c": o["p"]})
                    c = o2.get("op") if o2["k"] == "const" else None
                return {c.get("def"), c.get("static")} if c else set()
            sites = [bb for bb, t in withs if any(kid in names(a) for a in t["args"])]
            if not sites:
                # the key may be restored by a helper; accept a call that is handed the key
                continue
            n += 1
            ok = not always_passes(b, sites)
            ctx.inst(R, f"restore:{kid}<-{gid}", ok, b.term(sites[0])["s"], "restored on every path of the guard's drop" if ok else
                     f"`{gid}` restores `{kid}` only on some paths: when there was no outer value the thread-local keeps pointing at this host's state after the guard is gone")
            # ... and what is written back is what the guard saved when it was built (a field of the guard), not a constant: scopes nest.
            # Only for guards that save at all (they carry `prev*` fields; a guard of a non-nesting scope legitimately writes None back)
            gty = gid[1:].split(" as ", 1)[0]
            ga = ctx.w.adts.get(gty) or ctx.w.adts.get(gty.split("<")[0]) or {}
            if not any("prev" in (f.get("name") or "") for v in ga.get("variants", []) for f in v["fields"]):
                continue
            saved = False
            for bb, t in withs:
                if bb not in sites:
                    continue
                for cid in closure_args(b, t):
                    for fb in ctx.w.family(cid):
                        for bb2, t2 in fb.calls(re.compile(r"^std::cell::Cell::(set|replace)$|^std::option::Option::take$|RefCell::(replace|borrow_mut)$|^std::mem::replace$")):
                            at = set()
                            for a in t2["args"]:
                                at |= Slicer(ctx.w).atoms(fb, a)
                            if any(a.startswith("field:" + gty + "::") or a.startswith("field:" + gty.split("<")[0] + "::") for a in at):
                                saved = True
                        for bb2, i2, s2 in fb.all_stmts():
                            if i2 != "term":
                                at = set()
                                for o in [s2["r"].get("o"), s2["r"].get("a"), s2["r"].get("b")] + list(s2["r"].get("ops", [])):
                                    if isinstance(o, dict):
                                        at |= Slicer(ctx.w).atoms(fb, o)
                                if any(a.startswith("field:" + gty.split("<")[0] + "::") for a in at):
                                    saved = True
            ctx.inst(R, f"restore-saved-value:{kid}<-{gid}", saved, b.term(sites[0])["s"], "the guard writes back the value it saved" if saved else
                     f"`{gid}` does not write back a value it saved (no field of the guard reaches `{kid}`): leaving a nested scope clears the outer scope's value instead of "
                     "restoring it - for the corruption hook, every later corruption of the host step is reported to no barrier")
    k = scoped_cell_writers(ctx, R)
    ctx.inst(R, "scoped-cell:found", k >= 2, "", f"{k} accessors of guard-managed Cell thread-locals analysed" if k >= 2 else "fewer than 2 accessors of guard-managed Cell thread-locals found: re-derive")
    ctx.floor(R, 7)


CELL_WRITE = re.compile(r"^std::cell::Cell::(set|take|replace|swap|update)$|^std::thread::LocalKey::(set|take|replace)$")


def scoped_cell_writers(ctx, R, keys=None):
    """a Cell thread-local managed by an enter-guard is written only by the function that builds the guard (install) and by the guard's
    Drop (restore): every other accessor of the key reads it (`Cell::get`).  Returns the number of accessors analysed."""
    n = 0
    for kid, accs in sorted(TABLE_ACCESSORS.items()):
        if keys is not None and kid not in keys:
            continue
        guards = sorted(a for a in accs if a.endswith("as std::ops::Drop>::drop"))
        if not guards:
            continue
        gtypes = {g[1:].split(" as ", 1)[0] for g in guards}
        for acc in sorted(accs):
            b = ctx.w.bodies.get(acc)
            if not b or acc in guards:
                continue

            def names(a):
                o = origin(b, a)
                c = o.get("op") if o["k"] == "const" else None
                if o["k"] == "ref":
                    o2 = origin(b, {"c": o["p"]})
                    c = o2.get("op") if o2["k"] == "const" else None
                return {c.get("def"), c.get("static")} if c else set()
            writes = []
            wbb = []
            cellkey = False
            for bb, t in b.calls(re.compile(r"LocalKey<T>::with$|LocalKey::with$")):
                if not any(kid in names(a) for a in t["args"]):
                    continue
                for cid in closure_args(b, t):
                    for fb in ctx.w.family(cid):
                        for bb2, t2 in fb.calls(re.compile(r"^std::cell::Cell::")):
                            cellkey = True
                            if CELL_WRITE.search(t2["f"]):
                                writes.append((t2["f"].rsplit("::", 1)[1], t2["s"]))
                                wbb.append(bb)
            for bb, t in b.calls(re.compile(r"^std::thread::LocalKey::(set|take|replace)$")):
                if any(kid in names(a) for a in t["args"]):
                    cellkey = True
                    writes.append((t["f"].rsplit("::", 1)[1], t["s"]))
                    wbb.append(bb)
            if not cellkey:
                continue
            n += 1
            installs = any(s2["r"]["k"] == "agg" and s2["r"].get("adt") in gtypes for bb, i, s2 in b.all_stmts() if i != "term")
            ok = not writes or installs
            if writes and installs:
                # entering a scope installs *its* value on every path - also when that value is "nothing": a scope entered without a hook must
                # not inherit the hook of the scope around it
                always = all(b.dominated_by_any(x, blocks=wbb) for x in b.exits())
                ctx.inst(R, f"scoped-cell:{kid}<-{acc}:installs-on-every-path", always, writes[0][1], "the scope's own value is installed unconditionally" if always else
                         f"`{acc}` installs the scoped thread-local `{kid}` only on some paths (only when a value is given): a scope entered with nothing keeps the enclosing scope's value - "
                         "corruption events of a filesystem nobody observes are reported to the outer host's barrier")
            ctx.inst(R, f"scoped-cell:{kid}<-{acc}", ok, writes[0][1] if writes else b.span,
                     ("installs the value and builds the guard that restores it" if writes else "reads the scoped value") if ok else
                     f"`{acc}` writes the scoped thread-local `{kid}` ({writes[0][0]}) although it neither builds nor is the guard that manages it: the value installed "
                     "for the current host step is gone (or replaced) for the rest of the step")
    return n


def r10(ctx):
    R = "C01-R10"
    ctx.rule(R, "a Builder setter stores what it is given: every one-argument method of turmoil::Builder that writes a field of its Config "
                "does so on every path - a setter that keeps the default under some condition leaves the *default* in force, and the "
                "default of Config::epoch is the wall clock (SystemTime::now() in Config::default)")
    n = 0
    for b in ctx.w.find(r"^turmoil::builder::Builder::\w+$"):
        if b.argc != 2:
            continue
        wr = [bb for bb, i, s2 in b.all_stmts() if i != "term" and "turmoil::builder::Builder::config" in place_fields(s2["p"]) and
              any(a.startswith("arg:2:") for a in Slicer(ctx.w).atoms(b, s2["r"].get("o") or s2["r"].get("a") or {}) )] if True else []
        if not wr:
            continue
        n += 1
        skip = [x for x in b.exits() if not b.dominated_by_any(x, blocks=wr)]
        ctx.inst(R, f"setter:{b.id.rsplit('::', 1)[1]}", not skip, b.span, "the argument is stored on every path" if not skip else
                 f"`{b.id}` stores its argument only under a condition: for the other values the default stays - for `epoch` that is SystemTime::now() taken when the Builder was "
                 "created, so two runs of the same program start at different simulated times (since_epoch, file times)")
    ctx.floor(R, 6)


def run(ctx):
    global ACCESSORS
    ACCESSORS = TABLE_ACCESSORS
    r10(ctx)
    if ctx.config in ("all", "barriers"):
        from . import C20
        C20.r4(ctx)   # thread-local registries are left as they were found: a dropped barrier is unregistered (a second run on the thread starts from the same state)
    r1(ctx)
    r2(ctx)
    r3(ctx)
    r4(ctx)
    r5(ctx)
    r6(ctx)
    r7(ctx)
    r8(ctx)
    from . import C05
    C05.r11(ctx, R="C01-R9")   # destructors run by crash / bounce must not see the wall clock
    from . import C04
    r5_sib(ctx)
    C04.r5(ctx)                # the software factory (host code) runs inside the host's runtime, on first start and on bounce


TABLE_ACCESSORS = GLOBALS


def r5_sib(ctx):
    from . import C05
    C05.r5(ctx)   # Sim::client and Sim::host build their runtimes alike: a client runtime without the seeded rng draws tokio's own entropy


def extra(tier, repo, work, insts):
    """thorough tier: E5 witness (Sim: !Send) and E6 clippy cross-reference of the R1 / R2 inventories"""
    if tier != "thorough":
        return []
    from engine.side import witnesses, clippy_sites
    from engine.runner import Instance
    out = witnesses("C01", repo, work)
    sites, rc = clippy_sites(repo, work)
    R = "C01-R8"
    if rc != 0 and not sites:
        out.append(Instance(R, f"{R}:clippy-run", False, "", "clippy cross-reference could not run (exit %d)" % rc, None, "clippy"))
        return out
    cl_types = sorted({f for f, l, k, m in sites if k == "disallowed_types"})
    cl_meth = sorted({(f, l) for f, l, k, m in sites if k == "disallowed_methods"})
    e1_types = sorted({i.site.rsplit(":", 1)[0] for i in insts if i.rule == "C01-R1" and i.site and ":field:" not in i.key})
    pat = re.compile(r"SystemTime::now|Instant::now|from_os_rng|rand::rng|rand::random|Uuid::new_v4|thread::spawn")
    e1_meth = sorted({(i.site.rsplit(":", 1)[0], int(i.site.rsplit(":", 1)[1])) for i in insts if i.rule == "C01-R2" and i.site and pat.search(i.key) and "tokio::time" not in i.key})
    ok_t = cl_types == e1_types
    ok_m = cl_meth == e1_meth
    out.append(Instance(R, f"{R}:cross-reference:types", ok_t, "", f"files using std HashMap/HashSet - clippy: {cl_types}; extractor: {e1_types}" +
                        ("" if ok_t else " - extractor-coverage-mismatch: the two inventories differ, one of them does not see part of the build"), None, "clippy"))
    out.append(Instance(R, f"{R}:cross-reference:methods", ok_m, "", f"entropy / wall-clock call sites - clippy: {cl_meth}; extractor: {e1_meth}" +
                        ("" if ok_m else " - extractor-coverage-mismatch"), None, "clippy"))
    return out
