"""C13 - turmoil-net connections open, close and are reclaimed like TCP (structural part)."""
from .common import *
from engine.analysis.typestate import Typestate
from engine.analysis.obligation import Obligations, Spec

DECIDED = ("R1 TCP state machine extracted from the code (typestate on Tcb::state): every transition into Closed whose prior set "
           "contains SynReceived - the one kernel-owned, unqueued state - is accompanied in the same function by a guarded "
           "SocketTable::remove / fd_closed (otherwise nobody ever reclaims the entry); reap_closed only reaps fd_closed entries; "
           "R2 SocketTable::remove clears the socket, binding and connection indexes, which are mutated only inside SocketTable; "
           "R3 shim-side ownership: every fd obtained from Kernel::open / Kernel::bind is owned by a guard or a handle on every exit "
           "including the cancellation edge of connect's await; R4 on_close returns `reap now` or marks fd_closed on every path, the "
           "listener arm removes every collected child, and uses of the listener's literal address to select children are behind the "
           "non-wildcard test; R5 accept_syn performs insert + insert_binding + insert_connection together; push_to_listener / "
           "poll_accept are the only users of the ready queue; R6 the retransmit sweep covers every state the segmenter may "
           "transmit in (sibling state sets agree), so a lost FIN in LastAck cannot pin the entry.")
NOT_DECIDED = "bounded-ticks reclamation as a number, behaviour under loss / reordering, address pairing of accepted sockets."
DECIDED += "; R8 exhaustive scans (on_close, reap_closed, wake_all); R1 requires the SynReceived test to sample Tcb::state before the write to Closed (flow-sensitive)"
DECIDED += "; R9 a dropped listener sweeps only children of its own address family; CloseWait counts as a completed connect; an orphaned socket takes no new data"
DECIDED += "; R2 also: the 4-tuple index is cleaned by owner (fd), never by key; fin_seq is the byte after send_buf on both close paths (shared C06-R7); R10 the extracted transition relation is a sub-relation of TCP's"
DECIDED += "; R11 a shim socket is closed in the kernel of the host that owns it, not of the thread's current host (recorded finding D51)"
DECIDED += "; R9 also: an orphaned socket resets only on *new* data (seq == rcv_nxt); R12 Kernel::egress reaps closed sockets on every pass and accept_syn counts the half-open children of the listener's address"
DECIDED += '; a segment of a live connection never reaches the listener (shared C17-R4)'
DECIDED += '; R2 also: insert_connection overwrites the index entry; a retransmitted handshake segment carries the original sequence number (shared C06-R13)'
DECIDED += '; R6 also: every retransmit candidate state is a state segment_all transmits in; the shim forgets no socket handle'
ASSUMPTIONS = ["an fd with no shim handle and not on a listener's ready queue is closed by nobody (derived from creation sites)"]

STATE = "turmoil_net::kernel::socket::Tcb::state"
CELLS = {STATE: "turmoil_net::kernel::socket::TcpState"}
REMOVE = "turmoil_net::kernel::socket::SocketTable::remove"


def _on_field(b, op, field):
    o = deref_origin(b, op)
    if o["k"] == "place":
        _, fields = root_place(b, o["p"])
        return field in fields
    return False


def r1(ctx):
    R = "C13-R1"
    ctx.rule(R, "for every write Tcb::state := Closed with SynReceived in the prior set (per-path pairs): the function reaches "
                "SocketTable::remove or `fd_closed = true` after the write, under a test that reads Tcb::state; other Closed "
                "writes have priors excluding SynReceived")
    ts = Typestate(ctx.w, CELLS)
    cnt = {}
    for b in sorted(ctx.w.bodies.values(), key=lambda b: b.id):
        if b.crate != "turmoil_net":
            continue
        evs, _ = ts.analyze(b)
        for e in sorted(evs, key=lambda e: (e.bb, e.idx)):
            k = f"{b.id}:state#{nth(cnt, b.id)}"
            risky = [(p, n) for p, n, ident in e.pairs if not ident and "Closed" in n and "SynReceived" in p]
            trans = sorted({f"{'|'.join(sorted(p)) if len(p) < 9 else '*'}->{'|'.join(sorted(n))}" for p, n, i in e.pairs if not i})
            if not risky:
                ctx.ok(R, k, e.site, "transitions: " + "; ".join(trans)[:200])
                continue
            # reclaim: a remove / fd_closed write reachable after the write, guarded by a state-derived test
            root = b
            fam = ctx.w.family(root.id)
            rem = [bb for bb, t in b.calls(REMOVE)]
            fdc = [bb for bb, i, s in b.all_stmts() if place_last_field(s["p"]) == "turmoil_net::kernel::socket::Socket::fd_closed"]
            after = b.reachable(e.bb)
            cands = [x for x in rem + fdc if x in after]
            guarded = False
            for x in cands:
                for sbb, t in switch_blocks(b):
                    if not b.dominated_by_block(x, sbb) or len(b.succ(sbb)) < 2:
                        continue
                    at = Slicer(ctx.w, into_callees=2).atoms(b, t["d"])
                    if "field:" + STATE in at:
                        # the state must have been sampled before it was overwritten: a test of `state` that is read after
                        # `state = Closed` can never see SynReceived
                        rb = field_read_blocks(ctx.w, b, t["d"], STATE)
                        stale = bool(rb) and all(r_ != e.bb and r_ in after and e.bb not in b.reachable(r_) for r_ in rb)
                        # x must hang on one edge only
                        if not stale and any(b.dominated_by_edge(x, (sbb, s2)) for s2 in b.succ(sbb)):
                            guarded = True
            ctx.inst(R, k, guarded, e.site, "Closed may be entered from SynReceived; the unowned child is reclaimed in the same function" if guarded else
                     f"`{b.id}` moves a socket to Closed while it may be a SynReceived child (owned by no handle and not yet on a ready "
                     "queue) without removing it or marking fd_closed: reap_closed never reaps it, the entry, binding and connection index leak forever")
    # reap_closed filter requires fd_closed
    rc = ctx.body(R, "turmoil_net::kernel::tcp::reap_closed")
    if rc:
        ok = False
        for fb in ctx.w.family(rc.id):
            for sbb, te, fe, o in guards_on(fb, lambda o: o["k"] == "place" and place_has_field(o["p"], "turmoil_net::kernel::socket::Socket::fd_closed")):
                ok = True
        rm = [t for fb in ctx.w.family(rc.id) for bb, t in fb.calls(REMOVE)]
        ctx.inst(R, "reap_closed:requires-fd_closed", ok and bool(rm), rc.span, "reap_closed removes only entries whose fd was closed (oracle for the rule above)" if ok else
                 "reap_closed no longer tests fd_closed (ownership model changed: re-derive C13-R1)")
    if rc:
        # terminal = state == Closed OR reset: each disjunct alone must be able to make the filter true
        okd = False
        for fb in ctx.w.family(rc.id):
            eq_t, rs_t = [], []
            for sbb, te, fe, o in guards_on(fb, lambda o: o["k"] == "call" and re.search(r"PartialEq>::eq$|PartialEq::eq$", o["t"]["f"])):
                at = Slicer(ctx.w).atoms(fb, o["t"]["args"][0]) | Slicer(ctx.w).atoms(fb, o["t"]["args"][1])
                if "field:" + STATE in at:
                    eq_t += te
            for sbb, te, fe, o in guards_on(fb, lambda o: o["k"] == "place" and place_last_field(o["p"]) == "turmoil_net::kernel::socket::Tcb::reset"):
                rs_t += te
            RESET = "turmoil_net::kernel::socket::Tcb::reset"
            # the verdict may be the closure's return value or a flag local (`let terminal = match .. { .. }`)
            isbool = lambda l: fb.tys[fb.locals[l]["ty"]].get("s") == "bool"
            trues = [bb for bb, i, s in fb.all_stmts() if isbool(s["p"]["l"]) and not s["p"].get("p") and s["r"]["k"] == "use" and (op_const(s["r"]["o"]) or {}).get("v") == 1]
            copies = [bb for bb, i, s in fb.all_stmts() if isbool(s["p"]["l"]) and not s["p"].get("p") and s["r"]["k"] == "use" and op_place(s["r"]["o"]) is not None
                      and place_last_field(op_place(s["r"]["o"])) == RESET]
            eq_f = []
            for sbb, te, fe, o in guards_on(fb, lambda o: o["k"] == "call" and re.search(r"PartialEq>::eq$|PartialEq::eq$", o["t"]["f"])):
                at = Slicer(ctx.w).atoms(fb, o["t"]["args"][0]) | Slicer(ctx.w).atoms(fb, o["t"]["args"][1])
                if "field:" + STATE in at:
                    eq_f += fe
            if eq_t and trues and (rs_t or copies):
                # `a || b` lowers to `if a { true } else { b }`: Closed alone yields true; not-Closed yields `reset`
                a = any(x in fb.reachable(eq_t[0][1], removed_edges=rs_t, removed_blocks=copies) for x in trues)
                if rs_t:
                    b2 = any(x in fb.reachable(rs_t[0][1], removed_edges=eq_t) for x in trues)
                else:
                    b2 = bool(eq_f) and any(x in fb.reachable(eq_f[0][1]) for x in copies)
                okd = okd or (a and b2)
        ctx.inst(R, "reap_closed:closed-or-reset", okd, rc.span, "a closed fd is reaped once its TCB is Closed or reset (either alone suffices)" if okd else
                 "reap_closed's terminal test is not `state == Closed || reset`: gracefully closed (or reset) sockets are never reaped")
    ctx.floor(R, 9)


def r2(ctx):
    R = "C13-R2"
    ctx.rule(R, "SocketTable::remove mutates sockets, bindings and connections on every path; those three indexes (and ports) are "
                "mutated only inside SocketTable's own methods")
    rm = ctx.body(R, REMOVE)
    idx = {"sockets": "turmoil_net::kernel::socket::SocketTable::sockets", "bindings": "turmoil_net::kernel::socket::SocketTable::bindings",
           "connections": "turmoil_net::kernel::socket::SocketTable::connections"}
    mutators = re.compile(r"::(insert|remove|swap_remove|shift_remove|retain|clear|entry|push|pop|drain|get_mut|values_mut|iter_mut|or_default|or_insert_with|extend|truncate|swap_remove_entry|shift_remove_entry)$|IndexMut>::index_mut$")
    if rm:
        fam = ctx.w.family(rm.id)
        for name, fld in idx.items():
            hit = []
            for fb in fam:
                for bb, t in fb.calls(mutators):
                    if t["args"] and _on_field(fb, t["args"][0], fld):
                        hit.append((fb, bb))
            direct = [bb for fb, bb in hit if fb.id == rm.id]
            ok = bool(hit)
            ctx.inst(R, f"remove:clears-{name}", ok, rm.span, f"remove() updates `{name}`" if ok else
                     f"SocketTable::remove no longer updates `{name}`: stale {name} entries swallow later binds / connections")
    if rm:
        # the 4-tuple index is cleaned by *owner*: an entry may have been overwritten by a newer socket with the same pair
        # (a SYN reusing the pair of a Closed connection), so a removal by key must not be taken for a removal of this fd's entry
        keyed, owned = [], []
        for fb in ctx.w.family(rm.id):
            for bb, t in fb.calls(re.compile(r"::(shift_remove|swap_remove|remove|shift_remove_entry|swap_remove_entry)$")):
                if t["args"] and _on_field(fb, t["args"][0], idx["connections"]):
                    # acceptable only behind a test that the stored fd is the one being removed
                    g = False
                    for sbb, te, fe, o in guards_on(fb, lambda o: o["k"] in ("call", "bin")):
                        at = Slicer(ctx.w).atoms(fb, fb.term(sbb)["d"])
                        if "field:" + idx["connections"] in at and any(a.startswith("arg:2:") for a in at) and fb.dominated_by_any(bb, edges=te):
                            g = True
                    (owned if g else keyed).append(t["s"])
            for bb, t in fb.calls(re.compile(r"::(retain|retain_mut)$")):
                if t["args"] and _on_field(fb, t["args"][0], idx["connections"]):
                    owned.append(t["s"])
        ok = bool(owned) and not keyed
        ctx.inst(R, "remove:connections-by-owner", ok, keyed[0] if keyed else rm.span, "the 4-tuple index is cleaned by the removed fd, not by key" if ok else
                 "SocketTable::remove deletes the 4-tuple index entry by key without checking that it still points at the socket being removed: when a newer connection "
                 "reuses the pair of a closed one whose handle is dropped later, the live connection's entry is deleted and its segments are answered with RST")
    # ... and the newer socket must actually take the entry over: insert_connection overwrites (the converse of cleaning by owner)
    ic = ctx.w.bodies.get("turmoil_net::kernel::socket::SocketTable::insert_connection")
    if ic:
        puts = [t for bb, t in ic.calls(re.compile(r"(HashMap|IndexMap|BTreeMap)::insert$")) if t["args"] and _on_field(ic, t["args"][0], idx["connections"])]
        lazy = [t for fb in ctx.w.family(ic.id) for bb, t in fb.calls(re.compile(r"::(entry|or_insert|or_insert_with|try_insert)$"))]
        ok = bool(puts) and not lazy
        ctx.inst(R, "insert_connection:replaces", ok, (lazy[0]["s"] if lazy else ic.span), "a new connection takes over the index entry of its 4-tuple" if ok else
                 "SocketTable::insert_connection keeps an existing index entry: when a SYN reuses the pair of a connection that is Closed but whose handle is still held, the index "
                 "keeps pointing at the dead socket - connect() returns Ok, the handshake ACK is swallowed and accept() never hands the connection out")
    elif ctx.strict:
        ctx.bad(R, "anchor-missing:insert_connection", "", "SocketTable::insert_connection not found")
    for b in sorted(ctx.w.bodies.values(), key=lambda b: b.id):
        if b.crate != "turmoil_net":
            continue
        root = b
        while root.parent and root.parent in ctx.w.bodies:
            root = ctx.w.bodies[root.parent]
        inside = root.id.startswith("turmoil_net::kernel::socket::SocketTable::") or root.id.startswith("<turmoil_net::kernel::socket::SocketTable")
        if inside:
            continue
        for bb, t in b.calls(mutators):
            if not t["args"]:
                continue
            for name, fld in idx.items():
                if _on_field(b, t["args"][0], fld):
                    ctx.bad(R, f"outside-writer:{root.id}:{name}", t["s"], f"`{root.id}` mutates SocketTable::{name} directly: the three indexes can diverge")
    ctx.floor(R, 3)


def r3(ctx):
    R = "C13-R3"
    ctx.rule(R, "obligation dataflow in the tokio shim: acquire = Kernel::open / Kernel::bind (Result-carried), release = Kernel::close, "
                "guards = types whose Drop reaches Kernel::close (FdGuard and the socket handles); no return / `?` / await-cancellation "
                "exit with the fd un-owned")
    spec = Spec(acquire=["turmoil_net::kernel::Kernel::open", "turmoil_net::kernel::Kernel::bind"],
                release=["turmoil_net::kernel::Kernel::close"], discharge=[])
    ob = Obligations(ctx.w, spec)
    guards = ob.discover_guard_types()
    spec.guard_types = guards
    spec.discharge = [re.compile(r"::from_fd$")] + sorted(guards)
    ctx.info(R, "guard-types", "", f"fd-owning types (Drop reaches Kernel::close): {sorted(guards)}")
    # one named suppression
    SUPPRESS = {"turmoil_net::shim::tokio::net::tcp::listener::TcpListener::bind:error-return":
                "Kernel::listen fails only with NotFound for an fd that does not exist; here the fd was inserted by Kernel::bind two lines above in the same kernel borrow"}
    roots = set()
    for b, bb, t in who_calls(ctx.w, spec.acquire):
        if not b.id.startswith("turmoil_net::shim"):
            continue
        r_ = b
        while r_.parent and r_.parent in ctx.w.bodies:
            r_ = ctx.w.bodies[r_.parent]
        roots.add(r_.id)
    for rid in sorted(roots):
        tops = [b for b in ctx.w.family(rid) if b.parent == rid and b.coroutine] or [ctx.w.bodies[rid]]
        for top in tops:
            ro, re_, leaks = ob.summary(top.id)
            inner = []
            for fb in ctx.w.family(top.id):
                if fb.id in ob._sum:
                    inner += ob._sum[fb.id][2]
            probs = []
            if ro:
                probs.append(("return", top.span, "returns with an fd that no guard or handle owns"))
            if re_:
                probs.append(("error-return", top.span, "an error return leaves the fd open with no owner"))
            for lk in inner:
                probs.append((f"{lk.kind}", lk.site, "the future can be dropped at this await with the fd un-owned"))
            if not probs:
                ctx.ok(R, rid, top.span, "the fd is owned on every exit (guard / handle / close)")
            for kind, site, note in probs:
                key = f"{rid}:{kind}"
                if key in SUPPRESS:
                    ctx.info(R, key, site, "suppressed (one symbol): " + SUPPRESS[key])
                else:
                    ctx.bad(R, key, site, f"`{rid}`: {note}: the socket-table entry is never reclaimed")
    # guard drop closes on every path unless disarmed
    for g in sorted(guards):
        d = ctx.w.drop_impl(g)
        db = ctx.w.bodies.get(d)
        if not db:
            continue
        ok = any(True for _ in may_call(ctx.w, [d], "turmoil_net::kernel::Kernel::close"))
        ctx.inst(R, f"drop-closes:{g}", ok, db.span, "Drop reaches Kernel::close")
    ctx.floor(R, 6)


def r4(ctx):
    R = "C13-R4"
    ctx.rule(R, "tcp::on_close: every path returns `true` (caller removes the entry) or has set Socket::fd_closed; in the listener arm "
                "every collected child reaches SocketTable::remove; the listener's address is used to select children only behind the "
                "`!wildcard` test (a 0.0.0.0 listener owns children on every local address); Kernel::close removes iff on_close says so")
    b = ctx.body(R, "turmoil_net::kernel::tcp::on_close")
    if b:
        fdw = set(bb for bb, i, s in b.all_stmts() if place_last_field(s["p"]) == "turmoil_net::kernel::socket::Socket::fd_closed"
                  and s["r"]["k"] == "use" and (op_const(s["r"]["o"]) or {}).get("v") == 1)
        rets_false = [bb for bb, i, s in b.all_stmts() if s["p"]["l"] == 0 and not s["p"].get("p") and s["r"]["k"] == "use"
                      and (op_const(s["r"]["o"]) or {}).get("v") == 0]
        bad = [bb for bb in rets_false if not b.dominated_by_any(bb, blocks=list(fdw))]
        ctx.inst(R, "on_close:false-implies-fd_closed", not bad and bool(rets_false), b.span,
                 "`false` (linger) is returned only after marking fd_closed" if not bad and rets_false else
                 "on_close can return `false` (keep the entry) without marking fd_closed: reap_closed never reaps it")
        other = [bb for bb, i, s in b.all_stmts() if s["p"]["l"] == 0 and not s["p"].get("p") and not (s["r"]["k"] == "use" and op_const(s["r"]["o"]) is not None)]
        ctx.inst(R, "on_close:constant-results", not other, b.span, "results are the constants true/false" if not other else "on_close returns a computed value (re-derive the rule)")
        # listener arm: the loop over children removes each
        rm = [bb for bb, t in b.calls(REMOVE)]
        ctx.inst(R, "on_close:listener-removes-children", len(rm) >= 1, b.span, f"{len(rm)} child removal site(s) in the listener arm" if rm else
                 "the listener arm no longer removes unaccepted children")
        # wildcard-awareness (in on_close and in the closures of its iterator chains)
        LOCAL = "field:turmoil_net::kernel::tcp::on_close::Action::local"
        n = 0
        for fb in ctx.w.family(b.id):
            wfe = []
            for sbb, te, fe, o in guards_on(fb, lambda o: True):
                at = Slicer(ctx.w).atoms(fb, fb.term(sbb)["d"])
                if "call:std::net::IpAddr::is_unspecified" in at and LOCAL in at:
                    oo = origin(fb, fb.term(sbb)["d"])
                    neg = False
                    while oo["k"] == "not":
                        neg = not neg
                        oo = oo["a"]
                    tt, ft = bool_edges(fb, sbb, fb.term(sbb))
                    if neg:
                        wfe.append((sbb, tt))
                    elif ft is not None:
                        wfe.append((sbb, ft))
            for bb, t in fb.calls():
                if is_macro_noise(t) or not t["args"]:
                    continue
                f = t["f"]
                if re.search(r"SocketAddr::(port|ip)$|IpAddr::is_unspecified$|::emit$|Clone>::clone$", f):
                    continue
                uses_local = False
                for a in t["args"]:
                    at = Slicer(ctx.w, through_calls=True, stop_calls=re.compile(r"^(?!std::net::SocketAddr::ip$).*")).atoms(fb, a)
                    if LOCAL in at and "call:std::net::SocketAddr::port" not in at:
                        uses_local = True
                if not uses_local:
                    continue
                if ctx.w.bodies.get(f) is not None or closure_args(fb, t):
                    continue     # passing `local` on to an in-repo closure / iterator adaptor: judged where it is finally used
                n += 1
                ok = bool(wfe) and fb.dominated_by_any(bb, edges=wfe)
                ctx.inst(R, f"on_close:wildcard-aware:{f.rsplit('::', 1)[-1]}#{n}", ok, t["s"],
                         "listener address used to select children only when the listener is not a wildcard bind" if ok else
                         f"`{f}` selects children by the listener's literal address without the wildcard test: children of a 0.0.0.0 / :: listener are missed and orphaned")
    kc = ctx.body(R, "turmoil_net::kernel::Kernel::close")
    if kc:
        oc = list(kc.calls("turmoil_net::kernel::tcp::on_close"))
        rm = [bb for bb, t in kc.calls(REMOVE)]
        ok = bool(rm)
        ctx.inst(R, "Kernel::close:removes", ok, kc.span, "Kernel::close removes the entry (when on_close / the protocol says so)" if ok else "Kernel::close never removes")
    ctx.floor(R, 5)


def r5(ctx):
    R = "C13-R5"
    ctx.rule(R, "accept_syn: after SocketTable::insert every path to return passes insert_binding and insert_connection (all or nothing); "
                "ListenState::ready is written only by push_to_listener (push_back) and poll_accept (pop_front)")
    b = ctx.body(R, "turmoil_net::kernel::tcp::accept_syn")
    if b:
        ins = [bb for bb, t in b.calls("turmoil_net::kernel::socket::SocketTable::insert")]
        for name in ("insert_binding", "insert_connection"):
            cb = [bb for bb, t in b.calls(f"turmoil_net::kernel::socket::SocketTable::{name}")]
            ok = bool(ins) and bool(cb) and not always_passes(b, cb, frm=ins[0])
            ctx.inst(R, f"accept_syn:{name}", ok, b.span, f"child is always given its {name.split('_')[1]} index entry" if ok else
                     f"accept_syn can create a child without {name}: it is unreachable by demux / never reclaimed by address")
        # backlog test dominates the insert
        ctx.inst(R, "accept_syn:insert-once", len(ins) == 1, b.span, "one child per SYN")
    READY = "turmoil_net::kernel::socket::ListenState::ready"
    allowed = {"push_back": {"turmoil_net::kernel::tcp::push_to_listener"}, "pop_front": {"turmoil_net::kernel::Kernel::poll_accept"}}
    for ob in sorted(ctx.w.bodies.values(), key=lambda b: b.id):
        if ob.crate != "turmoil_net":
            continue
        for bb, t in ob.calls(re.compile(r"^std::collections::VecDeque::(push_back|push_front|pop_front|pop_back|insert|remove|retain|clear|drain|swap_remove_back|swap_remove_front)$")):
            if t["args"] and _on_field(ob, t["args"][0], READY):
                m = t["f"].rsplit("::", 1)[1]
                root = ob
                while root.parent and root.parent in ctx.w.bodies:
                    root = ctx.w.bodies[root.parent]
                ok = m in allowed and root.id in allowed[m]
                ctx.inst(R, f"ready-queue:{root.id}:{m}", ok, t["s"], f"{m} on the accept-ready queue" if ok else
                         f"`{root.id}` applies `{m}` to the accept-ready queue: established children can be lost, duplicated or reordered")
    ctx.floor(R, 5)


def state_sets(ctx, fid):
    """variant sets of every `matches!(tcb.state, ..)`-style switch on Tcb::state in the function's family"""
    out = []
    b = ctx.w.bodies.get(fid)
    if not b:
        return out
    for fb in ctx.w.family(fid):
        def _is_state(p, fb=fb):
            if place_last_field(p) == STATE:
                return True
            # `may_transmit(t.state)` inlined: the match is on a copy of the field
            if not p.get("p"):
                og = origin(fb, {"c": p})
                return og["k"] == "place" and place_last_field(og["p"]) == STATE
            return False
        for sbb, m, els, adt, pl in variant_edges(fb, _is_state):
            tgt_else = els[1]
            vs = frozenset(v for v, e in m.items() if e[1] != tgt_else)
            out.append((fb, sbb, vs))
    return out


def r6(ctx, R="C13-R6"):
    ctx.rule(R, "sibling agreement: the states in which segment_all may transmit data / FIN are all covered by check_retx's "
                "data-retransmit candidate set (a state that can have bytes in flight but is never retransmitted stalls forever)")
    seg = state_sets(ctx, "turmoil_net::kernel::tcp::segment_all")
    rtx = state_sets(ctx, "turmoil_net::kernel::tcp::check_retx")
    if not seg or not rtx:
        if ctx.strict:
            ctx.bad(R, "state-sets", "", "cannot extract the state sets of segment_all / check_retx")
        return
    tx = max((vs for _, _, vs in seg), key=len)
    data = [vs for _, _, vs in rtx if "Established" in vs]
    hs = [vs for _, _, vs in rtx if "SynSent" in vs or "SynReceived" in vs]
    site = ctx.w.bodies["turmoil_net::kernel::tcp::check_retx"].span
    if not data:
        ctx.bad(R, "retx-covers-transmit", site, "check_retx has no data-state candidate set")
    else:
        d = max(data, key=len)
        miss = sorted(tx - d)
        ctx.inst(R, "retx-covers-transmit", not miss, site, f"transmit states {sorted(tx)} are all retransmit candidates" if not miss else
                 f"segment_all transmits in {miss} but check_retx never retransmits there: a segment or FIN lost in that state is never resent nor timed out; the peer waits forever")
    if data:
        # the converse: a state that check_retx rewinds for retransmission is one segment_all transmits in - a rewind that is never
        # followed by a re-emission (CLOSING with its own FIN lost) parks both ends for ever
        d = max(data, key=len)
        never = sorted(d - tx)
        ctx.inst(R, "transmit-covers-retx", not never, ctx.w.bodies["turmoil_net::kernel::tcp::segment_all"].span, f"every retransmit candidate state {sorted(d)} is transmitted in" if not never else
                 f"check_retx rewinds snd_nxt in {never} but segment_all never transmits there: a FIN lost in that state is never resent - the socket stays in it and its peer in FIN_WAIT2, "
                 "both table entries, bindings and index entries leak")
    okh = any({"SynSent", "SynReceived"} <= vs for vs in hs)
    ctx.inst(R, "retx-covers-handshake", okh, site, "both handshake states are retransmit candidates" if okh else
             "check_retx no longer covers SynSent and SynReceived")
    # the shim never leaks a handle: std::mem::forget / ManuallyDrop on a socket half keeps its Arc<TcpStream> alive for ever - the stream is
    # never closed, no FIN goes out and neither end's entries are reclaimed
    leaks = [(b.id, t["s"]) for b in ctx.w.bodies.values() if b.crate == "turmoil_net" and "::shim::" in b.id
             for bb, t in b.calls(re.compile(r"^std::mem::forget$|ManuallyDrop::new$|^std::boxed::Box::leak$|Arc::into_raw$|Arc::increment_strong_count$"))]
    ctx.inst(R, "shim:no-leaked-handles", not leaks, leaks[0][1] if leaks else "", "no socket handle of the shim is forgotten" if not leaks else
             f"`{leaks[0][0]}` forgets a value instead of dropping it: the half's reference to the stream is never released, Kernel::close is never called and the connection is never reclaimed")
    ctx.floor(R, 3)


def r7(ctx):
    R = "C13-R7"
    ctx.rule(R, "socket ids and initial sequence numbers are monotone counters (SocketTable::next_id +1, Kernel::tcp_isn +k): a reclaimed "
                "entry's fd is never handed out again, so a stale handle cannot alias a new socket")
    counter_rule(ctx, R, "turmoil_net::kernel::socket::SocketTable::next_id", step=1)
    counter_rule(ctx, R, "turmoil_net::kernel::Kernel::tcp_isn")
    ctx.floor(R, 2)


TCP_ALLOWED = {("SynSent", "Established"), ("SynReceived", "Established"), ("Established", "CloseWait"), ("Established", "FinWait1"),
               ("CloseWait", "LastAck"), ("FinWait1", "FinWait2"), ("FinWait1", "Closing"), ("FinWait2", "Closed"), ("Closing", "Closed"),
               ("LastAck", "Closed")}


def r10(ctx, R="C13-R10"):
    ctx.rule(R, "the transition relation the code implements on Tcb::state (extracted per path by the typestate dataflow) is TCP's: every "
                "write that can change the state moves it along one of SynSent->Established, SynReceived->Established, "
                "Established->CloseWait|FinWait1, CloseWait->LastAck, FinWait1->FinWait2|Closing, FinWait2->Closed, Closing->Closed, "
                "LastAck->Closed; only abort_with may go to Closed from anywhere; and each of the ten transitions is implemented somewhere. "
                "Entering Closed early (e.g. FinWait1->Closed on the peer's FIN) takes the socket out of the retransmit and segmentation "
                "state lists while its own data / FIN are still unacknowledged: silent loss")
    ts = Typestate(ctx.w, CELLS)
    seen = set()
    cnt = {}
    for b in sorted(ctx.w.bodies.values(), key=lambda b: b.id):
        if b.crate != "turmoil_net" or "::tests::" in b.id:
            continue
        evs, _ = ts.analyze(b)
        for e in sorted(evs, key=lambda e: (e.bb, e.idx)):
            root = b
            while root.parent and root.parent in ctx.w.bodies:
                root = ctx.w.bodies[root.parent]
            if root.id.endswith("::abort_with"):
                continue
            bad = []
            for p, n, ident in e.pairs:
                if ident:
                    continue
                for a in p:
                    for z in n:
                        if a == z:
                            continue
                        if len(p) >= 9:
                            bad.append(("*", z))
                        elif (a, z) in TCP_ALLOWED:
                            seen.add((a, z))
                        else:
                            bad.append((a, z))
            k = f"{root.id}:state-write#{nth(cnt, root.id)}"
            ctx.inst(R, k, not bad, e.site, "moves along TCP's state machine" if not bad else
                     f"`{root.id}` can move the connection {sorted(set(bad))[0][0]} -> {sorted(set(bad))[0][1]}, which is not a TCP transition "
                     f"(all offending: {sorted(set(bad))[:4]}): a connection that still has data or a FIN to get acknowledged is taken out of the states the retransmit sweep and the segmenter serve")
    missing = sorted(TCP_ALLOWED - seen)
    ctx.inst(R, "all-transitions-implemented", not missing, "", "all ten transitions are implemented" if not missing else
             f"no code path implements {missing}: connections reaching the source state never leave it that way")
    ctx.floor(R, 7)


T_ = "turmoil_net::kernel::socket::Tcb::"


def r9(ctx):
    R = "C13-R9"
    ctx.rule(R, "(a) a dropped listener sweeps only its own half-open children: the sweep in tcp::on_close compares the child's port *and* "
                "its address family (BindKey::domain) with the listener's - 0.0.0.0:p and [::]:p are distinct listeners; (b) poll_connect "
                "reports success for every state that is only reachable after the handshake completed: CloseWait (the peer's FIN arrived "
                "before this poll) is Ok like Established, not `connection refused`; (c) a socket whose handle was dropped (fd_closed) does "
                "not go on buffering new data nobody can read: handle_established tests fd_closed and aborts (RST) from that side - "
                "otherwise two orphaned ends fill each other's window and stay in the table, ports bound, forever")
    oc = ctx.body(R, "turmoil_net::kernel::tcp::on_close")
    if oc:
        reads_port = reads_dom = False
        for fb in ctx.w.family(oc.id):
            for sbb, te, fe, o in guards_on(fb, lambda o: True):
                at = Slicer(ctx.w).atoms(fb, fb.term(sbb)["d"])
                if "field:turmoil_net::kernel::socket::BindKey::local_port" in at:
                    reads_port = True
                if "field:turmoil_net::kernel::socket::BindKey::domain" in at:
                    reads_dom = True
        ctx.inst(R, "on_close:sweep-compares-family", reads_port and reads_dom, oc.span, "children are selected by port and address family" if reads_port and reads_dom else
                 "the listener's child sweep selects SynReceived children by port (and address) only, never by address family: dropping 0.0.0.0:p resets the "
                 "half-open children of [::]:p - an IPv6 connect gets ConnectionReset although its listener was up with backlog room")
    pc = ctx.body(R, "turmoil_net::kernel::tcp::poll_connect")
    if pc:
        okv = None
        for sbb, m, els, adt, pl in variant_edges(pc, lambda p: place_last_field(p) == STATE or STATE in root_place(pc, p)[1]):
            if "Established" in m:
                est, cw = m["Established"], m.get("CloseWait", els)
                okv = est[1] == cw[1] or (set(pc.reachable(est[1])) == set(pc.reachable(cw[1])))
        ctx.inst(R, "poll_connect:close-wait-is-connected", bool(okv), pc.span, "CloseWait is reported as a completed connect" if okv else
                 "poll_connect maps CloseWait to the `peer reset` arm: a connect future first polled after the peer's FIN arrived returns ConnectionRefused for a "
                 "connection the server accepted (and the greeting it sent is never read)")
    he = ctx.body(R, "turmoil_net::kernel::tcp::handle_established")
    if he:
        ab = [bb for bb, t in he.calls(re.compile(r"tcp::(abort_connection|abort_with|emit_rst)$"))]
        ok = False
        for sbb, te, fe, o in guards_on(he, lambda o: True):
            at = Slicer(ctx.w).atoms(he, he.term(sbb)["d"])
            if "field:turmoil_net::kernel::socket::Socket::fd_closed" in at and any(x in he.reachable(e[1]) for e in te for x in ab):
                ok = True
        # ... and only *new* data does: a retransmission of bytes the socket already holds (its ACK was lost or is late) is re-ACKed like
        # on any other socket - the reset decision compares the segment's sequence number with rcv_nxt
        okn = False
        for x in ab:
            at = set()
            for sbb in control_switches(he, x):
                at |= Slicer(ctx.w, control=True).atoms(he, he.term(sbb)["d"])
            if "field:turmoil_net::kernel::socket::Socket::fd_closed" in at and "field:turmoil_net::kernel::packet::TcpSegment::seq" in at and "field:" + T_ + "rcv_nxt" in at:
                okn = True
        if ok:
            ctx.inst(R, "handle_established:orphan-resets-only-on-new-data", okn, he.span, "a retransmission to an orphaned socket is not answered with a reset" if okn else
                     "the reset for data arriving at an orphaned socket does not look at the sequence number: a retransmission of bytes the socket already holds (the reader read "
                     "everything and dropped its stream, its ACK was lost or late) is answered with a RST - the writer gets ConnectionReset instead of EOF")
        ctx.inst(R, "handle_established:orphan-takes-no-new-data", ok, he.span, "new data for an orphaned socket resets the connection" if ok else
                 "handle_established never looks at Socket::fd_closed: an orphaned socket keeps buffering the peer's data until its window closes, and if the peer is "
                 "orphaned too (connect + drop against accept + write + drop) both ends wait forever - FIN_WAIT2 / LAST_ACK entries that keep their ports bound")
    ctx.floor(R, 3)


def r11(ctx):
    R = "C13-R11"
    ctx.rule(R, "a socket is closed in the kernel of the host that owns it: the Drop impls of the shim sockets (TcpStream / FdGuard, TcpListener, "
                "UdpSocket, OwnedWriteHalf) reach Kernel::close / shutdown through a kernel accessor; that accessor must pick the kernel from "
                "something the socket carries (a host id passed in), not from the ambient `current host` of the thread - tasks spawned by a host's "
                "future (the accept-loop-plus-handler shape) are polled with whichever host ran last as the current one, so an ambient lookup "
                "closes the fd in another host's table: the entry here is never reclaimed and a live socket there is torn down")
    drops = [b for b in ctx.w.bodies.values() if b.crate == "turmoil_net" and re.match(r"^<turmoil_net::shim::.* as std::ops::Drop>::drop$", b.id)]
    n = 0
    amb = {}
    for db in sorted(drops, key=lambda b: b.id):
        for fb in ctx.w.family(db.id):
            for bb, t in fb.calls():
                ab = ctx.w.bodies.get(t["f"])
                if not ab or ab.crate != "turmoil_net":
                    continue
                # an accessor: its family reaches Fabric::kernel_mut
                km = [(kb, kbb, kt) for kb in ctx.w.family(ab.id) for kbb, kt in kb.calls(re.compile(r"Fabric::kernel_mut$|Fabric::kernel$"))]
                if not km:
                    continue
                n += 1
                kb, kbb, kt = km[0]
                at = Slicer(ctx.w).atoms(kb, kt["args"][1])
                # the host must come from an argument of the accessor that is not the closure to run
                host_args = [a for a in at if a.startswith("arg:") and a.endswith("@" + ab.id)]
                clos = {f"arg:{k + 1}:" for k, ti in enumerate(ctx.w.fns[ab.id]["inputs"]) if ab.tys[ti].get("k") in ("closure", "param")} if ab.id in ctx.w.fns else set()
                owned = [a for a in host_args if not any(a.startswith(c) for c in clos)]
                e = amb.setdefault(ab.id, {"ok": True, "site": t["s"], "drops": [], "fields": set()})
                if not owned:
                    e["ok"] = False
                    e["drops"].append(db.id.split(" as ")[0].rsplit("::", 1)[1])
                    e["fields"] |= {a[6:].rsplit("::", 2)[-2] + "::" + a.rsplit("::", 1)[1] for a in at if a.startswith("field:")}
    for aid, e in sorted(amb.items()):
        ctx.inst(R, f"drop-closes-own-kernel:via:{aid}", e["ok"], e["site"], "the kernel is chosen by a host the socket carries" if e["ok"] else
                 f"the shim sockets {sorted(set(e['drops']))} close their fd through `{aid}`, which takes the kernel of the thread's *current* host ({sorted(e['fields'])}): dropped from a "
                 "task spawned by the host's future, a socket is closed in whichever host was polled last - its own entry stays (CLOSE_WAIT for ever, no FIN), "
                 "and a socket with the same fd number on the other host is torn down")
    ctx.inst(R, "drop-closes-own-kernel:found", n >= 3, "", f"{n} close paths of shim sockets analysed" if n >= 3 else f"only {n} close paths found in the shim Drop impls: re-derive")
    ctx.floor(R, 2)


def r12(ctx):
    R = "C13-R12"
    ctx.rule(R, "closed sockets are reaped on every egress pass, whether or not the pass moved a packet: Kernel::egress reaches tcp::reap_closed on "
                "every path to its return (a socket often reaches Closed from a segment that needs no reply - the final ACK in LAST_ACK, a RST while "
                "lingering - and its host may stay quiet afterwards); and the backlog admission in accept_syn counts the half-open children of the "
                "*listener's* address (count_children is handed accept_syn's `local`, not the connector's address)")
    eg = ctx.body(R, "turmoil_net::kernel::Kernel::egress")
    if eg:
        rc = [bb for bb, t in eg.calls("turmoil_net::kernel::tcp::reap_closed")]
        ok = bool(rc) and not always_passes(eg, rc)
        ctx.inst(R, "egress:reaps-on-every-pass", ok, eg.site(rc[0]) if rc else eg.span, "reap_closed runs on every egress pass" if ok else
                 "Kernel::egress has a path to its return that does not call tcp::reap_closed (e.g. the call sits in the body of the drain loop, which only runs when there is "
                 "something to send): a dropped socket that reaches Closed on an idle host keeps its entry, port binding and 4-tuple for ever - a later bind gets AddrInUse")
    ac = ctx.body(R, "turmoil_net::kernel::tcp::accept_syn")
    if ac:
        for bb, t in ac.calls("turmoil_net::kernel::tcp::count_children"):
            at = Slicer(ctx.w).atoms(ac, t["args"][2])
            names = {a.split(":")[2].split("@")[0] for a in at if a.startswith("arg:") and a.endswith("@" + ac.id)}
            ok = names == {"local"}
            ctx.inst(R, "accept_syn:backlog-counts-listener-children", ok, t["s"], "in-flight children are counted at the listener's address" if ok else
                     f"accept_syn counts half-open children at {sorted(names)} instead of at the listener's own address: the count is always 0, so a burst of SYNs that arrives before "
                     "earlier handshakes complete is admitted past the backlog")
    ctx.floor(R, 2)


def run(ctx):
    from . import C17
    from . import C06
    C06.r13(ctx)   # a retransmitted SYN / SYN-ACK is the segment that was sent: same sequence number (a handshake that ends one off leaks FIN_WAIT2 entries)
    C17.r4(ctx)   # one connect, one server-side socket: a segment of a live connection never reaches the listener (a retransmitted SYN must not fork a second child)
    r12(ctx)
    r11(ctx)
    from . import C06
    C06.r7(ctx)   # a close actually sends its FIN: fin_seq is the byte after send_buf, whatever is in flight (else FIN_WAIT1 for ever, entries leak)
    r10(ctx)
    r9(ctx)
    scan_rule(ctx, "C13")
    r7(ctx)
    r1(ctx)
    r2(ctx)
    r3(ctx)
    r4(ctx)
    r5(ctx)
    r6(ctx)
